"""C07 - suspension is sound and live (structural clauses, DESIGN.md section 8)."""

from __future__ import annotations

import ast

from checks.c03 import judge_trace
from sa.cfg import CFG, walk_shallow
from sa.common import at_least_one, applicable_cells, fn_construct, terminal_statuses, trace_sig
from sa.model import AnalysisError, load_program
from sa.protocol import ABSENT, SUSPEND_FQ, ProtocolModel, is_suspend, is_timed_suspend, wrapper_traces
from sa.report import Check, main
from sa.values import NONE, Const, EnumVal, Obj, SeqVal, Sym, TypeRef

PID = "C07"

# Unbounded blocking primitives of the package and the rule that guarantees their wake-up.
BLOCKING_REGISTRY = {
    ("state.py:ExecutionState.create_checkpoint", "completion_event.wait"): "C06/R1+R2: the consumer releases every enqueued event on success and on failure",
    ("concurrency/executor.py:ConcurrentExecutor.execute", "self._completion_event.wait"): "C06/R4 + C09/R4: every branch outcome reaches the event; empty input returns early",
    ("execution.py:durable_execution.<locals>.wrapper", "user_future.result"): "termination of the user handler thread (user code)",
    ("threading.py:OrderedLock.acquire", "event.wait"): "C19: enqueue-before-wait and release hands over to the head",
    ("concurrency/executor.py:ConcurrentExecutor._on_task_complete", "future.result"): "done-callback: the future is already finished",
    ("config.py:StepFuture.result", "self.future.result"): "public helper, not used by the SDK; bounded when the caller passes a timeout",
    ("threading.py:CompletionEvent.wait", "self._event.wait"): "wrapper primitive: judged at its call sites",
    ("execution.py:durable_execution.<locals>.wrapper.<locals>.raise_if_checkpointing_failed", "checkpoint_future.result"):
        "dominated by stop_checkpointing(): the consumer loops observe the stop flag (C18/R4.consumer-loops-observe-stop) and the loop's API call is bounded by the client",
}


def build() -> Check:
    prog = load_program()
    pm = ProtocolModel(prog)
    ck = Check(
        PID, "suspension is sound and live",
        "Record-before-suspend on every suspending path of every non-terminal executor cell; the suspend decision of the concurrent executor is interpreted "
        "for every BranchStatus (a branch that can still run vetoes suspension; parked branches produce it); who-may-catch SuspendExecution; an inventory of "
        "every unbounded blocking call in the package, each registered with the rule that guarantees its wake-up; timer resubmission resets the branch to "
        "PENDING before it is resubmitted; the wrapper maps a suspension to a bare PENDING.",
        ["termination after finitely many invocations, absence of spinning and 'no user function still running' under every schedule are not decided",
         "the backend fires its timers and delivers callbacks / invoke results"],
        "one obligation per rule, cell or site",
    )
    term = terminal_statuses(prog)
    n_susp = 0
    for name, ci, ot, st in applicable_cells(pm):
        if st in term:
            continue
        traces = pm.run_cell(ci, st, faults=True)
        bad = []
        for t in traces:
            if not is_suspend(prog, t):
                continue
            n_susp += 1
            why = judge_trace(prog, t, st, ot)
            if why:
                bad.append((why, t))
        if any(is_suspend(prog, t) for t in traces):
            ck.ob("R1.record-before-suspend", f"{ci.module.relpath.split('aws_durable_execution_sdk_python/')[-1]}:{ci.name}", not bad,
                  (bad[0][0] + ": " + trace_sig(bad[0][1])) if bad else "", cell=st)
    ck.floor("suspending_paths", n_susp, 8)
    # a branch that parks "until now" is resubmitted at once by the resume timer, refreshes, finds the same state and parks "until now" again: inside a
    # map/parallel it never looks parked to its siblings and the invocation polls the backend instead of answering PENDING. A suspension raised
    # by an operation that waits for an external event (invoke, callback) or for its own delay must lie in the future on every path, or be indefinite.
    from sa.values import Sym as _Sym, Const as _Const
    n_timed = 0
    dur = prog.cls("config", "Duration")
    pi_ = dur.methods.get("__post_init__")
    dur_nonneg = pi_ is not None and any(isinstance(n_, ast.If) and ast.unparse(n_.test).replace(" ", "") == "self.seconds<0"
                                         and any(isinstance(x_, ast.Raise) for x_ in ast.walk(n_)) for n_ in ast.walk(pi_.node))
    for name, ci, ot, st in applicable_cells(pm):
        if st in term or ot not in ("CHAINED_INVOKE", "CALLBACK"):
            continue
        badn = []
        for t in pm.run_cell(ci, st, faults=False):
            if t.outcome != "raise" or not (t.exc_class() or "").endswith("TimedSuspendExecution"):
                continue
            n_timed += 1
            ts_ = getattr(t.value, "fields", {}).get("scheduled_timestamp")
            delay = None
            if isinstance(ts_, _Sym) and ts_.parts and ts_.parts[0] == "BINOP" and "time.time()" in ts_.parts[2].key():
                delay = ts_.parts[3]
            d_ = dict(t.pc)
            # Duration rejects negative values in __post_init__ (confirmed below): `<duration>.seconds < 0` is an infeasible path
            if dur_nonneg and any(k.endswith(".seconds < 0") and v is True for k, v in t.pc):
                n_timed -= 1
                continue
            positive = delay is not None and (at_least_one(delay, t.pc) or d_.get(f"truthy({delay.key()})") is True or d_.get(f"{delay.key()} > 0") is True)
            if not positive:
                badn.append((f"an outstanding {ot.lower().replace('_', ' ')} parks the branch until {ts_.key() if ts_ is not None else '?'} on a path that has not established a "
                             "positive delay (the default timeout 0 means 'no timeout'): the branch is resumed at once, again and again", t))
        if badn:
            ck.ob("R1.timed-suspension-lies-in-the-future", f"{ci.module.relpath.split('aws_durable_execution_sdk_python/')[-1]}:{ci.name}", False,
                  badn[0][0] + " | " + "; ".join(f"{k}->{v}" for k, v in badn[0][1].pc), cell=st)
        else:
            ck.ob("R1.timed-suspension-lies-in-the-future", f"{ci.module.relpath.split('aws_durable_execution_sdk_python/')[-1]}:{ci.name}", True, "", cell=st)

    # R1 a wait that is found STARTED is running since an earlier point in time: it parks until the time its record says the backend's timer fires - not for
    # its full duration counted from now (h3_C07 #1: replayed in a re-invocation that another event caused, the branch stays "parked" for minutes after the
    # wait ended; a sibling's checkpoint brings the completion, and the verdict still says PENDING with nothing registered)
    n_wait = 0
    for name, ci, ot, st in applicable_cells(pm):
        if ot != "WAIT" or st in term or st == ABSENT:
            continue
        badw = []
        for t in pm.run_cell(ci, st, faults=False):
            if t.outcome != "raise" or not (t.exc_class() or "").endswith("TimedSuspendExecution"):
                continue
            n_wait += 1
            ts_ = getattr(t.value, "fields", {}).get("scheduled_timestamp")
            recorded = any(k.endswith("wait_details is None") and v is False for k, v in t.pc) or any("scheduled_end_timestamp" in str(k) for k, _v in t.pc)
            # the target is the recorded end time, or the path compared the recorded end time with the clock (a recorded time that has passed is
            # treated as "look again now / in a moment" by the suspension helpers)
            from_record = (ts_ is not None and "scheduled_end_timestamp" in ts_.key()) or any(
                "scheduled_end_timestamp" in str(k) and not str(k).endswith("is None") and not str(k).endswith("is not None") for k, _v in t.pc)
            full_again = ts_ is not None and ("+ seconds" in ts_.key() or "seconds)" in ts_.key()) and "scheduled_end_timestamp" not in ts_.key()
            if recorded and full_again and not any(str(k).endswith("scheduled_end_timestamp is None") and v is True for k, v in t.pc) \
                    and not any("isinstance" in str(k) and v is False for k, v in t.pc) and not any("tzinfo is not None" in str(k) and v is False for k, v in t.pc):
                # (looking at the recorded end and then parking for the full duration all the same is no better than not looking)
                badw.append((f"a wait found {st} whose record carries its end time parks until {ts_.key()} - its full duration counted from now", t))
            elif recorded and ts_ is not None and "scheduled_end_timestamp" not in ts_.key() and not any(
                    "scheduled_end_timestamp" in str(k) and (str(k).endswith("<= datetime.now()") or str(k).endswith("< datetime.now()")) and v is True for k, v in t.pc) \
                    and not any(str(k).endswith("scheduled_end_timestamp is None") and v is True for k, v in t.pc) \
                    and not any("isinstance" in str(k) and v is False for k, v in t.pc) and not any("tzinfo is not None" in str(k) and v is False for k, v in t.pc):
                # "look again in a moment" is for a recorded end that HAS passed; before that the branch parks until the recorded end itself - a branch that
                # re-looks every second while its wait runs never looks parked for longer than that to its siblings (mutscan: `resume_at <= now` negated)
                badw.append((f"a wait found {st} whose recorded end has not passed parks until {ts_.key()} instead of that end", t))
            elif recorded and not from_record and not any(str(k).endswith("scheduled_end_timestamp is None") and v is True for k, v in t.pc) \
                    and not any("isinstance" in str(k) and v is False for k, v in t.pc) and not any("tzinfo is not None" in str(k) and v is False for k, v in t.pc):
                badw.append((f"a wait found {st} whose record carries its end time parks until {ts_.key() if ts_ is not None else '?'}", t))
            elif not any("scheduled_end_timestamp" in str(k) or "wait_details" in str(k) for k, _v in t.pc):
                badw.append((f"a wait found {st} parks until {ts_.key() if ts_ is not None else '?'} without looking at the end time its record carries", t))
        ck.ob("R1.replayed-wait-parks-until-its-recorded-end", f"{ci.module.relpath.split('aws_durable_execution_sdk_python/')[-1]}:{ci.name}", not badw,
              (badw[0][0] + " - the full duration is counted again from now: replayed early (another event caused the invocation) the branch looks parked long after "
               "the backend completed the wait, and the invocation answers PENDING with nothing left registered | " + "; ".join(f"{k}->{v}" for k, v in badw[0][1].pc)[:300]) if badw else "", cell=st)
    ck.floor("replayed_wait_suspensions", n_wait, 1)

    # ... and the same clause by value. The arm that handles a recorded end is a handful of assignments; they are evaluated on a grid of clock readings with the
    # clock, the recorded end and the duration as numbers. Expected: the earlier of the recorded end and now + duration when that lies ahead, one second from now
    # when it has passed. (mutscan 4: `now + timedelta(seconds)` -> `now - ...`: every key the rule above reads is still there, and the branch re-looks every second)
    from sa.common import MiniEvalUnknown, mini_eval
    wex = pm.executors.get("WaitOperationExecutor")
    wfn = wex.methods.get("execute") if wex is not None else None
    if wfn is None:
        raise AnalysisError("WaitOperationExecutor.execute not found")
    arms = [n for n in ast.walk(wfn.node) if isinstance(n, ast.If) and any(isinstance(c, ast.Call) and ast.unparse(c.func).endswith("suspend_with_optional_resume_timestamp")
                                                                           for b in n.body for c in ast.walk(b)) and "scheduled_end" in ast.unparse(n.test)]
    if len(arms) == 1:
        def run_arm(now, end, dur):
            env = {"scheduled_end": end, "self.seconds": dur, "self._seconds": dur}

            def ev(e):
                for c in sorted([x for x in ast.walk(e) if isinstance(x, ast.Call)], key=lambda x: -len(ast.unparse(x))):
                    pass
                # innermost calls first
                calls = [x for x in ast.walk(e) if isinstance(x, ast.Call)]
                for c in reversed(calls):
                    ft = ast.unparse(c.func)
                    if ft.endswith(".now") or ft.endswith("utcnow"):
                        env[ast.unparse(c)] = now
                    elif ft.endswith("timedelta") and not c.args and len(c.keywords) == 1 and c.keywords[0].arg == "seconds":
                        env[ast.unparse(c)] = mini_eval(c.keywords[0].value, env)
                    elif ft in ("min", "max") and c.args and not c.keywords:
                        env[ast.unparse(c)] = (min if ft == "min" else max)(mini_eval(a, env) for a in c.args)
                    elif ft.endswith("suspend_with_optional_resume_timestamp"):
                        continue
                    else:
                        raise MiniEvalUnknown(ast.unparse(c)[:60])
                return mini_eval(e, env)

            def run(stmts):
                for st in stmts:
                    if isinstance(st, ast.Assign) and len(st.targets) == 1 and isinstance(st.targets[0], ast.Name):
                        env[st.targets[0].id] = ev(st.value)
                    elif isinstance(st, ast.AnnAssign) and isinstance(st.target, ast.Name) and st.value is not None:
                        env[st.target.id] = ev(st.value)
                    elif isinstance(st, ast.If):
                        r = run(st.body if ev(st.test) else st.orelse)
                        if r is not None:
                            return r
                    elif isinstance(st, ast.Expr) and isinstance(st.value, ast.Call) and ast.unparse(st.value.func).endswith("suspend_with_optional_resume_timestamp"):
                        a_ = st.value.args[1] if len(st.value.args) > 1 else next((k.value for k in st.value.keywords if k.arg in ("datetime_timestamp", "resume_at", "timestamp")), None)
                        if a_ is None:
                            raise MiniEvalUnknown("resume argument of the suspension helper")
                        return ("at", ev(a_))
                    elif isinstance(st, ast.Expr) and isinstance(st.value, ast.Constant):
                        continue
                    else:
                        raise MiniEvalUnknown(ast.unparse(st)[:60])
                return None
            return run(arms[0].body)
        wrongv = []
        try:
            grid = [(1000, 1030, 60), (1000, 1100, 60), (1000, 1000.5, 60), (1000, 990, 60), (1000, 1000, 60), (1000, 1002, 1), (1000, 4600, 3600)]
            for now, end, dur in grid:
                got = run_arm(now, end, dur)
                ahead = min(end, now + dur)
                if got is None:
                    continue   # the arm falls through to the plain duration for this reading: judged by the trace rule above
                if ahead > now:
                    okv = got[1] == ahead
                else:
                    okv = now < got[1] <= now + max(1, dur)   # "in a moment": ahead of the clock, no later than a full duration
                if not okv:
                    wrongv.append(f"clock {now}, recorded end {end}, duration {dur}: parks until {got[1]} (expected {ahead if ahead > now else 'a moment after ' + str(now)})")
            ck.analysed["replayed_wait_grid"] = len(grid)
            ck.ob("R1.replayed-wait-parks-until-its-recorded-end", fn_construct(wfn), not wrongv, "; ".join(wrongv[:2]) +
                  ": a running wait is not parked until the earlier of its recorded end and one full duration from now", cell="by value")
        except MiniEvalUnknown as u_:
            ck.undecided_rule(f"R1.replayed-wait-parks-until-its-recorded-end (by value): `{u_}` in WaitOperationExecutor.execute is not understood")
        except Exception as u_:
            ck.undecided_rule(f"R1.replayed-wait-parks-until-its-recorded-end (by value): evaluation failed ({type(u_).__name__}: {u_})")
    else:
        ck.undecided_rule(f"R1.replayed-wait-parks-until-its-recorded-end (by value): {len(arms)} arms of WaitOperationExecutor.execute hand a recorded end to the suspension helper")

    # R1 an operation that waits for ITS OWN timer (a step or wait-for-condition found PENDING, a wait found STARTED) and whose record says when that timer
    # fires never parks without a time: inside a map/parallel an untimed branch is never looked at again in this invocation; when the overdue timer fires
    # while a sibling is still running, the READY record arrives with the sibling's checkpoint, the sibling finishes, the verdict says "all parked" and the
    # invocation answers PENDING with no timer left to wake it (r7_C07: "a timestamp in the past cannot be honoured -> suspend without a time")
    n_own = 0
    for name, ci, ot, st in applicable_cells(pm):
        if (ot, st) not in (("STEP", "PENDING"), ("WAIT", "STARTED")):
            continue
        bado = []
        for t in pm.run_cell(ci, st, faults=False):
            if t.outcome != "raise" or not (t.exc_class() or "").endswith(".SuspendExecution"):
                continue
            # `(a + b) is None` cannot hold: the interpreter explores it, the path is infeasible
            if any(str(k).startswith("(") and " + " in str(k) and str(k).endswith(") is None") and v is True for k, v in t.pc):
                continue
            n_own += 1
            no_time = any(v is True and str(k).endswith(" is None") and ("timestamp" in str(k) or str(k).endswith("_details is None")) for k, v in t.pc)
            if not no_time:
                bado.append((f"{ot.lower()} found {st} with a recorded timer parks WITHOUT a time", t))
        ck.ob("R1.own-timer-never-parks-without-a-time", f"{ci.module.relpath.split('aws_durable_execution_sdk_python/')[-1]}:{ci.name}", not bado,
              (bado[0][0] + ": in a map/parallel nobody looks at the branch again in this invocation; once the overdue timer has fired the invocation can answer PENDING "
               "with nothing left to wake the execution | " + "; ".join(f"{k}->{v}" for k, v in bado[0][1].pc)[:300]) if bado else "", cell=st)
    ck.floor("own_timer_untimed_paths", n_own, 4)

    # R2 suspend decision --------------------------------------------------------------------------
    cex = prog.cls("concurrency.executor", "ConcurrentExecutor")
    models = prog.module("concurrency.models")
    bstat, ews, exe_cls = models.classes["BranchStatus"], models.classes["ExecutableWithState"], models.classes["Executable"]
    ses = cex.methods.get("should_execution_suspend")
    if ses is None:
        raise AnalysisError("ConcurrentExecutor.should_execution_suspend not found")
    # statuses from which a branch body can still run: assigned by __init__/run()/reset_to_pending()
    runnable = set()
    for mname in ("__init__", "run", "reset_to_pending"):
        m = ews.methods.get(mname)
        if m is None:
            raise AnalysisError(f"ExecutableWithState.{mname} not found")
        for st in ast.walk(m.node):
            if isinstance(st, ast.Assign) and isinstance(st.targets[0], ast.Attribute) and st.targets[0].attr == "_status" \
                    and isinstance(st.value, ast.Attribute) and isinstance(st.value.value, ast.Name) and st.value.value.id == "BranchStatus":
                runnable.add(st.value.attr)
    ck.analysed["runnable_statuses"] = sorted(runnable)
    ck.floor("runnable_statuses", len(runnable), 2)
    parked = {n for n in bstat.enum_members if n.startswith("SUSPENDED")}
    ck.floor("parked_statuses", len(parked), 2)

    # R2 typestate: the verdict above is judged per STATUS; the done-callback and the resume timer reach those statuses through transition methods. Each
    # transition has to land where its caller assumes (the model records the calls as events and never looks inside them):
    #   suspend()               -> a parked status, no resume time        (otherwise the branch vetoes suspension for ever / is resumed by nobody)
    #   suspend_with_timeout(t) -> the parked status whose verdict reads the resume time, and that time is t
    #   reset_to_pending()      -> the status run() requires, resume time cleared   (otherwise the resubmission raises InvalidStateError in the timer thread)
    #   run()                   -> a status that vetoes suspension and is not parked
    #   can_resume              -> true for parked statuses only
    def assigned(mname, attr):
        m_ = ews.methods.get(mname)
        if m_ is None:
            raise AnalysisError(f"ExecutableWithState.{mname} not found")
        return [st.value for st in ast.walk(m_.node) if isinstance(st, ast.Assign) and len(st.targets) == 1 and isinstance(st.targets[0], ast.Attribute)
                and st.targets[0].attr == attr and isinstance(st.targets[0].value, ast.Name) and st.targets[0].value.id == "self"], m_

    def status_of(mname):
        vals, m_ = assigned(mname, "_status")
        names = {v.attr for v in vals if isinstance(v, ast.Attribute) and isinstance(v.value, ast.Name) and v.value.id == "BranchStatus"}
        if len(vals) != 1 or len(names) != 1:
            raise AnalysisError(f"ExecutableWithState.{mname}: expected exactly one `self._status = BranchStatus.X`, found {[ast.unparse(v) for v in vals]}")
        return next(iter(names)), m_
    timed_statuses = {n.comparators[0].attr for n in ast.walk(ses.node) if isinstance(n, ast.Compare) and isinstance(n.comparators[0], ast.Attribute)
                      and isinstance(n.comparators[0].value, ast.Name) and n.comparators[0].value.id == "BranchStatus" and len(n.ops) == 1 and isinstance(n.ops[0], (ast.Is, ast.Eq))
                      and any(isinstance(x, ast.Attribute) and x.attr == "suspend_until" for i_ in ast.walk(ses.node) if isinstance(i_, ast.If) and i_.test is n for x in ast.walk(i_))}
    if len(timed_statuses) != 1:
        raise AnalysisError(f"should_execution_suspend: the status whose branch reads suspend_until is not unique: {sorted(timed_statuses)}")
    timed = next(iter(timed_statuses))
    run_vals, run_m = assigned("run", "_status")
    run_req = {n.comparators[0].attr for n in ast.walk(run_m.node) if isinstance(n, ast.Compare) and isinstance(n.left, ast.Attribute) and n.left.attr == "_status"
               and isinstance(n.comparators[0], ast.Attribute)}
    s_susp, m_susp = status_of("suspend")
    s_swt, m_swt = status_of("suspend_with_timeout")
    s_rst, m_rst = status_of("reset_to_pending")
    s_run, m_run = status_of("run")
    until_susp = [ast.unparse(v) for v in assigned("suspend", "_suspend_until")[0]]
    until_swt = assigned("suspend_with_timeout", "_suspend_until")[0]
    swt_param = [a.arg for a in m_swt.node.args.args[1:]]
    until_rst = [ast.unparse(v) for v in assigned("reset_to_pending", "_suspend_until")[0]]
    ck.ob("R2.transition-lands-where-its-caller-assumes", fn_construct(m_susp), s_susp in parked and s_susp != timed and until_susp == ["None"],
          f"suspend() lands in {s_susp} with resume time {until_susp}: an untimed suspension must be a parked status without a time", cell="suspend")
    ck.ob("R2.transition-lands-where-its-caller-assumes", fn_construct(m_swt), s_swt == timed and len(until_swt) == 1 and isinstance(until_swt[0], ast.Name) and until_swt[0].id in swt_param,
          f"suspend_with_timeout() lands in {s_swt} with resume time {[ast.unparse(v) for v in until_swt]}: the verdict reads the resume time of {timed} branches only", cell="suspend_with_timeout")
    ck.ob("R2.transition-lands-where-its-caller-assumes", fn_construct(m_rst), run_req == {s_rst} and until_rst == ["None"],
          f"reset_to_pending() lands in {s_rst}, run() requires {sorted(run_req)}; resume time {until_rst}", cell="reset_to_pending")
    ck.ob("R2.transition-lands-where-its-caller-assumes", fn_construct(m_run), s_run in runnable and s_run not in parked and s_run != s_rst,
          f"run() lands in {s_run}", cell="run")
    cr_ = ews.methods.get("can_resume")
    if cr_ is None:
        raise AnalysisError("ExecutableWithState.can_resume not found")
    cr_statuses = {n.attr for n in ast.walk(cr_.node) if isinstance(n, ast.Attribute) and isinstance(n.value, ast.Name) and n.value.id == "BranchStatus"}
    ck.ob("R2.transition-lands-where-its-caller-assumes", fn_construct(cr_), bool(cr_statuses) and cr_statuses <= parked,
          f"can_resume looks at {sorted(cr_statuses)}; only parked statuses ({sorted(parked)}) may be resumed by the timer", cell="can_resume")

    # R3 a branch the timer wakes looks at FRESH state: the resubmission first asks the backend (an empty checkpoint, whose response is merged) and only then
    # runs the branch. Run on the state it parked on, the branch finds its operation unchanged, parks "until now" and is woken again at once - a spin that never
    # looks parked to its siblings (mutscan: the refresh deleted; the only reaction was a population floor of C06)
    ex_ = cex.methods["execute"]
    resub_ = prog.functions.get(f"{ex_.module.name}:ConcurrentExecutor.execute.<locals>.resubmitter")
    if resub_ is None:
        raise AnalysisError("timer resubmission closure not found in ConcurrentExecutor.execute")
    from sa.cfg import CFG as _CFG
    g_r = _CFG(resub_)
    refresh = g_r.find_calls(attr="create_checkpoint")
    submits = g_r.find_calls(name="submit_task")
    ck.ob("R3.resubmission-refreshes-the-state-first", fn_construct(resub_), bool(refresh) and bool(submits) and all(any(g_r.dominates(r_.idx, s_.idx) for r_ in refresh) for s_ in submits),
          "the timer resubmits a branch without asking the backend for the current state first (no create_checkpoint() before submit_task): the branch re-reads the state it "
          "parked on, parks 'until now' again and is resubmitted at once")

    # R4 the resume timer keeps a heap of tuples; the writer (schedule_resume) and the reader (_timer_loop) have to agree on the layout: the time is the
    # FIRST element (the heap orders by it), the reader peeks at the top entry [0] and takes the time from the position the writer put it in, and unpacks
    # the branch from the position the writer put it in. (The model records schedule_resume as an event; mutscan: `[0][0]` -> `[1][0]` / `[0][1]` survived.)
    ts_cls_ = prog.cls("concurrency.executor", "TimerScheduler")
    sr_, tl_ = ts_cls_.methods.get("schedule_resume"), ts_cls_.methods.get("_timer_loop")
    if sr_ is None or tl_ is None:
        raise AnalysisError("TimerScheduler.schedule_resume / _timer_loop not found")
    pushes = [c for c in ast.walk(sr_.node) if isinstance(c, ast.Call) and ast.unparse(c.func).endswith("heappush") and len(c.args) == 2 and isinstance(c.args[1], ast.Tuple)]
    if len(pushes) != 1:
        raise AnalysisError("schedule_resume: expected one heappush of a tuple")
    heap_txt = ast.unparse(pushes[0].args[0])
    layout = [ast.unparse(e) for e in pushes[0].args[1].elts]
    sr_params = [a.arg for a in sr_.node.args.args[1:]]
    time_param = next((p_ for p_ in sr_params if "time" in p_), None)
    branch_param = next((p_ for p_ in sr_params if p_ != time_param), None)
    if time_param is None or branch_param is None or time_param not in layout or branch_param not in layout:
        raise AnalysisError(f"schedule_resume: parameters {sr_params} not found in the pushed tuple {layout}")
    t_pos, b_pos = layout.index(time_param), layout.index(branch_param)
    peeks = [n for n in ast.walk(tl_.node) if isinstance(n, ast.Subscript) and isinstance(n.value, ast.Subscript) and ast.unparse(n.value.value) == heap_txt]
    bad_heap = []
    if t_pos != 0:
        bad_heap.append(f"the resume time is element {t_pos} of the pushed tuple {layout}: the heap orders by element 0")
    for pk in peeks:
        top, fld = ast.unparse(pk.value.slice), ast.unparse(pk.slice)
        if top != "0" or fld != str(t_pos):
            bad_heap.append(f"line {pk.lineno}: `{ast.unparse(pk)}` is read as the next resume time (top entry is [0], the time is at [{t_pos}])")
    pops = [st for st in ast.walk(tl_.node) if isinstance(st, ast.Assign) and isinstance(st.value, ast.Call) and ast.unparse(st.value.func).endswith("heappop")]
    for st in pops:
        tg = st.targets[0]
        if not (isinstance(tg, ast.Tuple) and len(tg.elts) == len(layout)):
            bad_heap.append(f"line {st.lineno}: the popped entry is not unpacked into {len(layout)} names")
            continue
        used = [i for i, e in enumerate(tg.elts) if isinstance(e, ast.Name) and e.id != "_"]
        if used != [b_pos] and not (set(used) >= {b_pos}):
            bad_heap.append(f"line {st.lineno}: the branch is taken from position {used} of the popped entry, the writer put it at {b_pos}")
    ck.floor("timer_heap_reads", len(peeks) + len(pops), 3)
    ck.ob("R4.timer-heap-layout-agrees", fn_construct(tl_), not bad_heap, "; ".join(bad_heap[:2]) + ": the timer sleeps until the wrong moment, dies on an IndexError, or resubmits "
          "something that is not the branch - the parked branch is not resumed in this invocation" if bad_heap else f"layout {layout}")

    def mk(it, label, sname):
        e = Obj(exe_cls, label=f"{label}.exe")
        e.fields.update(index=Sym(f"{label}.index"), func=Sym(f"{label}.func"))
        w = Obj(ews, label=label)
        w.fields.update(executable=e, _status=EnumVal(bstat.fq, sname, bstat.enum_members[sname]),
                        _suspend_until=Sym(f"{label}.until", TypeRef(prim="float")))
        return w

    for sname in bstat.enum_members:
        for other_first in (False, True):
            def self_factory(it, state, sname=sname, other_first=other_first):
                o = Obj(cex, label="cexec")
                a, b = mk(it, "x", sname), mk(it, "parked", "SUSPENDED")
                o.fields["executables_with_state"] = SeqVal("list", [b, a] if other_first else [a, b])
                return o

            trs = pm.run_function(ses, self_factory, None, cell=("should_execution_suspend", sname))
            res = set()
            for t in trs:
                v = t.value.fields.get("should_suspend") if t.outcome == "return" and isinstance(t.value, Obj) else None
                res.add(v.value if isinstance(v, Const) else None)
            if sname in runnable:
                ok = res == {False}
                msg = f"a branch in status {sname} can still run, yet the executor may decide to suspend ({res})"
            elif sname in parked:
                ok = res == {True}
                msg = f"all branches parked ({sname} + SUSPENDED) but the executor does not suspend ({res})"
            else:
                ok = res == {True}
                msg = f"one finished branch ({sname}) and one parked branch must suspend ({res})"
            ck.ob("R2.suspend-decision", fn_construct(ses), ok, msg, cell=f"{sname}{'/2nd' if other_first else ''}")
        # timed suspension carries the timestamp of the parked branch
    def self_factory2(it, state):
        o = Obj(cex, label="cexec")
        o.fields["executables_with_state"] = SeqVal("list", [mk(it, "t1", "SUSPENDED_WITH_TIMEOUT")])
        return o
    trs = pm.run_function(ses, self_factory2, None, cell=("should_execution_suspend", "timed"))
    okt = all(t.outcome == "return" and isinstance(t.value, Obj) and isinstance(t.value.fields.get("exception"), Obj)
              and t.value.fields["exception"].cls_name == "TimedSuspendExecution"
              and "t1.until" in t.value.fields["exception"].fields.get("scheduled_timestamp", NONE).key()
              for t in trs if dict(t.pc).get("truthy(t1.until)") is True and dict(t.pc).get("t1.until < inf") is True)
    ck.ob("R2.timed-suspend-uses-branch-timestamp", fn_construct(ses), okt and trs, "a timed branch suspension does not resume at the branch's own timestamp")

    # R3 who may catch SuspendExecution -------------------------------------------------------------
    allowed = {
        "operation/child.py:ChildOperationExecutor.execute": "re-raises",
        "concurrency/executor.py:ConcurrentExecutor._on_task_complete": "parks the branch",
        "execution.py:durable_execution.<locals>.wrapper": "maps to PENDING",
        "concurrency/executor.py:ConcurrentExecutor.execute.<locals>.resubmitter": "BaseException handler around an empty checkpoint (cannot suspend)",
    }
    n_h = 0
    for fi in prog.functions.values():
        if isinstance(fi.node, ast.Lambda):
            continue
        for h in [n for n in walk_shallow(fi.node) if isinstance(n, ast.ExceptHandler)]:
            elts = [] if h.type is None else (h.type.elts if isinstance(h.type, ast.Tuple) else [h.type])
            fqs = [prog.resolve_name_expr(fi.module, e) for e in elts] if elts else ["builtins.BaseException"]
            if any(fq and prog.is_subclass(SUSPEND_FQ, fq) for fq in fqs):
                n_h += 1
                c = fn_construct(fi)
                ok = c in allowed
                if c.endswith("ChildOperationExecutor.execute"):
                    ok = ok and len(h.body) >= 1 and isinstance(h.body[-1], ast.Raise) and h.body[-1].exc is None
                ck.ob("R3.who-may-catch-suspension", c, ok, f"`except {ast.unparse(h.type) if h.type else ''}` can catch SuspendExecution here", where=f"line {h.lineno}")
    ck.floor("suspension_handlers", n_h, 2)
    wt = wrapper_traces(pm, faults=False, outcomes=["return", SUSPEND_FQ, "aws_durable_execution_sdk_python.exceptions.TimedSuspendExecution"])
    wrapper = prog.func("execution", "durable_execution.<locals>.wrapper")
    bad = []
    n = 0
    for t in wt:
        res = [e for e in t.events if e.kind == "RESULT"]
        if res and res[0].data["outcome"].endswith("SuspendExecution"):
            n += 1
            if not (t.outcome == "return" and hasattr(t.value, "items") and set(t.value.items) == {"Status"}
                    and isinstance(t.value.items["Status"], Const) and t.value.items["Status"].value == "PENDING"):
                bad.append((f"a suspension is answered with {t.value.key() if t.outcome == 'return' else t.exc_class()}", t))
            if t.kinds("CKPT"):
                bad.append(("a checkpoint is attempted while suspending", t))
        if t.outcome == "return" and hasattr(t.value, "items") and isinstance(t.value.items.get("Status"), Const) \
                and t.value.items["Status"].value == "PENDING" and not (res and res[0].data["outcome"].endswith("SuspendExecution")):
            bad.append(("PENDING is returned without a suspension having been raised", t))
    ck.floor("wrapper_suspension_paths", n, 2)
    ck.ob("R3.wrapper-maps-suspension-to-pending", fn_construct(wrapper), not bad, bad[0][0] if bad else "")

    # a branch that parks on a timer must be handed to the timer scheduler with that timestamp (else it is never resumed while siblings run)
    from sa.protocol import done_callback_traces
    fn_dc, dtr = done_callback_traces(pm)
    badt = []
    n_timed = 0
    for t in dtr:
        res = [e for e in t.events if e.kind == "RESULT"]
        if not res or res[0].data["outcome"] != "TimedSuspendExecution" or t.outcome == "raise":
            continue
        n_timed += 1
        sch = [e for e in t.events if e.kind == "SCHEDULE"]
        park = [e for e in t.events if e.kind == "BRANCH" and e.data["method"] == "suspend_with_timeout"]
        if not sch or sch[0].data["args"][:1] != ["exe_state"] or "scheduled_timestamp" not in " ".join(sch[0].data["args"]):
            badt.append(("a branch parked on a timer is not scheduled for resumption at its timestamp", t))
        if not park or "scheduled_timestamp" not in " ".join(park[0].data["args"]):
            badt.append(("a branch parked on a timer does not record its resume time", t))
    ck.floor("timed_suspension_paths", n_timed, 1)
    ck.ob("R5.timed-branch-is-scheduled", fn_construct(fn_dc), not badt, badt[0][0] if badt else "")
    # The thread in execute() blocks on the completion event without a timeout and only the done-callbacks release it: every way a
    # branch can end changes "all finished or parked", so every such path must re-evaluate it (and release the waiter when it holds).
    badr = []
    n_end = 0
    for t in dtr:
        res = [e for e in t.events if e.kind == "RESULT"]
        oc = res[0].data["outcome"] if res else "cancelled"
        if oc in ("BackgroundThreadError", "OrphanedChildException", "cancelled") or t.outcome == "raise":
            continue  # fatal error (routed separately, C06), orphan / cancelled future (the operation was decided before)
        n_end += 1
        d = dict(t.pc)
        if t.kinds("COMPLETION_SET"):
            continue  # the waiter is released on this path
        if d.get("counters.should_complete()") is None or (d.get("counters.should_complete()") is False and d.get("should_execution_suspend()") is None):
            badr.append((f"a branch ends ({oc}) and the callback returns without re-evaluating whether all branches are finished or parked "
                         "(execute() stays blocked on the completion event if this was the last running branch)", t))
        elif d.get("should_execution_suspend()") is True:
            badr.append((f"a branch ends ({oc}), all branches are finished or parked, and the waiter is not released", t))
    ck.floor("branch_end_paths", n_end, 6)
    ck.ob("R2.suspension-reevaluated-on-branch-end", fn_construct(fn_dc), not badr,
          (badr[0][0] + " | " + "; ".join(f"{k}->{v}" for k, v in badr[0][1].pc)) if badr else f"{n_end} branch-end paths")

    # R4 blocking inventory ------------------------------------------------------------------------------
    found = {}
    for fi in prog.functions.values():
        if isinstance(fi.node, ast.Lambda):
            continue
        for c in walk_shallow(fi.node):
            if not (isinstance(c, ast.Call) and isinstance(c.func, ast.Attribute)):
                continue
            m = c.func.attr
            has_timeout = bool(c.args) or any(k.arg in ("timeout", "timeout_seconds", "block") for k in c.keywords)
            recv = ast.unparse(c.func.value)
            unbounded = False
            if m == "wait" and not has_timeout:
                # `if ev.is_set(): ev.wait()` returns (or raises the stored error) immediately: not a blocking point
                guarded = any(isinstance(g_, ast.If) and ast.unparse(g_.test).replace(" ", "") == f"{recv}.is_set()".replace(" ", "")
                              and any(c is x for b_ in g_.body for x in ast.walk(b_)) for g_ in ast.walk(fi.node))
                unbounded = not guarded
            elif m == "result" and not has_timeout and any(w in recv.lower() for w in ("future", "fut")):
                unbounded = True
            elif m == "get" and not c.args and not c.keywords:
                unbounded = True  # a zero-argument get() is a blocking queue read whatever the receiver is called (dict.get needs a key)
            elif m == "join" and not c.args and not c.keywords:
                unbounded = True  # thread / queue / process join without a timeout (str.join and os.path.join take arguments)
            elif m == "acquire" and not has_timeout and fi.cls is not None and fi.cls.name != "OrderedLock" and "lock" in recv.lower():
                unbounded = False  # OrderedLock.acquire is judged at its own wait
            if unbounded:
                found[(fn_construct(fi), f"{recv}.{m}")] = c.lineno
    ck.floor("unbounded_blocking_calls", len(found), 3)
    for (c, call), line in sorted(found.items()):
        ck.ob("R4.blocking-call-registered", c, (c, call) in BLOCKING_REGISTRY,
              f"unbounded blocking call {call}() is not registered with a wake-up argument", where=f"line {line}", cell=call)
    # the failure-flag wait is dominated by is_set()
    for fw in [pm.ckpt_fn, *[m for n_, m in pm.state_cls.methods.items() if m is not pm.ckpt_fn and "_checkpointing_failed.wait" in ast.unparse(m.node)]]:
        g = CFG(fw)
        for w in g.find_calls("wait", "self._checkpointing_failed"):
            guards = [n for n in g.nodes if n.kind == "header" and isinstance(n.stmt, ast.If) and "self._checkpointing_failed.is_set()" in ast.unparse(n.stmt.test)
                      and any(w.stmt is x for b in n.stmt.body for x in ast.walk(b))]
            ck.ob("R4.flag-wait-guarded-by-is-set", fn_construct(fw), bool(guards), "_checkpointing_failed.wait() outside `if ...is_set()`", where=g.loc(w))
    # the wrapper's wait for the background loop is dominated by the stop signal
    for fi in prog.functions.values():
        if isinstance(fi.node, ast.Lambda) or fi.module.short() != "execution":
            continue
        for c in walk_shallow(fi.node):
            if isinstance(c, ast.Call) and isinstance(c.func, ast.Attribute) and c.func.attr == "result" and "checkpoint" in ast.unparse(c.func.value):
                g2 = CFG(fi)
                waits2 = g2.find_calls("result", ast.unparse(c.func.value))
                stops2 = g2.find_calls("stop_checkpointing")
                ck.ob("R4.join-after-stop", fn_construct(fi), bool(waits2) and all(any(g2.dominates(s_.idx, w_.idx) for s_ in stops2) for w_ in waits2),
                      f"`{ast.unparse(c)}` waits for the background loop without having told it to stop first", where=f"line {c.lineno}")

    # R4 lock discipline: while a non-reentrant lock is held, (a) no externally supplied callback is invoked - it can do anything, including coming back
    # for the same lock (a done-callback registered by the callee runs inline when the future is already finished) or blocking on the network -
    # and (b) no method of the same object that takes the same lock is called. Either wedges the thread for good.
    n_lock_blocks = 0
    for ci_ in prog.classes.values():
        init_ = ci_.methods.get("__init__")
        if init_ is None:
            continue
        locks_, callbacks_ = set(), set()
        params_ = {p_.arg for p_ in init_.node.args.args[1:]}
        for st_ in ast.walk(init_.node):
            if isinstance(st_, (ast.Assign, ast.AnnAssign)) and st_.value is not None:
                for tg_ in ([st_.target] if isinstance(st_, ast.AnnAssign) else st_.targets):
                    if isinstance(tg_, ast.Attribute) and isinstance(tg_.value, ast.Name) and tg_.value.id == "self":
                        v_ = ast.unparse(st_.value)
                        if v_ in ("threading.Lock()", "Lock()"):
                            locks_.add(tg_.attr)
                        if isinstance(st_.value, ast.Name) and st_.value.id in params_:
                            ann_ = next((p_.annotation for p_ in init_.node.args.args if p_.arg == st_.value.id), None)
                            if ann_ is not None and "Callable" in ast.unparse(ann_):
                                callbacks_.add(tg_.attr)
        if not locks_:
            continue

        def takes(mname, lock, seen=None):
            seen = seen or set()
            if mname in seen or mname not in ci_.methods:
                return False
            seen.add(mname)
            for w_ in ast.walk(ci_.methods[mname].node):
                if isinstance(w_, ast.With) and any(ast.unparse(i_.context_expr) == f"self.{lock}" for i_ in w_.items):
                    return True
                if isinstance(w_, ast.Call) and isinstance(w_.func, ast.Attribute) and isinstance(w_.func.value, ast.Name) and w_.func.value.id == "self" \
                        and takes(w_.func.attr, lock, seen):
                    return True
            return False

        for mname_, m_ in ci_.methods.items():
            for w_ in ast.walk(m_.node):
                if not isinstance(w_, ast.With):
                    continue
                held = [l_ for l_ in locks_ if any(ast.unparse(i_.context_expr) == f"self.{l_}" for i_ in w_.items)]
                if not held:
                    continue
                n_lock_blocks += 1
                for c_ in [x for b_ in w_.body for x in ast.walk(b_) if isinstance(x, ast.Call)]:
                    if isinstance(c_.func, ast.Attribute) and isinstance(c_.func.value, ast.Name) and c_.func.value.id == "self":
                        if c_.func.attr in callbacks_:
                            ck.ob("R4.no-callback-under-lock", fn_construct(m_), False,
                                  f"the supplied callback `self.{c_.func.attr}` is invoked while `self.{held[0]}` (non-reentrant) is held: whatever it reaches that needs "
                                  "the same lock - e.g. a done-callback that runs inline - deadlocks this thread, and everybody else waits for the lock meanwhile",
                                  where=f"line {c_.lineno}", cell=c_.func.attr)
                        elif any(takes(c_.func.attr, l_) for l_ in held):
                            ck.ob("R4.no-callback-under-lock", fn_construct(m_), False,
                                  f"`self.{c_.func.attr}()` takes `self.{held[0]}` again while it is already held (threading.Lock is not reentrant)", where=f"line {c_.lineno}", cell=c_.func.attr)
    ck.floor("lock_regions", n_lock_blocks, 8)
    ck.ob("R4.no-callback-under-lock", "package", True, f"{n_lock_blocks} regions holding a threading.Lock scanned")

    # R2 the verdict "every branch is finished or parked" is taken in a done-callback while the resume timer keeps running: a branch whose resume time
    # falls between the verdict and the raise is resubmitted and runs user code while the invocation answers PENDING. Necessary: the suspension is
    # raised only once the timer can no longer resubmit (scheduler stopped) and the verdict has been re-evaluated, or both happen under the timer's lock.
    ex_fn7 = cex.methods.get("execute")
    if ex_fn7 is None:
        raise AnalysisError("ConcurrentExecutor.execute not found")
    withs7 = [w for w in ast.walk(ex_fn7.node) if isinstance(w, ast.With) and any("TimerScheduler" in ast.unparse(i_.context_expr) for i_ in w.items)]
    raises7 = [r for r in ast.walk(ex_fn7.node) if isinstance(r, ast.Raise) and r.exc is not None and "_suspend_exception" in ast.unparse(r.exc)]
    ck.floor("suspension_raise_sites", len(raises7), 1)
    for r in raises7:
        inside = any(any(r is x for x in ast.walk(w)) for w in withs7)
        revalidated = False
        if not inside:
            # after the scheduler's context: the verdict must be evaluated again before the raise
            body7 = list(ast.walk(ex_fn7.node))
            revalidated = any(isinstance(c, ast.Call) and isinstance(c.func, ast.Attribute) and c.func.attr == "should_execution_suspend" and c.lineno < r.lineno
                              and all(c.lineno > (w.end_lineno or 0) for w in withs7) for c in body7)
        ck.ob("R2.suspend-verdict-holds-when-raised", fn_construct(ex_fn7), (not inside) and revalidated,
              "the suspension decided by a done-callback is raised while the resume timer is still running (inside `with TimerScheduler`) and without evaluating the "
              "verdict again: a branch resubmitted in between runs user code while the invocation answers PENDING", where=f"line {r.lineno}")

    # R2 (h2_C07 #1) "parked on a timer or external event ... so the execution is always woken again": a branch parked WITHOUT a time (callback / invoke result
    # awaited) is never looked at again in the invocation, a branch parked with a time only at that time - while the background thread merges every
    # checkpoint response into the operation map. When the awaited result arrives in such a response (a sibling keeps the invocation alive), the verdict
    # "all parked" is still taken from the branch statuses alone and the invocation answers PENDING for an event that has already been delivered to it.
    # Necessary condition for noticing: the verdict (or something it calls) reads the operation map / asks the state about the parked branches.
    sv7 = cex.methods.get("should_execution_suspend")
    if sv7 is None:
        raise AnalysisError("ConcurrentExecutor.should_execution_suspend not found")
    seen7, todo7, reads_ops = set(), [sv7], False
    while todo7:
        f7 = todo7.pop()
        if f7.fq in seen7:
            continue
        seen7.add(f7.fq)
        for n7 in ast.walk(f7.node):
            if isinstance(n7, ast.Attribute) and n7.attr in ("operations", "get_checkpoint_result", "_operations_lock"):
                reads_ops = True
            if isinstance(n7, ast.Call) and isinstance(n7.func, ast.Attribute) and isinstance(n7.func.value, ast.Name) and n7.func.value.id == "self" \
                    and n7.func.attr in cex.methods:
                todo7.append(cex.methods[n7.func.attr])
    ck.analysed["suspend_verdict_functions"] = sorted(x.rsplit(".", 1)[-1] for x in seen7)
    ck.ob("R2.suspend-verdict-sees-delivered-results", fn_construct(sv7), reads_ops,
          "the verdict 'every branch is finished or parked' is computed from the BranchStatus values alone: a branch parked on a callback / invoke result whose "
          "completion has meanwhile been merged into ExecutionState.operations (it arrived in a checkpoint response while a sibling was still running) stays parked, "
          "the invocation answers PENDING although it holds the awaited result and nothing is registered with the backend any more")

    # R3 who may take a suspension: a SuspendExecution / TimedSuspendExecution raised by an operation has to travel to one of two places - the handler
    # wrapper (answers PENDING) or the done-callback of a map/parallel branch (parks the branch, hands it to the resume timer, feeds the suspend verdict).
    # Any other handler that takes it and does not pass it on keeps the branch RUNNING: the verdict can never be "all parked", and a handler that runs the
    # branch again in place spins on stale state without ever blocking (r6_C07: "resume at once" implemented as a loop around child_handler).
    ALLOWED_SUSP = {"durable_execution.<locals>.wrapper": "maps the suspension to PENDING", "ConcurrentExecutor._on_task_complete": "parks the branch"}
    n_sh = 0
    for fi in prog.functions.values():
        if isinstance(fi.node, ast.Lambda):
            continue
        for h in [x for x in walk_shallow(fi.node) if isinstance(x, ast.ExceptHandler)]:
            if h.type is None:
                continue
            tnames = [ast.unparse(x) for x in (h.type.elts if isinstance(h.type, ast.Tuple) else [h.type])]
            if not any(tn.split(".")[-1] in ("SuspendExecution", "TimedSuspendExecution") for tn in tnames):
                continue
            n_sh += 1
            passes_on = bool(h.body) and isinstance(h.body[-1], ast.Raise) and h.body[-1].exc is None and not any(
                isinstance(x, (ast.Return, ast.Continue, ast.Break)) for b in h.body for x in ast.walk(b))
            always_raises = bool(h.body) and isinstance(h.body[-1], ast.Raise)
            qual = fi.fq.split(".", 1)[-1] if "." in fi.fq else fi.fq
            allowed = any(qual.endswith(a) for a in ALLOWED_SUSP)
            conditional = any(isinstance(x, ast.Raise) for b in h.body for x in ast.walk(b)) and not always_raises
            ck.ob("R3.suspension-reaches-its-handler", fn_construct(fi), allowed or passes_on,
                  f"`except {' | '.join(tnames)}` (line {h.lineno}) takes a suspension and " + ("passes it on only conditionally" if conditional else "does not pass it on")
                  + ": the branch is neither parked nor handed to the resume timer - it stays RUNNING (the suspend verdict can never be reached) and, if the handler "
                  "runs the operation again, it spins on the same recorded state without a backend call or a blocking wait", where=f"line {h.lineno}",
                  cell=f"{' | '.join(tnames)}")
    ck.floor("suspension_handlers", n_sh, 4)

    # R5 timer -----------------------------------------------------------------------------------------
    ts = prog.cls("concurrency.executor", "TimerScheduler")
    tl = ts.methods.get("_timer_loop")
    if tl is None:
        raise AnalysisError("TimerScheduler._timer_loop not found")
    g = CFG(tl)
    resets = g.find_calls("reset_to_pending")
    resub = g.find_calls("resubmit_callback")
    pops = [n for n in g.nodes if any(isinstance(c.func, ast.Attribute) and c.func.attr == "heappop" for c in g.calls_at(n))]
    ck.floor("timer_resubmits", len(resub), 1)
    def established_before(r, sites):
        """the resubmission is dominated by one of `sites`, or it resubmits a variable whose only non-None binding is (deferred hand-over:
        `x = None ... x = popped ... if x is not None: resubmit(x)`)"""
        if any(g.dominates(x.idx, r.idx) for x in sites):
            return True
        call = next((c for c in g.calls_at(r) if isinstance(c.func, ast.Attribute) and c.func.attr == "resubmit_callback"), None)
        arg = call.args[0] if call is not None and call.args else None
        if not isinstance(arg, ast.Name):
            return False
        binds = [n for n in g.nodes if isinstance(n.stmt, (ast.Assign, ast.AnnAssign)) and n.kind != "header" and n.stmt.value is not None
                 and any(isinstance(t_, ast.Name) and t_.id == arg.id for t_ in ([n.stmt.target] if isinstance(n.stmt, ast.AnnAssign) else n.stmt.targets))]
        real = [n for n in binds if not (isinstance(n.stmt.value, ast.Constant) and n.stmt.value.value is None)]
        def establishes(test):
            """the test being true implies `arg is not None`: the test itself, or a conjunction that contains it"""
            if ast.unparse(test).replace(" ", "") in (f"{arg.id}isnotNone", arg.id):
                return True
            return isinstance(test, ast.BoolOp) and isinstance(test.op, ast.And) and any(establishes(v) for v in test.values)

        tested = any(n.kind == "header" and isinstance(n.stmt, ast.If) and establishes(n.stmt.test) and g.dominates(n.idx, r.idx) for n in g.nodes)
        return bool(real) and tested and all(any(g.dominates(x.idx, b.idx) for x in sites) for b in real)

    for r in resub:
        ck.ob("R5.reset-before-resubmit", fn_construct(tl), established_before(r, resets),
              "a resumed branch is resubmitted without first being reset to PENDING (the suspend decision could fire in between)", where=g.loc(r))
        ck.ob("R5.resubmit-only-popped-branch", fn_construct(tl), established_before(r, pops), "resubmission not dominated by the heap pop", where=g.loc(r))
    return ck


if __name__ == "__main__":
    main(PID, build)
