"""C13 - wait_for_condition threads its state through polls and stops when told to (DESIGN.md section 14)."""

from __future__ import annotations

from sa.common import at_least_one, attempt_expr_ok, trace_sig
from sa.model import AnalysisError, load_program
from sa.protocol import ABSENT, ProtocolModel, is_suspend, is_timed_suspend, user_events
from sa.report import Check, main
from sa.values import Const, Obj, Sym

PID = "C13"


def build() -> Check:
    prog = load_program()
    pm = ProtocolModel(prog)
    ci = pm.executors.get("WaitForConditionOperationExecutor")
    if ci is None:
        raise AnalysisError("WaitForConditionOperationExecutor not found")
    construct = "operation/wait_for_condition.py:WaitForConditionOperationExecutor"
    ck = Check(
        PID, "wait_for_condition state threading",
        "From the executor's trace table (cells ABSENT/STARTED/READY/PENDING, faults injected): the first argument of the check function is "
        "the deserialisation (configured serdes) of the recorded payload when one exists and the configured initial state otherwise; the value the "
        "check returned is what is serialised into RETRY/SUCCEED records and what the call returns; the attempt handed to the wait strategy and "
        "logger is recorded attempt + 1; stop => synchronous SUCCEED then return; continue => synchronous RETRY with payload and delay >= 1 then "
        "timed suspension; PENDING suspends without polling.",
        ["equality of the restored state after a serializer round trip is a runtime quantity (C15 judges the codec tables)",
         "a deserialisation failure of the recorded state falls back to the initial state (documented behaviour of the source)"],
        "one obligation per (rule, cell)",
    )
    n_checks = 0
    restore_failures = []
    for st in [ABSENT, "STARTED", "READY", "PENDING"]:
        traces = pm.run_cell(ci, st, faults=True)
        b1, b2, b3, b4 = [], [], [], []
        b_restore = []
        for t in traces:
            evs = t.events
            checks = [e for e in user_events(t, "user")]
            if st == "PENDING":
                if checks or user_events(t, "strategy") or t.kinds("CKPT") or not is_suspend(prog, t):
                    b4.append(("a condition waiting for its timer must only suspend", t))
                continue
            if len(checks) > 1:
                b1.append(("check function called more than once in one poll", t))
            for e in checks:
                n_checks += 1
                a0 = (e.data.get("arg_values") or [None])[0]
                des = [x for x in evs[: evs.index(e)] if x.kind == "DES"]
                d = dict(t.pc)
                has_payload = any((k.startswith("truthy(op@") and k.endswith("step_details.result)") and v is True)
                                  or (k.startswith("op@") and k.endswith("step_details.result is None") and v is False) for k, v in t.pc)
                if st in ("STARTED", "READY") and has_payload:
                    des_ok = des and des[-1].data.get("outcome") == "ok"
                    if des_ok:
                        good = isinstance(a0, Sym) and a0.parts and a0.parts[0] == "DES" and a0.parts[1].key() == "config.serdes" \
                            and a0.parts[2].key().endswith("step_details.result") and a0.parts[2].key().startswith("op@")
                        if not good:
                            b1.append((f"poll state is {a0.key() if a0 else None}, not the deserialised recorded payload", t))
                    else:
                        # the recorded state could not be restored and the check is polled anyway (with whatever state): the poll's RETRY record
                        # then replaces the real state - polling silently restarts
                        b_restore.append((f"the recorded state cannot be restored and the poll runs with {a0.key() if a0 else None} under the current poll number", t))
                else:
                    if not (isinstance(a0, Sym) and a0.k == "config.initial_state"):
                        b1.append((f"first poll state is {a0.key() if a0 else None}, not the configured initial state", t))
                    elif st in ("STARTED", "READY"):
                        # falling back to the initial state is only right when the path established that nothing was recorded
                        # (a truthiness test does not establish absence: '' is a recorded state of a pass-through / custom serializer)
                        no_payload = any((k.startswith("op@") and k.endswith("step_details is None") and v is True)
                                         or (k.startswith("op@") and k.endswith("step_details.result is None") and v is True)
                                         for k, v in t.pc)
                        if not no_payload:
                            b1.append(("a resumed poll uses the initial state without having looked at the recorded payload", t))
                if e.data.get("outcome") != "return":
                    continue
                ret = f"ret:{e.data['label']}#{e.data['n']}"
                strat = [x for x in evs[evs.index(e):] if x in user_events(t, "strategy")]
                if not strat:
                    if not [x for x in t.kinds("SER", "CKPT") if x.data.get("outcome") not in ("ok", None)]:
                        b2.append(("wait strategy not consulted after a successful check", t))
                    continue
                s = strat[0]
                av = s.data.get("arg_values") or []
                if len(av) < 2 or av[0].key() != ret:
                    b2.append((f"wait strategy sees {av[0].key() if av else None}, not the state the check returned", t))
                elif not attempt_expr_ok(av[1], t.pc, st == ABSENT):
                    b2.append((f"wait strategy called with attempt={av[1].key()}", t))
                if s.data.get("outcome") != "return":
                    continue
                decision = None
                for k, v in t.pc:
                    if k.startswith("truthy(ret:") and k.endswith(".should_continue)"):
                        decision = v
                cks = [x for x in evs[evs.index(s):] if x.kind == "CKPT"]
                sers = [x for x in evs if x.kind == "SER"]
                if any(x.data.get("outcome") not in ("ok", None) for x in cks + sers):
                    continue
                if decision is None:
                    b3.append(("the strategy's decision is not consulted", t))
                    continue
                if decision is False:
                    ok = [x for x in cks if x.data.get("action") == "SUCCEED" and x.data.get("sync")]
                    if not ok:
                        b3.append(("stop decided but no synchronous SUCCEED record", t))
                    else:
                        pv = ok[-1].data.get("payload_v")
                        if not (isinstance(pv, Sym) and pv.parts and pv.parts[0] == "SER" and pv.parts[2].key() == ret and pv.parts[1].key() == "config.serdes"):
                            b3.append((f"SUCCEED payload {pv.key() if pv else None} is not the serialised final state", t))
                    if t.outcome != "return" or t.value.key() != ret:
                        b3.append((f"call result is {t.value.key() if t.value else None}, not the last state returned by the check", t))
                else:
                    r = [x for x in cks if x.data.get("action") == "RETRY" and x.data.get("sync")]
                    if not r:
                        b3.append(("continue decided but no synchronous RETRY record", t))
                    else:
                        pv = r[-1].data.get("payload_v")
                        if not (isinstance(pv, Sym) and pv.parts and pv.parts[0] == "SER" and pv.parts[2].key() == ret and pv.parts[1].key() == "config.serdes"):
                            b3.append((f"RETRY payload {pv.key() if pv else None} is not the serialised state", t))
                        so = r[-1].data.get("options", {}).get("step_options")
                        dl = so.fields.get("next_attempt_delay_seconds") if isinstance(so, Obj) else None
                        if dl is None or not at_least_one(dl, t.pc):
                            b3.append((f"RETRY delay {dl.key() if dl else None} is not bounded below by 1 second", t))
                        elif not ("delay" in dl.key() and "ret:" in dl.key()):
                            # "recorded with ITS delay": a constant is acceptable only as the clamp of a decided delay below one second (mutscan 4: the `< 1` operand
                            # of the clamp's test dropped - every poll is scheduled one second later, whatever the strategy said)
                            clamp = isinstance(dl, Const) and any(str(k).startswith("ret:") and "delay" in str(k) and str(k).endswith("< 1") and v is True for k, v in t.pc)
                            if not clamp:
                                b3.append((f"the RETRY record carries the delay {dl.key()}, not the one the wait strategy decided (a constant is only the clamp of a "
                                           "decided delay below one second)", t))
                    if not is_suspend(prog, t):
                        b3.append(("continue decided but the call does not suspend", t))
                    if [x for x in cks if x.data.get("action") == "SUCCEED"]:
                        b3.append(("continue decided but a SUCCEED record is sent", t))
            for e in t.kinds("OPAQUE"):
                if e.data["fn"].endswith("from_operation_identifier"):
                    a = e.data["kwargs"].get("attempt", "")
                    if not (a == "1" or (a.startswith("(op@") and a.endswith("step_details.attempt + 1)"))):
                        b2.append((f"check logger attempt = {a}", t))
        # a poll that makes the call fail (check / strategy / serialisation raised) must leave a FAIL record: without it the
        # condition stays STARTED/READY and is polled again by the next invocation
        b5 = []
        for t in traces:
            if st == "PENDING" or t.outcome != "raise" or is_suspend(prog, t) or not user_events(t, "user"):
                continue
            cks = t.kinds("CKPT")
            if any(x.data.get("outcome") not in ("ok", None) for x in cks):
                continue  # the checkpoint pipeline itself failed (C06)
            if not [x for x in cks if x.data.get("action") == "FAIL" and x.data.get("sync")]:
                b5.append((f"the call raises {t.exc_class()} after a poll without a synchronous FAIL record", t))
        if st != "PENDING":
            ck.ob("R5.failed-poll-is-recorded", construct, not b5, (b5[0][0] + ": " + trace_sig(b5[0][1])) if b5 else "", cell=st)
        if st == "PENDING":
            ck.ob("R4.pending-suspends", construct, not b4, (b4[0][0] + ": " + trace_sig(b4[0][1])) if b4 else "", cell=st)
            continue
        ck.ob("R1.state-threading", construct, not b1, (b1[0][0] + ": " + trace_sig(b1[0][1])) if b1 else "", cell=st)
        restore_failures.extend(b_restore)
        ck.ob("R2.strategy-arguments", construct, not b2, (b2[0][0] + ": " + trace_sig(b2[0][1])) if b2 else "", cell=st)
        ck.ob("R3.decision-implies-effect", construct, not b3, (b3[0][0] + ": " + trace_sig(b3[0][1])) if b3 else "", cell=st)
    ck.floor("polls_judged", n_checks, 6)
    ck.ob("R1.state-threading", construct, not restore_failures, (restore_failures[0][0] + ": " + trace_sig(restore_failures[0][1])[:300]) if restore_failures else "",
          cell="restore-failure")
    # the state travels to the next poll through the update's payload: a serialised state of '' (pass-through / custom serializer) must be written to the wire,
    # i.e. the writer's guard for the payload is a presence test, not truthiness
    from sa.tables import self_root, writer_table
    upd_td = pm.update_cls.methods.get("to_dict")
    if upd_td is None:
        raise AnalysisError("OperationUpdate.to_dict not found")
    pay = [e for e in writer_table(upd_td) if self_root(e.value) == ("payload",)]
    kinds = {e.guard_kind("payload") for e in pay}
    ck.ob("R1.empty-state-survives-the-wire", "lambda_service.py:OperationUpdate.to_dict", bool(pay) and kinds <= {"always", "notnone"},
          f"the payload is written under guard {sorted(kinds)}: a polled state whose serialised form is '' is dropped from the RETRY / SUCCEED record, the next poll gets the "
          "initial state and a replayed result is None")
    return ck


if __name__ == "__main__":
    main(PID, build)
