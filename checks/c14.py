"""C14 - callbacks and invokes: stable identity, faithful outcome, deferred errors (DESIGN.md section 15)."""

from __future__ import annotations

from sa.common import none_without_established_absence, fn_construct, terminal_statuses, trace_sig
from sa.model import AnalysisError, load_program
from sa.protocol import ABSENT, ProtocolModel, is_suspend, is_timed_suspend, user_events
from sa.report import Check, main
from sa.values import Const, FuncVal, Obj, Sym, TypeRef, parse_annotation

PID = "C14"


def build() -> Check:
    prog = load_program()
    pm = ProtocolModel(prog)
    term = terminal_statuses(prog)
    ck = Check(
        PID, "callbacks and invokes",
        "Exhaustive status tables (ABSENT + the 8 backend statuses) obtained by abstract interpretation of CallbackOperationExecutor, "
        "Callback.result() and InvokeOperationExecutor; wait_for_callback_handler is interpreted against the DurableContext protocol to "
        "obtain the order create -> submitter step -> result and the id handed to the submitter.",
        ["that the backend issues the same callback id again, payload fidelity and the order of external completions are runtime facts"],
        "one obligation per (rule, status)",
    )
    # ---- R1 create_callback ---------------------------------------------------------------
    cb = pm.executors.get("CallbackOperationExecutor")
    inv = pm.executors.get("InvokeOperationExecutor")
    if cb is None or inv is None:
        raise AnalysisError("callback / invoke executor not found")
    c_cb = "operation/callback.py:CallbackOperationExecutor"
    ntr = 0
    for st in pm.statuses:
        traces = pm.run_cell(cb, st, faults=False)
        ntr += len(traces)
        bad = []
        for t in traces:
            cks = t.kinds("CKPT")
            if st == ABSENT:
                ok_start = len(cks) == 1 and cks[0].data["action"] == "START" and cks[0].data["sync"] and cks[0].data["type"] == "CALLBACK"
                if not ok_start:
                    bad.append(("first create_callback must send exactly one synchronous CALLBACK START", t))
                opts = cks[0].data.get("options", {}).get("callback_options") if cks else None
                if ok_start and not isinstance(opts, Obj):
                    bad.append(("CALLBACK START carries no callback options", t))
                if ok_start and isinstance(opts, Obj) and dict(t.pc).get("config is None") is False:
                    # the outcome "timeout" can only be delivered if the configured limits reach the backend unchanged
                    for fld, own, other in (("timeout_seconds", "config.timeout", "heartbeat"), ("heartbeat_timeout_seconds", "config.heartbeat_timeout", "config.timeout")):
                        k_ = opts.fields.get(fld).key() if fld in opts.fields else "absent"
                        if own not in k_ or other in k_.replace(own, "") or any(f_ in k_ for f_ in ("min(", "max(", " or ", " if ")):
                            bad.append((f"CALLBACK START carries {fld}={k_}, not the configured {own}", t))
                if t.outcome == "return" and not t.value.key().startswith("op@1.0.callback_details.callback_id"):
                    bad.append((f"returns {t.value.key()} instead of the id in the backend's response", t))
            else:
                if cks:
                    bad.append(("an existing callback must not be started again", t))
                if t.outcome == "return" and t.value.key() != "op@0.0.callback_details.callback_id":
                    bad.append((f"returns {t.value.key()} instead of the recorded callback id", t))
            if t.outcome == "raise":
                ok = (t.exc_class() or "").endswith("CallbackError") and any("callback_details" in k or "operation" in k for k, _ in t.pc)
                if not ok:
                    bad.append((f"raises {t.exc_class()} although the callback exists", t))
        ck.ob("R1.create-callback", c_cb, not bad and traces, (bad[0][0] + ": " + trace_sig(bad[0][1])) if bad else "", cell=st)

    # ---- R2 Callback.result -------------------------------------------------------------------
    cbc = prog.cls("context", "Callback")
    res_fn = cbc.methods.get("result")
    if res_fn is None:
        raise AnalysisError("Callback.result not found")
    c_res = fn_construct(res_fn)
    failure = sorted(term - {"SUCCEEDED"})
    ck.analysed["callback_failure_statuses"] = failure
    for st in pm.statuses:
        def self_factory(it, state):
            # built by its own __init__ (whatever it caches at construction time is then visible to the rule below)
            init = cbc.methods["__init__"]
            o = Obj(cbc, label="callback")
            kw = {}
            for p in init.node.args.args[1:]:
                if p.arg == "state":
                    kw[p.arg] = state
                elif p.arg == "serdes":
                    kw[p.arg] = Sym("callback.serdes", parse_annotation(prog, cbc.module, p.annotation))
                else:
                    kw[p.arg] = Sym(f"callback.{p.arg}", TypeRef(prim="str"))
            it.call_function(init, o, [], kw, None, None, None)
            return o

        traces = pm.run_function(res_fn, self_factory, None, cell=("Callback.result", st), status=st, optype="CALLBACK", faults=True)
        ntr += len(traces)
        bad = []
        for t in traces:
            if t.kinds("CKPT") or user_events(t, "user"):
                bad.append(("result() must not checkpoint or run user code", t))
            if not t.kinds("READ"):
                bad.append(("result() does not consult the execution state when it is called: an outcome delivered after the Callback object was "
                            "created (the state is refreshed by every checkpoint response) is not seen", t))
            des_failed = any(e.data.get("outcome") not in ("ok", None) for e in t.kinds("DES"))
            if st == "SUCCEEDED":
                if t.outcome == "return":
                    v = t.value
                    good = (isinstance(v, Const) and v.value is None) or (
                        isinstance(v, Sym) and v.parts and v.parts[0] == "DES" and v.parts[2].key() == "op@0.0.callback_details.result"
                        and v.parts[1].key() in ("callback.serdes", "global:context.PASS_THROUGH_SERDES"))
                    if not good:
                        bad.append((f"returns {v.key()} instead of the delivered payload", t))
                    if none_without_established_absence(t):
                        bad.append(("returns None for a succeeded callback without having established that no payload was delivered "
                                    f"({'; '.join('%s->%s' % kv for kv in t.pc if 'result' in kv[0])}): an empty-string payload is not 'no payload'", t))
                elif not des_failed:
                    bad.append((f"raises {t.exc_class()} for a succeeded callback", t))
            elif st in failure or st == ABSENT:
                if not (t.outcome == "raise" and (t.exc_class() or "").endswith("CallbackError")):
                    bad.append((f"status {st} must raise CallbackError, got {t.outcome} {t.exc_class() or t.value.key()}", t))
            else:
                if not (is_suspend(prog, t) and not is_timed_suspend(prog, t)):
                    bad.append((f"outstanding callback ({st}) must suspend indefinitely, got {t.outcome} {t.exc_class()}", t))
        ck.ob("R2.callback-result", c_res, not bad and traces, (bad[0][0] + ": " + trace_sig(bad[0][1])) if bad else "", cell=st)

    # ---- R3 invoke ------------------------------------------------------------------------------
    c_inv = "operation/invoke.py:InvokeOperationExecutor"
    for st in pm.statuses:
        traces = pm.run_cell(inv, st, faults=True)
        ntr += len(traces)
        bad = []
        for t in traces:
            cks = t.kinds("CKPT")
            faulty = any(e.data.get("outcome") not in ("ok", None) for e in t.kinds("CKPT", "SER", "DES"))
            if st == ABSENT:
                sers = t.kinds("SER")
                if not faulty or cks:
                    if len(cks) != 1 or cks[0].data["action"] != "START" or not cks[0].data["sync"] or cks[0].data["type"] != "CHAINED_INVOKE":
                        bad.append(("first invoke must send exactly one synchronous CHAINED_INVOKE START", t))
                    else:
                        pv = cks[0].data.get("payload_v")
                        if not (isinstance(pv, Sym) and pv.parts and pv.parts[0] == "SER" and pv.parts[2].key() == "payload"
                                and pv.parts[1].key() in ("config.serdes_payload", "global:serdes.DEFAULT_JSON_SERDES")):
                            bad.append((f"START payload is {pv.key() if pv else None}, not the serialised payload", t))
                        o = cks[0].data.get("options", {}).get("chained_invoke_options")
                        fnm = o.fields.get("function_name") if isinstance(o, Obj) else None
                        if fnm is None or fnm.key() != "function_name":
                            bad.append((f"START targets {fnm.key() if fnm else None}, not the requested function", t))
                        tid = o.fields.get("tenant_id") if isinstance(o, Obj) else None
                        if tid is None or tid.key() not in ("config.tenant_id", "None"):
                            bad.append((f"START carries tenant {tid.key() if tid else None}, not the configured one", t))
                if faulty:
                    continue
                refreshed = dict(t.pc).get("op@1.0.status=?OperationStatus")
                cell2 = refreshed
            else:
                if cks:
                    bad.append(("an existing invoke must not be started again", t))
                cell2 = st
            if faulty:
                continue
            if cell2 == "SUCCEEDED":
                v = t.value if t.outcome == "return" else None
                good = v is not None and ((isinstance(v, Const) and v.value is None) or (
                    isinstance(v, Sym) and v.parts and v.parts[0] == "DES" and v.parts[2].key().endswith("chained_invoke_details.result")
                    and v.parts[1].key() in ("config.serdes_result", "global:serdes.DEFAULT_JSON_SERDES")))
                if not good:
                    bad.append((f"succeeded invoke yields {t.outcome} {v.key() if v else t.exc_class()}", t))
            elif cell2 in ("FAILED", "TIMED_OUT", "STOPPED"):
                v = t.value
                if not (t.outcome == "raise" and isinstance(v, Obj) and v.cls_name == "CallableRuntimeError"):
                    bad.append((f"{cell2} invoke must raise the recorded error, got {t.outcome} {t.exc_class()}", t))
            elif cell2 == "STARTED":
                if not is_suspend(prog, t):
                    bad.append((f"outstanding invoke must suspend, got {t.outcome} {t.exc_class()}", t))
            elif cell2 is None and st == ABSENT:
                bad.append(("after START the refreshed status is not examined", t))
        ck.ob("R3.invoke", c_inv, not bad and traces, (bad[0][0] + ": " + trace_sig(bad[0][1])) if bad else "", cell=st)
    ck.floor("traces", ntr, 30)

    # ---- R4 wait_for_callback composition ---------------------------------------------------
    wfc = prog.func("operation.callback", "wait_for_callback_handler")
    proto = prog.cls("types", "DurableContext")

    def h_step(it, recv, args, kwargs, node):
        f = kwargs.get("func") or (args[0] if args else None)
        it.emit("OP", node, op="step", func=f.key() if f else None)
        if isinstance(f, FuncVal):
            it.call_value(f, [Sym("step_context")], {}, node)
        return Sym("step_result")

    def h_create(it, recv, args, kwargs, node):
        it.emit("OP", node, op="create_callback", config=kwargs.get("config").key() if kwargs.get("config") else None)
        return Sym("created_callback")

    def h_result(it, recv, args, kwargs, node):
        if isinstance(recv, Sym) and recv.k == "created_callback":
            it.emit("OP", node, op="result")
            return Sym("callback_result")
        return NotImplemented

    def kw(it, state):
        return {"context": Sym("context", TypeRef(classes=(proto.fq,))), "submitter": Sym("submitter", TypeRef(prim="callable")),
                "name": Sym("name", TypeRef(prim="str", optional=True)), "config": Sym("config", parse_annotation(prog, wfc.module, wfc.node.args.args[3].annotation))}

    traces = pm.run_function(wfc, None, kw, cell=("wait_for_callback_handler", ""),
                             ext_method_hooks={"step": h_step, "create_callback": h_create, "result": h_result},
                             user_raises={"submitter": []})
    bad = []
    for t in traces:
        ops = [e.data["op"] for e in t.kinds("OP")]
        if ops != ["create_callback", "step", "result"]:
            bad.append((f"composition is {ops}", t))
        us = user_events(t, "user")
        if len(us) != 1 or (us[0].data.get("args") or [None])[0] != "created_callback.callback_id":
            bad.append((f"submitter receives {(us[0].data.get('args') if us else None)}", t))
        if t.outcome != "return" or t.value.key() != "callback_result":
            bad.append((f"returns {t.value.key() if t.outcome == 'return' else t.exc_class()}", t))
    ck.floor("wait_for_callback_traces", len(traces), 2)
    ck.ob("R4.wait-for-callback-composition", fn_construct(wfc), not bad, (bad[0][0] + ": " + trace_sig(bad[0][1])) if bad else "")
    # R4 the serializer configured for the callback RESULT has one job (h3_C14 #1): WaitForCallbackConfig.serdes is documented as the serdes of the callback
    # result. The submitter step returns something else (normally None), and the child context that wraps the composition returns the deserialised
    # payload: a serdes written for the payload's type cannot record the step's None, and the default serializer cannot record the typed payload.
    import ast as _ast
    step_cfg = [c for c in _ast.walk(wfc.node) if isinstance(c, _ast.Call) and isinstance(c.func, _ast.Name) and c.func.id == "StepConfig"]
    ck.floor("submitter_step_configs", len(step_cfg), 1)
    misuse = [c for c in step_cfg if any(k.arg == "serdes" and not (isinstance(k.value, _ast.Constant) and k.value.value is None) for k in c.keywords)]
    ck.ob("R4.callback-serdes-is-for-the-callback-result-only", fn_construct(wfc), not misuse,
          f"the submitter step is configured with `{_ast.unparse(misuse[0])[:110]}`: the serializer meant for the callback's payload is applied to the submitter's return "
          "value (None): with a serdes written for the payload type the step's SUCCEED record cannot be built (context FAILED before the callback is awaited), and "
          "where it tolerates None the enclosing child context then re-serialises the typed payload with the default serializer ('Unsupported type')" if misuse else "")
    return ck


if __name__ == "__main__":
    main(PID, build)
