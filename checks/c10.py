"""C10 - nothing is recorded under a context after that context has completed (DESIGN.md section 11)."""

from __future__ import annotations

import ast

from sa.cfg import walk_shallow
from sa.common import fn_construct, methods_writing_operations, trace_sig
from sa.model import AnalysisError, load_program
from sa.protocol import ABSENT, ORPHAN_FQ, ProtocolModel, create_checkpoint_traces, user_events
from sa.report import Check, main

PID = "C10"
TREE_ATTRS = ("_parent_to_children", "_parent_done")


def cls_construct(ci):
    return f"{ci.module.relpath.split('aws_durable_execution_sdk_python/')[-1]}:{ci.name}"


def build() -> Check:
    prog = load_program()
    pm = ProtocolModel(prog)
    ck = Check(
        PID, "nothing recorded under a completed context",
        "create_checkpoint is interpreted on a state built by its own __init__ (update type/action enumerated): the orphan guard is decided before the enqueue "
        "and under the lock together with the tree update and the marking; marking happens exactly for CONTEXT SUCCEED/FAIL; the marking routine is a "
        "closure over the children map. Two information-flow necessary conditions of the property: an update carries only (id, parent id), so a guard that "
        "can stop an operation *first seen after* its ancestor completed must read the update's parent link; and whatever the guard consults must also be fed "
        "from the operations merged from history. Orphan exception discipline and 'a first-time operation checks before user code' from the executor table.",
        ["the instants at which a parent completes relative to its branches are not explored",
         "OrphanedChildException is only acted upon by the branch done-callback (C06 judges BaseException routing)"],
        "one obligation per rule and site",
    )
    cc = create_checkpoint_traces(pm)
    fn = pm.ckpt_fn
    c_cc = fn_construct(fn)
    upd_traces = [t for t in cc if dict(t.pc).get("operation_update") == "update"]
    ck.floor("create_checkpoint_update_traces", len(upd_traces), 4)
    b_guard, b_lock, b_mark = [], [], []
    hca_ = prog.cls("state", "ExecutionState").methods.get("_has_completed_ancestor")
    if hca_ is None:
        raise AnalysisError("ExecutionState._has_completed_ancestor not found")
    walk_sets = {n_.comparators[0].attr for n_ in ast.walk(hca_.node) if isinstance(n_, ast.Compare) and len(n_.ops) == 1 and isinstance(n_.ops[0], ast.In)
                 and isinstance(n_.comparators[0], ast.Attribute) and isinstance(n_.comparators[0].value, ast.Name) and n_.comparators[0].value.id == "self"}
    if not walk_sets:
        raise AnalysisError("_has_completed_ancestor: no membership test on a set of the state found")
    # the walk climbs parent links it finds in a map of the state (falling back to the recorded history): create_checkpoint has to put the link of every
    # update it sees into that map - an operation started in THIS invocation is not in the history until the response of its first checkpoint is merged,
    # and a walk that loses the thread there lets a descendant of a completed context through (mutscan: the store deleted, nothing noticed)
    walk_maps = {n_.func.value.attr for n_ in ast.walk(hca_.node) if isinstance(n_, ast.Call) and isinstance(n_.func, ast.Attribute) and n_.func.attr == "get"
                 and isinstance(n_.func.value, ast.Attribute) and isinstance(n_.func.value.value, ast.Name) and n_.func.value.value.id == "self" and n_.func.value.attr != "operations"}
    walk_maps |= {n_.value.attr for n_ in ast.walk(hca_.node) if isinstance(n_, ast.Subscript) and isinstance(n_.value, ast.Attribute) and isinstance(n_.value.value, ast.Name)
                  and n_.value.value.id == "self"}
    if not walk_maps:
        raise AnalysisError("_has_completed_ancestor: no parent-link map found")
    link_stores = [st for st in ast.walk(pm.ckpt_fn.node) if isinstance(st, ast.Assign) and isinstance(st.targets[0], ast.Subscript) and isinstance(st.targets[0].value, ast.Attribute)
                   and st.targets[0].value.attr in walk_maps and "operation_id" in ast.unparse(st.targets[0].slice) and "parent_id" in ast.unparse(st.value)]
    ck.ob("R3.parent-links-are-registered-where-the-walk-reads-them", fn_construct(pm.ckpt_fn), bool(link_stores),
          f"create_checkpoint never stores `<id> -> <parent id>` into {sorted(walk_maps)}, the map _has_completed_ancestor climbs: for an operation of this invocation that "
          "is not yet in the merged history the walk ends early and a descendant of a completed context is enqueued")
    n_orphan = 0
    guard_keys = set()
    for t in upd_traces:
        evs = t.events
        puts = [i for i, e in enumerate(evs) if e.kind == "EXT" and e.data["method"] in ("put", "put_nowait")]
        enters = [i for i, e in enumerate(evs) if e.kind == "WITH_ENTER" and "_parent_done_lock" in e.data["ctx"]]
        exits = [i for i, e in enumerate(evs) if e.kind == "WITH_EXIT" and "_parent_done_lock" in e.data["ctx"]]
        gk = [(k, v) for k, v in t.pc if "_parent_done" in k and " in " in k]
        orphan = t.outcome == "raise" and (t.exc_class() or "").endswith("OrphanedChildException")
        if orphan:
            n_orphan += 1
            if gk:
                guard_keys.add(gk[-1][0])
            if puts:
                b_guard.append(("the update is enqueued although the orphan guard rejects it", t))
        if puts:
            if not gk or gk[-1][1] is not False:
                b_guard.append(("an update reaches the queue without having passed the orphan guard", t))
            # the update is enqueued while the lock that covered its guard is still held: otherwise an ancestor can be handed its completion
            # record between the guard and the put(), and this update reaches the backend after it
            if not enters or not (enters[0] < puts[0]) or any(x < puts[0] for x in exits):
                b_lock.append(("the update is not enqueued under the parent-done lock that covered its orphan guard (check-then-enqueue window: a completion "
                               "record of an ancestor can slip in between)", t))
        for i, e in enumerate(evs):
            tree_op = (e.kind == "EXT" and ("_parent_to_children" in e.data["recv"] or "_parent_done" in e.data["recv"] or e.data["recv"].startswith("{}["))) \
                or e.kind == "MARK_ORPHANS"
            if tree_op and not (enters and enters[0] < i and (not exits or i < exits[0])):
                in_other = any(a < i for a in enters[1:]) if enters else False
                b_lock.append((f"{e.brief()} happens outside the parent-done lock" + (
                    " region that covers the orphan guard and the enqueue (it sits in a later critical section of the same lock: between the two, "
                    "updates of descendants pass the guard although the completion record is already queued)" if in_other else ""), t))
        d = dict(t.pc)
        typ = d.get("update.operation_type=?OperationType")
        act = d.get("update.action=?OperationAction")
        marked = bool(t.kinds("MARK_ORPHANS"))
        if typ == "CONTEXT" and act in ("SUCCEED", "FAIL") and not marked:
            b_mark.append((f"a CONTEXT {act} does not mark its descendants", t))
        if marked and not (typ == "CONTEXT" and act in ("SUCCEED", "FAIL")):
            b_mark.append((f"descendants are marked on {typ} {act}", t))
        if typ == "CONTEXT" and act in ("SUCCEED", "FAIL"):
            # marking covers the descendants that exist NOW; an operation first started afterwards is in no pre-computed set and is stopped only by the
            # ancestor walk - which has to find the completed context itself in one of the sets it reads (mutscan: the `add` deleted, nothing noticed)
            reg = [e for e in evs if e.kind == "EXT" and e.data.get("method") == "add" and any(w in e.data.get("recv", "") for w in walk_sets)
                   and [a_ for a_ in e.data.get("args", [])][:1] == ["update.operation_id"]]
            if not reg:
                b_mark.append((f"a CONTEXT {act} is not registered in any set the ancestor walk reads ({sorted(walk_sets)}): an operation first started beneath it "
                               "afterwards passes the guard", t))
        for e in t.kinds("MARK_ORPHANS"):
            if e.data["root"] != "update.operation_id":
                b_mark.append((f"marking starts from {e.data['root']} instead of the completing context", t))
    ck.analysed["orphan_rejection_paths"] = n_orphan
    ck.ob("R1.guard-exists", c_cc, n_orphan > 0, "no path of create_checkpoint rejects an update with OrphanedChildException")
    ck.ob("R1.guard-before-enqueue", c_cc, not b_guard, (b_guard[0][0] + ": " + trace_sig(b_guard[0][1])) if b_guard else "")
    ck.ob("R1.under-lock", c_cc, not b_lock, (b_lock[0][0]) if b_lock else "")
    ck.ob("R2.mark-on-succeed-and-fail", c_cc, not b_mark, (b_mark[0][0]) if b_mark else "")
    # R3: the guard must read the update's parent link
    ck.analysed["guard_conditions"] = sorted(guard_keys)
    reads_parent = any("parent_id" in k for k in guard_keys)
    ck.ob("R3.guard-reads-parent-link", c_cc, reads_parent,
          f"the guard decides on {sorted(guard_keys)} only: an operation first started after its ancestor completed is in no pre-computed set, "
          "so it is enqueued and its user function runs (map(min_successful=1): the surviving branch starts and completes a new step under the completed map)")

    # lock discipline over the package
    sc = prog.cls("state", "ExecutionState")
    locked_helpers = set()
    for name, f in sc.methods.items():
        for call, m in [(c, c.func.attr) for c in ast.walk(f.node) if isinstance(c, ast.Call) and isinstance(c.func, ast.Attribute)
                        and isinstance(c.func.value, ast.Name) and c.func.value.id == "self"]:
            pass
    n_acc = 0
    for fi in prog.functions.values():
        if isinstance(fi.node, ast.Lambda) or fi.qualname.endswith("__init__"):
            continue
        withs = [w for w in ast.walk(fi.node) if isinstance(w, ast.With) and any("_parent_done_lock" in ast.unparse(i.context_expr) for i in w.items)]
        for n in walk_shallow(fi.node):
            if isinstance(n, ast.Attribute) and n.attr in TREE_ATTRS:
                n_acc += 1
                inside = any(any(n is x for x in ast.walk(w)) for w in withs)
                if not inside:
                    # helper documented as 'called with the lock held': all its call sites must be inside the lock
                    callers_ok = True
                    sites = 0
                    for g in prog.functions.values():
                        if isinstance(g.node, ast.Lambda):
                            continue
                        gw = [w for w in ast.walk(g.node) if isinstance(w, ast.With) and any("_parent_done_lock" in ast.unparse(i.context_expr) for i in w.items)]
                        for c in walk_shallow(g.node):
                            if isinstance(c, ast.Call) and isinstance(c.func, ast.Attribute) and c.func.attr == fi.name and fi.cls is not None:
                                sites += 1
                                if not any(any(c is x for x in ast.walk(w)) for w in gw):
                                    callers_ok = False
                    inside = sites > 0 and callers_ok
                ck.ob("R1.lock-discipline", fn_construct(fi), inside, f"{n.attr} accessed outside `with self._parent_done_lock`", where=f"line {n.lineno}", cell=n.attr)
    ck.floor("tree_accesses", n_acc, 3)

    # R6 the read-only query (raise_if_orphaned: what a resumed operation asks right before its user function) asks the same question as the guard every
    # update passes in create_checkpoint. The executor model records the query as an event and never looks inside it: a query that only consults the
    # pre-computed set lets an operation first seen after its ancestor completed run its user function.
    rio_ = sc.methods.get("raise_if_orphaned")
    if rio_ is None:
        raise AnalysisError("ExecutionState.raise_if_orphaned not found")

    def orphan_disjuncts(fn_node, strip):
        out = []
        for n_ in ast.walk(fn_node):
            if isinstance(n_, ast.If) and any(isinstance(b, ast.Raise) and b.exc is not None and "OrphanedChildException" in ast.unparse(b.exc) for b in n_.body):
                parts = n_.test.values if isinstance(n_.test, ast.BoolOp) and isinstance(n_.test.op, ast.Or) else [n_.test]
                out.append(sorted(ast.unparse(p_).replace(strip, "") for p_ in parts))
        return out
    g_guard = orphan_disjuncts(pm.ckpt_fn.node, "operation_update.")
    g_query = orphan_disjuncts(rio_.node, "operation_update.")
    if len(g_guard) != 1 or len(g_query) > 1:
        raise AnalysisError(f"orphan guard / query not recognised: {g_guard} / {g_query}")
    if not g_query:
        g_query = [["<the query never raises OrphanedChildException>"]]
    ck.ob("R6.read-only-query-asks-what-the-guard-asks", fn_construct(rio_), g_guard[0] == g_query[0],
          f"create_checkpoint rejects an update when {' or '.join(g_guard[0])}; raise_if_orphaned stops a resumed operation when {' or '.join(g_query[0])}: an operation the "
          "guard would reject passes the query and runs its user function beneath a completed context")

    # R2 closure shape of the marking routine
    mo = sc.methods.get("_mark_orphans")
    if mo is None:
        raise AnalysisError("ExecutionState._mark_orphans not found")
    loops = [n for n in ast.walk(mo.node) if isinstance(n, (ast.While, ast.For))]
    recursive = False
    for c in ast.walk(mo.node):
        if isinstance(c, ast.Call) and isinstance(c.func, ast.Attribute) and c.func.attr == mo.name:
            recursive = True
    lookup_in_loop = False
    for lp in loops:
        work = {x.id for x in ast.walk(lp.test if isinstance(lp, ast.While) else lp.iter) if isinstance(x, ast.Name)}
        # variables holding the result of a children-map lookup inside the loop
        derived = set()
        for st in ast.walk(lp):
            if isinstance(st, (ast.Assign, ast.AnnAssign)) and st.value is not None and "_parent_to_children" in ast.unparse(st.value):
                for t in ([st.target] if isinstance(st, ast.AnnAssign) else st.targets):
                    if isinstance(t, ast.Name):
                        derived.add(t.id)
        for st in ast.walk(lp):
            grows = None
            if isinstance(st, ast.Call) and isinstance(st.func, ast.Attribute) and st.func.attr in ("update", "extend", "add", "append", "extendleft") \
                    and isinstance(st.func.value, ast.Name) and st.func.value.id in work and st.args:
                grows = st.args[0]
            if isinstance(st, ast.AugAssign) and isinstance(st.target, ast.Name) and st.target.id in work:
                grows = st.value
            if grows is not None:
                txt = ast.unparse(grows)
                if "_parent_to_children" in txt or any(isinstance(x, ast.Name) and x.id in derived for x in ast.walk(grows)):
                    lookup_in_loop = True
    feeds_done = any(isinstance(c, (ast.Call, ast.AugAssign)) and "_parent_done" in ast.unparse(c) and
                     (isinstance(c, ast.AugAssign) or (isinstance(c.func, ast.Attribute) and c.func.attr in ("update", "add")))
                     for c in ast.walk(mo.node))
    ck.ob("R2.marking-is-transitive", fn_construct(mo), (bool(loops) and lookup_in_loop or recursive) and feeds_done,
          f"loop={bool(loops)} worklist-grows-from-children-lookup={lookup_in_loop} recursive={recursive} feeds-parent-done={feeds_done}: "
          "only direct children would be marked")

    # R4: history must feed what the guard consults
    mergers = methods_writing_operations(prog)
    fed = False
    for m in mergers:
        if any(isinstance(n, ast.Attribute) and n.attr in TREE_ATTRS for n in ast.walk(sc.methods[m].node)):
            fed = True
    from sa.common import self_method_calls
    guard_fns, todo = {}, [fn]
    while todo:
        f = todo.pop()
        if f.fq in guard_fns:
            continue
        guard_fns[f.fq] = f
        for _, mname in self_method_calls(f.node):
            if mname in sc.methods:
                todo.append(sc.methods[mname])
    reads_ops = any(isinstance(n, ast.Attribute) and n.attr == "operations" and isinstance(n.value, ast.Name) and n.value.id == "self"
                    for f in guard_fns.values() for n in ast.walk(f.node))
    ck.ob("R4.tree-knows-history", c_cc, fed or reads_ops,
          f"the children map is built only from this invocation's updates: neither {sorted(mergers)} write it nor does the guard/marking read self.operations, "
          "so operations recorded by an earlier invocation under a context that completes now are never marked")

    # R7: the verdict "orphaned" is monotone in time, so only positive verdicts may be remembered; a remembered negative verdict must be
    # dropped whenever a set the positive verdict is read from grows
    from sa.common import NEG_MEMO_FIXTURE, stale_negative_verdicts
    fx = stale_negative_verdicts(ast.parse(NEG_MEMO_FIXTURE).body[0], "create_checkpoint")
    if not fx[2]:
        raise AnalysisError("negative-memo rule does not fire on its positive example")
    preds, memo, stale = stale_negative_verdicts(sc.node, fn.name)
    ck.analysed["guard_predicates"] = preds
    ck.analysed["negative_memo_attrs"] = sorted(memo)
    ck.ob("R7.no-stale-negative-verdict", c_cc, not stale, stale[0][1] if stale else f"predicates {preds}, negative memo attributes: {sorted(memo) or 'none'}")
    for gname, why in stale[1:]:
        ck.ob("R7.no-stale-negative-verdict", f"state.py:ExecutionState.{gname}", False, why)

    # R3 (interpretive): the predicate that walks the parent links is interpreted on small link chains n0 -> n1 -> n2 -> n3 whose links are
    # known from this invocation's updates or only from history, with the completed context at every level and in each set the verdict reads
    import itertools

    from sa.values import Const, DictVal, Obj, SeqVal, Sym, TypeRef
    opc = prog.cls("lambda_service", "Operation")
    pos_attrs, link_attrs = set(), set()
    for pn in preds:
        for n in ast.walk(sc.methods[pn].node):
            if isinstance(n, ast.Compare) and len(n.ops) == 1 and isinstance(n.ops[0], ast.In):
                c0 = n.comparators[0]
                if isinstance(c0, ast.Attribute) and isinstance(c0.value, ast.Name) and c0.value.id == "self":
                    pos_attrs.add(c0.attr)
            if isinstance(n, ast.Call) and isinstance(n.func, ast.Attribute) and n.func.attr == "get" and isinstance(n.func.value, ast.Attribute) \
                    and isinstance(n.func.value.value, ast.Name) and n.func.value.value.id == "self" and n.func.value.attr != "operations":
                link_attrs.add(n.func.value.attr)
            if isinstance(n, ast.Subscript) and isinstance(n.value, ast.Attribute) and isinstance(n.value.value, ast.Name) and n.value.value.id == "self" \
                    and n.value.attr != "operations":
                link_attrs.add(n.value.attr)
    pos_attrs -= set(memo)
    link_attrs -= set(memo) | pos_attrs
    ck.analysed["verdict_sets"] = sorted(pos_attrs)
    ck.analysed["link_maps"] = sorted(link_attrs)
    walk = sc.methods[preds[0]] if preds else None
    ck.ob("R3.guard-walks-the-parent-links", c_cc, walk is not None,
          "the test that rejects an update calls no predicate over the update's parent link: only operations in a pre-computed set can be stopped")
    if walk is None:
        return _finish_executor_rules(ck, prog, pm)
    if not pos_attrs or len(walk.node.args.args) != 2:
        raise AnalysisError("orphan guard predicate (one parameter: the parent id) not understood")
    pname = walk.node.args.args[1].arg
    all_attrs = {a for pn in preds for a in [_a.attr for _a in ast.walk(sc.methods[pn].node) if isinstance(_a, ast.Attribute) and isinstance(_a.value, ast.Name) and _a.value.id == "self"]}
    sources = sorted(link_attrs) + ["<history>"]
    n_sc = 0
    bad_walk = []
    for srcs in itertools.product(sources, repeat=3):
        for pos in sorted(pos_attrs):
            for depth in (0, 1, 2, 3, None):
                def sf(it, state, srcs=srcs, pos=pos, depth=depth):
                    o = Obj(sc, label="st")
                    links = {a: {} for a in link_attrs}
                    ops = {}
                    for i, src in enumerate(srcs):
                        if src == "<history>":
                            op = Obj(opc, label=f"op{i}")
                            op.fields.update(operation_id=Const(f"n{i}"), parent_id=Const(f"n{i + 1}"))
                            ops[f"n{i}"] = op
                        else:
                            links[src][f"n{i}"] = Const(f"n{i + 1}")
                    for a in all_attrs:
                        if a.endswith("_lock"):
                            o.fields[a] = Sym(a, TypeRef(prim="ext:threading.Lock"))
                    for a in pos_attrs | set(memo):
                        o.fields[a] = SeqVal("set", [Const(f"n{depth}")] if (a == pos and depth is not None) else [])
                    for a in link_attrs:
                        o.fields[a] = DictVal(dict(links[a]))
                    o.fields["operations"] = DictVal(dict(ops))
                    return o

                trs = pm.run_function(walk, sf, lambda it, state: {pname: Const("n0")}, cell=("ancestor-walk", ""), while_iters=8,
                                      ext_calls={"builtins.set": lambda it, a, k, n: SeqVal("set", list(a[0].items) if a and isinstance(a[0], SeqVal) else [])})
                n_sc += 1
                got = sorted({(t.value.key() if t.outcome == "return" else t.exc_class()) for t in trs})
                want = ["True"] if depth is not None else ["False"]
                if got != want:
                    bad_walk.append(f"links n0->n1->n2->n3 known from {list(srcs)}, n{depth} in self.{pos}: verdict {got}, expected {want}"
                                    if depth is not None else f"links from {list(srcs)}, nothing completed: verdict {got}, expected {want}")
    ck.floor("ancestor_walk_scenarios", n_sc, 40)
    ck.ob("R3.ancestor-walk-reaches-every-level", fn_construct(walk), not bad_walk,
          (f"{len(bad_walk)}/{n_sc} scenarios: " + bad_walk[0]) if bad_walk else f"{n_sc} scenarios")

    return _finish_executor_rules(ck, prog, pm)


def _finish_executor_rules(ck, prog, pm):
    # R9 the entry query (every operation asks it before anything else): judged on small scenarios evaluated on the code itself. It has to stop an
    # operation whose nearest open enclosing context is orphaned - whatever lies between (contexts recorded SUCCEEDED that are only traversed again)
    from sa.common import branch_query_scenarios
    bq = branch_query_scenarios(prog, pm)
    ck.analysed["entry_query_scenarios"] = len(bq)
    wrong_stop = [f"{d}: {g}" for d, g, w in bq if w == "stops" and g != w]
    # (the entry query counts as a gate for R6 / R8 while it stops the orphan shapes those rules are about: an open branch beneath a completed context)
    entry_query_sound = bool(bq) and not [x for x in wrong_stop if not x.startswith("surviving branch whose OWN context")]
    for d, g, w in bq:
        if w == "stops":
            ck.ob("R9.entry-query-stops-an-orphaned-branch", "state.py:ExecutionState.raise_if_in_orphaned_branch", g == w,
                  f"{d}: the query {g}" if g != w else "", cell=d.split(" [")[0][:60])
    # R5 / R6 from the executor table
    n_first = 0
    for name, ci in pm.executors.items():
        traces = pm.run_cell(ci, ABSENT, faults=True)
        bad = []
        for t in traces:
            evs = t.events
            first_ck = next((i for i, e in enumerate(evs) if e.kind == "CKPT"), None)
            first_eff = next((i for i, e in enumerate(evs) if e.kind == "USER" and e in user_events(t, "user")), None)
            if first_eff is not None:
                n_first += 1
                if first_ck is None or first_ck > first_eff:
                    bad.append(("user code of a first-time operation runs before any checkpoint (no orphan check)", t))
            orph = [e for e in evs if e.kind == "CKPT" and e.data.get("outcome") == "OrphanedChildException"]
            if orph:
                after = evs[evs.index(orph[0]) + 1:]
                if any(e.kind in ("USER", "CKPT") for e in after) or not (t.exc_class() or "").endswith("OrphanedChildException"):
                    bad.append(("an orphan rejection does not stop the operation", t))
        ck.ob("R6.first-time-operation-checks-first", cls_construct(ci), not bad, (bad[0][0] + ": " + trace_sig(bad[0][1])) if bad else "", cell=ABSENT)
        # ... and the same for an operation that is resumed: found STARTED / READY (or a summarised context whose body is run again), its user code
        # runs in this call as well - in an orphaned branch that is "the next durable operation", which must stop it before the user function runs
        from sa.common import applicable_cells as _ac
        for name2, ci2, ot2, st2 in _ac(pm):
            if ci2 is not ci or st2 == ABSENT:
                continue
            badr = []
            n_res = 0
            for t in pm.run_cell(ci, st2, faults=False):
                evs = t.events
                # "that operation's user function": the function the operation wraps, and the user's retry / wait strategy of the operation
                # (h2_C10 #2: the strategy of an interrupted at-most-once step ran in an orphaned branch)
                own_fn = user_events(t, "user") + user_events(t, "strategy")
                first_eff = next((i for i, e in enumerate(evs) if e.kind == "USER" and any(e is u for u in own_fn)), None)
                if first_eff is None:
                    continue
                n_res += 1
                gate = next((i for i, e in enumerate(evs) if e.kind in ("CKPT", "ORPHANCHECK") or (e.kind == "BRANCHCHECK" and entry_query_sound)), None)
                oc_ = [e for e in evs[:first_eff] if e.kind == "ORPHANCHECK"]
                if oc_ and not any(e.data.get("id") == "operation_identifier.operation_id" and e.data.get("parent") == "operation_identifier.parent_id" for e in oc_) \
                        and not any(e.kind == "CKPT" for e in evs[:first_eff]):
                    badr.append((f"the orphan query before the user code asks about id={oc_[0].data.get('id')} parent={oc_[0].data.get('parent')}, not about this operation", t))
                if gate is None or gate > first_eff:
                    badr.append((f"an operation found {st2} enters its user code without any orphan check before it (no checkpoint, no query of the orphan state): in a "
                                 "branch whose parent completed, the user function runs after the completion record", t))
            if n_res:
                ck.ob("R6.resumed-operation-checks-first", cls_construct(ci), not badr, (badr[0][0] + ": " + trace_sig(badr[0][1])) if badr else "", cell=st2)
    ck.floor("first_time_user_entries", n_first, 3)

    # R6 a BLOCKING checkpoint is a round trip to the backend: the update passed the orphan check when it was enqueued, and while the call is in flight the
    # enclosing map / parallel / child context can be handed its completion record. The branch wakes up orphaned with every earlier check behind it - so
    # between a synchronous checkpoint and the operation's user function the orphan state is asked again (r8_C10: "the START just went through the same
    # check" - true for the instant of the enqueue, not for the moment the caller is released)
    n_blk = 0
    for name, ci in pm.executors.items():
        from sa.common import applicable_cells as _ac2
        for name2, ci2, ot2, st2 in _ac2(pm):
            if ci2 is not ci:
                continue
            badk = []
            n_cell = 0
            for t in pm.run_cell(ci, st2, faults=False):
                evs = t.events
                own_fn = user_events(t, "user") + user_events(t, "strategy")
                first_eff = next((i for i, e in enumerate(evs) if e.kind == "USER" and any(e is u for u in own_fn)), None)
                if first_eff is None:
                    continue
                blocking = [i for i, e in enumerate(evs[:first_eff]) if e.kind == "CKPT" and e.data.get("sync")]
                if not blocking:
                    continue
                n_blk += 1
                n_cell += 1
                if not any(e.kind == "ORPHANCHECK" for e in evs[blocking[-1] + 1:first_eff]):
                    badk.append((f"after its blocking {evs[blocking[-1]].data.get('action')} checkpoint returned, an operation found {st2} enters its user code without asking "
                                 "the orphan state again: the parent may have been handed its completion record while the call was in flight", t))
            if n_cell:
                ck.ob("R6.asks-again-after-a-blocking-checkpoint", cls_construct(ci), not badk, (badk[0][0] + ": " + trace_sig(badk[0][1])) if badk else "", cell=st2)
    ck.floor("user_entries_after_a_blocking_checkpoint", n_blk, 1)

    # R8: "a still-running orphaned branch is stopped at its NEXT durable operation" - also when that operation is answered from its record
    # (re-invocation: the surviving branch traverses operations an earlier invocation completed while a sibling completes the map/parallel).
    # Judged on the executor table: a terminal cell that delivers the recorded outcome without a checkpoint and without a query of the orphan state
    # lets the branch go on into the user code that follows the call (h2_C10 #1). One obligation for the common entry point.
    from sa.common import applicable_cells as _ac2, terminal_statuses as _ts
    term = _ts(prog)
    unasked, n_tc = [], 0
    for name2, ci2, ot2, st2 in _ac2(pm):
        if st2 not in term:
            continue
        for t in pm.run_cell(ci2, st2, faults=False):
            if t.outcome not in ("return", "raise") or user_events(t, "user"):
                continue
            n_tc += 1
            if not any(e.kind in ("ORPHANCHECK", "CKPT") or (e.kind == "BRANCHCHECK" and entry_query_sound) for e in t.events):
                unasked.append(f"{ci2.name}[{st2}]")
    ck.analysed["terminal_cells_answered_from_record"] = n_tc
    ck.floor("terminal_cells_answered_from_record", n_tc, 10)
    pr = prog.cls("operation.base", "OperationExecutor").methods.get("process")
    if pr is None:
        raise AnalysisError("OperationExecutor.process not found")
    ck.ob("R8.recorded-outcome-stops-an-orphan-too", fn_construct(pr), not unasked,
          (f"{len(set(unasked))} terminal cells deliver the recorded outcome without asking the orphan state ({', '.join(sorted(set(unasked))[:6])} ...): in a "
           "re-invocation a surviving branch whose parent map/parallel is handed its completion record while the branch traverses operations recorded by an "
           "earlier invocation is not stopped at its next durable operation; the user code that follows each answered call runs until the branch reaches an "
           "operation that is not terminal") if unasked else "", cell="terminal")

    # who may catch the orphan exception
    n_h = 0
    for fi in prog.functions.values():
        if isinstance(fi.node, ast.Lambda):
            continue
        for h in [n for n in walk_shallow(fi.node) if isinstance(n, ast.ExceptHandler) and n.type is not None]:
            elts = h.type.elts if isinstance(h.type, ast.Tuple) else [h.type]
            fqs = [prog.resolve_name_expr(fi.module, e) for e in elts]
            if ORPHAN_FQ in fqs:
                n_h += 1
                body = ast.Module(body=h.body, type_ignores=[])
                # it may not book the branch (counters / branch state / timer); waking the thread that waits in execute() with the orphan exception itself
                # is what lets a map/parallel that runs INSIDE an orphaned branch unwind instead of waiting for ever (g1_orphan #2)
                touches = any(isinstance(c, ast.Call) and isinstance(c.func, ast.Attribute) and (
                    c.func.attr in ("complete_task", "fail_task", "complete", "fail", "suspend", "suspend_with_timeout", "schedule_resume", "reset_to_pending")
                    or (c.func.attr == "set" and "_completion_event" not in ast.unparse(c.func.value))) for c in ast.walk(body))
                ck.ob("R5.orphan-handler-is-inert", fn_construct(fi), fi.name == "_on_task_complete" and not touches,
                      "OrphanedChildException handler outside the branch done-callback, or it changes counters/branch state", where=f"line {h.lineno}")
    ck.floor("orphan_handlers", n_h, 1)
    return ck


if __name__ == "__main__":
    main(PID, build)
