"""C15 - default serialization round-trips every accepted value exactly: codec table agreement (DESIGN.md section 16)."""

from __future__ import annotations

import ast

from sa.common import fn_construct
from sa.model import AnalysisError, load_program
from sa.protocol import ProtocolModel
from sa.report import Check, main
from sa.values import NONE, Const, DictVal, EnumVal, Obj, SeqVal, Sym, TypeRef

PID = "C15"


def S(prim):
    return Sym("v", TypeRef(prim=prim))


def representatives(prog):
    br = prog.cls("concurrency.models", "BatchResult")
    b = Obj(br, label="batch")
    b.fields.update(all=SeqVal("list", []), completion_reason=Sym("batch.reason", TypeRef(classes=(prog.cls("concurrency.models", "CompletionReason").fq,))))
    return {
        "none": Const(None), "str": S("str"), "bool": S("bool"), "int": S("int"), "float": S("float"),
        "bytes": S("bytes"), "uuid": S("ext:uuid.UUID"), "decimal": S("ext:decimal.Decimal"),
        "datetime": S("ext:datetime.datetime"), "date": S("ext:datetime.date"),
        "list": SeqVal("list", [Sym("e", TypeRef(prim="str"))]), "tuple": SeqVal("tuple", [Sym("e", TypeRef(prim="int"))]),
        "dict": DictVal({"k": Sym("e", TypeRef(prim="str"))}), "batch_result": b,
    }


def kind_of(v) -> str:
    """python type of a decoded abstract value"""
    if isinstance(v, Const):
        return "none" if v.value is None else type(v.value).__name__
    if isinstance(v, SeqVal):
        return v.kind
    if isinstance(v, DictVal):
        return "dict"
    if isinstance(v, Obj):
        return "batch_result" if v.cls_name == "BatchResult" else v.cls_name
    if isinstance(v, Sym):
        if v.parts and v.parts[0] == "STR":
            return "str"
        t = v.typ
        if t is not None and t.prim:
            p = t.prim
            table = {"int": "int", "float": "float", "str": "str", "bool": "bool", "bytes": "bytes", "ext:uuid.UUID": "uuid", "ext:decimal.Decimal": "decimal",
                     "ext:datetime.datetime.fromisoformat": "datetime", "ext:datetime.date.fromisoformat": "date", "ext:base64.b64decode": "bytes", "ext:binascii.a2b_base64": "bytes", "ext:base64.standard_b64decode": "bytes",
                     "ext:builtins.tuple": "tuple", "ext:builtins.list": "list", "ext:builtins.dict": "dict"}
            if p in table:
                return table[p]
            return p
        if t is not None and t.classes:
            return "batch_result" if t.classes[0].endswith("BatchResult") else t.classes[0]
        if v.k.startswith("ret:") or "from_dict" in v.k:
            return v.k
    return f"?{v.key()[:40]}"


def build() -> Check:
    prog = load_program()
    pm = ProtocolModel(prog)
    ck = Check(
        PID, "default serialization: codec table agreement",
        "The dispatcher and every codec are interpreted on one abstract representative per supported type (typed symbols for scalars, one-element "
        "containers): the tag emitted for a type must be routed by the decoder to a case that rebuilds the same type (this subsumes the subclass ordering of "
        "bool/int and datetime/date in the match statements), every tag of the enum is emitted by some type and every unknown tag is rejected, every element "
        "of a container is individually wrapped and unwrapped, the envelope-free fast path accepts exactly primitives and lists of primitives on both sides, "
        "dictionary keys that are not strings are rejected, and (de)serialisation failures surface as ExecutionError.",
        ["round-trip *equality of values* (non-finite floats, huge ints, lone surrogates, time zones) is a runtime quantity and not decided",
         "json.dumps/json.loads, base64, uuid, Decimal, fromisoformat are trusted to invert each other on their domains"],
        "one obligation per (rule, type)",
    )
    sd = prog.module("serdes")
    tc = sd.classes.get("TypeCodec")
    tag_cls = sd.classes.get("TypeTag")
    if tc is None or tag_cls is None or "TYPE_CODEC" not in sd.globals:
        raise AnalysisError("TypeCodec / TypeTag / TYPE_CODEC not found in serdes")
    reps = representatives(prog)

    def codec(it, state):
        return it.module_global(sd, "TYPE_CODEC")

    from_dict = prog.cls("concurrency.models", "BatchResult").methods["from_dict"]

    def h_from_dict(it, fn, sv, a, k, n):
        it.emit("BATCH_FROM_DICT", n, arg=a[0].key() if a else None)
        return Sym("batch", TypeRef(classes=(prog.cls("concurrency.models", "BatchResult").fq,)))

    emitted = {}
    for name, v in reps.items():
        trs = pm.run_function(tc.methods["encode"], codec, lambda it, s, v=v: {"obj": v}, cell=("encode", name))
        tags = set()
        bad = []
        for t in trs:
            if t.outcome != "return" or not (isinstance(t.value, Obj) and t.value.cls_name == "EncodedValue"):
                bad.append(f"encode({name}) ends with {t.outcome} {t.exc_class() or t.value.key()[:60]}")
                continue
            tg = t.value.fields.get("tag")
            tags.add(tg.name if isinstance(tg, EnumVal) else "?")
            emitted[name] = t.value
        ck.ob("R1.one-tag-per-type", fn_construct(tc.methods["encode"]), not bad and len(tags) == 1, bad[0] if bad else f"{name} -> {sorted(tags)}", cell=name)
    ck.floor("types_encoded", len(emitted), 14)
    all_tags = set(tag_cls.enum_members)
    got_tags = {e.fields["tag"].name for e in emitted.values() if isinstance(e.fields.get("tag"), EnumVal)}
    ck.ob("R1.every-tag-is-emitted", "serdes.py:TypeTag", got_tags == all_tags,
          f"tags never emitted by any supported type: {sorted(all_tags - got_tags)}; emitted but undeclared: {sorted(got_tags - all_tags)}")
    vals = list(tag_cls.enum_members.values())
    ck.ob("R1.tags-are-distinct", "serdes.py:TypeTag", len(set(vals)) == len(vals), "two type tags share one wire value")

    # decode: the tag emitted for T is routed to a case that rebuilds T
    wire = {"list": SeqVal("list", [Sym("w0")]), "tuple": SeqVal("list", [Sym("w0")]), "dict": DictVal({"k": Sym("w0")}),
            "batch_result": DictVal({"all": Sym("w_all"), "completionReason": Sym("w_reason")})}
    for name, enc in emitted.items():
        tg = enc.fields.get("tag")
        if not isinstance(tg, EnumVal):
            continue
        wv = wire.get(name, Sym("w", TypeRef(prim="str")) if name not in ("none", "bool", "int", "float") else Sym("w"))
        trs = pm.run_function(tc.methods["decode"], codec, lambda it, s, tg=tg, wv=wv: {"tag": tg, "value": wv}, cell=("decode", name),
                              extra_hooks={from_dict.fq: h_from_dict})
        kinds = set()
        for t in trs:
            if t.outcome == "raise":
                if (t.exc_class() or "").endswith("SerDesError") and any("isa" in k and v is False for k, v in t.pc):
                    continue  # shape validation of the wire value
                kinds.add(f"raise {t.exc_class()}")
            else:
                kinds.add(kind_of(t.value))
        ck.ob("R2.decode-rebuilds-the-encoded-type", fn_construct(tc.methods["decode"]), kinds == {name},
              f"a {name} value is tagged {tg.name}; decoding that tag yields {sorted(kinds)}", cell=name)
    # nested envelopes are decoded element by element
    env = DictVal({"t": Const("s"), "v": Sym("w0", TypeRef(prim="str"))})
    for name, tagname, wv in (("list", "LIST", SeqVal("list", [env])), ("tuple", "TUPLE", SeqVal("list", [env])), ("dict", "DICT", DictVal({"k": env}))):
        tg = EnumVal(tag_cls.fq, tagname, tag_cls.enum_members[tagname])
        trs = pm.run_function(tc.methods["decode"], codec, lambda it, s, tg=tg, wv=wv: {"tag": tg, "value": wv}, cell=("decode-nested", name))
        bad = []
        for t in trs:
            if t.outcome != "return":
                continue
            v = t.value
            elems = v.items if isinstance(v, SeqVal) else list(v.items.values()) if isinstance(v, DictVal) else None
            if not elems or any(kind_of(e) != "str" for e in elems):
                bad.append(f"elements of a decoded {name} are {[kind_of(e) for e in elems] if elems else v.key()[:40]} (expected the decoded str)")
            if isinstance(v, DictVal) and list(v.items) != ["k"]:
                bad.append(f"keys of a decoded dict are {list(v.items)}")
        ck.ob("R4.elements-individually-unwrapped", "serdes.py:ContainerCodec.decode", not bad and trs, bad[0] if bad else "", cell=name)

    # unknown tags are rejected everywhere (no pass-through)
    for cname, c in sd.classes.items():
        dec = c.methods.get("decode")
        if dec is None or cname in ("Codec",):
            continue
        matches = [m for m in ast.walk(dec.node) if isinstance(m, ast.Match)]
        ok = True
        why = ""
        for m in matches:
            last = m.cases[-1]
            wild = isinstance(last.pattern, ast.MatchAs) and last.pattern.pattern is None
            raises = any(isinstance(x, ast.Raise) for x in ast.walk(ast.Module(body=last.body, type_ignores=[])))
            if not (wild and raises):
                ok, why = False, "the tag match has no rejecting default case"
        if not matches:
            ok = any(isinstance(x, ast.Raise) for x in ast.walk(dec.node))
            why = "a single-tag codec must reject other tags"
        ck.ob("R1.unknown-tag-rejected", fn_construct(dec), ok, why, cell=cname)

    # R4 nested values are wrapped / unwrapped individually
    for name in ("list", "tuple", "dict"):
        enc = emitted.get(name)
        inner = enc.fields.get("value") if enc else None
        elems = inner.items if isinstance(inner, SeqVal) else list(inner.items.values()) if isinstance(inner, DictVal) else []
        ok = bool(elems) and all(isinstance(e, Obj) and e.cls_name == "EncodedValue" for e in elems)
        ck.ob("R4.elements-individually-wrapped", "serdes.py:ContainerCodec.encode", ok, f"elements of a {name} are encoded as {[e.key()[:40] for e in elems]}", cell=name)
    ets = sd.classes["ExtendedTypeSerDes"]
    tjs = ets.methods.get("_to_json_serializable")
    if tjs is None:
        raise AnalysisError("ExtendedTypeSerDes._to_json_serializable not found")
    ev = sd.classes["EncodedValue"]

    def mk_ev(tag, value):
        o = Obj(ev)
        o.fields.update(tag=EnumVal(tag_cls.fq, tag, tag_cls.enum_members[tag]), value=value)
        return o

    nested = mk_ev("LIST", SeqVal("list", [mk_ev("DICT", DictVal({"k": mk_ev("STR", Sym("leaf", TypeRef(prim="str")))}))]))
    trs = pm.run_function(tjs, lambda it, s: Obj(ets, label="serdes"), lambda it, s: {"obj": nested}, cell=("to_json", ""))

    def well_formed(v, depth=0):
        if isinstance(v, DictVal) and set(v.items) == {"t", "v"}:
            return well_formed(v.items["v"], depth + 1)
        if isinstance(v, SeqVal):
            return all(well_formed(x, depth) for x in v.items)
        if isinstance(v, DictVal):
            return all(well_formed(x, depth) for x in v.items.values())
        return not isinstance(v, Obj)
    ok = bool(trs) and all(t.outcome == "return" and well_formed(t.value) and isinstance(t.value, DictVal) for t in trs)
    ck.ob("R4.envelope-recursion", fn_construct(tjs), ok, "nested EncodedValue objects are not all turned into {t, v} envelopes (an EncodedValue would reach json.dumps)")
    unwrap = sd.classes["ContainerCodec"].methods.get("_unwrap")
    src = ast.unparse(unwrap.node) if unwrap else ""
    ck.ob("R4.unwrap-recognises-envelopes", fn_construct(unwrap) if unwrap else "serdes.py:ContainerCodec._unwrap",
          "TYPE_TOKEN in obj" in src and "VALUE_TOKEN in obj" in src and "dispatcher.decode" in src, "_unwrap must decode {t, v} dictionaries through the dispatcher")
    # ... and only those: a dictionary is an envelope when it has BOTH tokens (user data with a key "t" alone is user data - "returned unchanged")
    if unwrap is not None:
        tests_ = [c_.guard for m_ in ast.walk(unwrap.node) if isinstance(m_, ast.Match) for c_ in m_.cases if c_.guard is not None and "TOKEN" in ast.unparse(c_.guard)]
        tests_ += [n_.test for n_ in ast.walk(unwrap.node) if isinstance(n_, ast.If) and "TOKEN" in ast.unparse(n_.test)]
        both = [t_ for t_ in tests_ if isinstance(t_, ast.BoolOp) and isinstance(t_.op, ast.And) and {"TYPE_TOKEN in obj", "VALUE_TOKEN in obj"} <= {ast.unparse(v_) for v_ in t_.values}]
        if tests_:
            ck.ob("R4.unwrap-recognises-envelopes", fn_construct(unwrap), len(both) == len(tests_),
                  f"_unwrap takes a dictionary for an envelope under `{ast.unparse(tests_[0])}`: a dictionary of the user's with only one of the two token keys is decoded (KeyError / "
                  "a value altered) instead of being returned unchanged", cell="both tokens")
        else:
            ck.undecided_rule("R4.unwrap-recognises-envelopes: the test that recognises an envelope in _unwrap was not found")

    # R5 fast path --------------------------------------------------------------------------------------
    isp = sd.classes["SerDes"].methods.get("is_primitive")
    if isp is None:
        raise AnalysisError("SerDes.is_primitive not found")
    prim_expect = {"none": True, "str": True, "int": True, "float": True, "bool": True, "bytes": False, "uuid": False, "decimal": False,
                   "datetime": False, "date": False, "list": True, "tuple": False, "dict": False, "batch_result": False}
    extra = {"list_of_dict": (SeqVal("list", [DictVal({"t": Sym("x"), "v": Sym("y")})]), False), "list_of_tuple": (SeqVal("list", [SeqVal("tuple", [])]), False),
             "envelope_lookalike": (DictVal({"t": Sym("x"), "v": Sym("y")}), False), "nested_list": (SeqVal("list", [SeqVal("list", [Sym("e", TypeRef(prim="int"))])]), True)}
    cases = {k: (reps[k], v) for k, v in prim_expect.items()}
    cases.update(extra)
    for name, (v, want) in cases.items():
        trs = pm.run_function(isp, None, lambda it, s, v=v: {"obj": v}, cell=("is_primitive", name))
        res = {t.value.value if t.outcome == "return" and isinstance(t.value, Const) else None for t in trs}
        ck.ob("R5.fast-path-domain", fn_construct(isp), res == {want}, f"is_primitive({name}) = {sorted(map(str, res))}, expected {want}: "
              + ("an envelope look-alike / non-JSON type would bypass the envelope" if not want else "a plain JSON value is forced into the envelope"), cell=name)
    for m in ("serialize", "deserialize"):
        f = ets.methods.get(m)
        ok = f is not None and "is_primitive(" in ast.unparse(f.node)
        ck.ob("R5.both-sides-consult-fast-path", fn_construct(f) if f else f"serdes.py:ExtendedTypeSerDes.{m}", ok, f"{m} does not consult is_primitive")
    des = ets.methods["deserialize"]
    dsrc = ast.unparse(des.node)
    ck.ob("R5.root-envelope-required", fn_construct(des), "Malformed envelope" in dsrc or ("TYPE_TOKEN in obj" in dsrc and "raise SerDesError" in dsrc),
          "a non-primitive root that is not an envelope must be rejected")

    # R6 dict keys ----------------------------------------------------------------------------------------
    cc = sd.classes["ContainerCodec"]
    for kname, key in (("int", 1), ("none", None), ("bool", True), ("float", 1.5), ("tuple", (1, 2)), ("bytes", b"k")):
        d = DictVal({key: Sym("e", TypeRef(prim="str"))})
        trs = pm.run_function(tc.methods["encode"], codec, lambda it, s, d=d: {"obj": d}, cell=("encode-dict-key", kname))
        ok = bool(trs) and all(t.outcome == "raise" and (t.exc_class() or "").endswith("SerDesError") for t in trs)
        ck.ob("R6.non-string-keys-rejected", fn_construct(cc.methods["encode"]), ok,
              f"a dict with a {kname} key is accepted: JSON turns the key into a string and the decoder restores no key type, so the value comes back altered", cell=kname)
    d = DictVal({"s": Sym("e", TypeRef(prim="str"))})
    trs = pm.run_function(tc.methods["encode"], codec, lambda it, s, d=d: {"obj": d}, cell=("encode-dict-key", "str"))
    ck.ob("R6.string-keys-accepted", fn_construct(cc.methods["encode"]), bool(trs) and all(t.outcome == "return" for t in trs), "a string-keyed dict is rejected")

    # R8 the codec path is a function of (type, value): no equality-keyed memoisation ------------------------
    # (functools.lru_cache / cache key their entries by ==/hash: True, 1 and 1.0 collide unless typed=True)
    n_fn = 0
    for fi in prog.functions.values():
        if fi.module.short() != "serdes" or isinstance(fi.node, ast.Lambda):
            continue
        n_fn += 1
        for dec in fi.node.decorator_list:
            d = dec.func if isinstance(dec, ast.Call) else dec
            name = d.attr if isinstance(d, ast.Attribute) else getattr(d, "id", "")
            if name in ("lru_cache", "cache", "cached_property", "memoize"):
                typed = isinstance(dec, ast.Call) and any(k.arg == "typed" and isinstance(k.value, ast.Constant) and k.value.value is True for k in dec.keywords)
                takes_value = len(fi.node.args.args) >= 1 and name != "cached_property"
                ck.ob("R8.no-equality-keyed-memoisation", fn_construct(fi), typed or not takes_value,
                      f"@{name} on a (de)serialisation function keys its cache by value equality: equal values of different types (True / 1 / 1.0, 0.0 / False) "
                      "share one entry, so whichever was encoded first decides the type tag of the other")
    ck.floor("serdes_functions_scanned", n_fn, 20)
    # module-level dict caches keyed by the value would be the same defect: none may be written from encode paths
    for cname, c in sd.classes.items():
        enc = c.methods.get("encode")
        if enc is None:
            continue
        for n_ in ast.walk(enc.node):
            if isinstance(n_, ast.Subscript) and isinstance(n_.ctx, ast.Store) and isinstance(n_.value, (ast.Name, ast.Attribute)) \
                    and "cache" in ast.unparse(n_.value).lower():
                ck.ob("R8.no-equality-keyed-memoisation", fn_construct(enc), False, f"encode stores into {ast.unparse(n_.value)}: a value-keyed cache conflates equal values of different types")

    # R7 failures surface as ExecutionError -------------------------------------------------------------------
    for fname in ("serialize", "deserialize"):
        f = sd.functions.get(fname)
        if f is None:
            raise AnalysisError(f"serdes.{fname} not found")
        ok = False
        for tr in [n for n in ast.walk(f.node) if isinstance(n, ast.Try)]:
            body = ast.unparse(ast.Module(body=tr.body, type_ignores=[]))
            if f".{fname}(" in body:
                for h in tr.handlers:
                    covers = h.type is None or ast.unparse(h.type) in ("Exception", "BaseException")
                    raises = any(isinstance(x, ast.Raise) and x.exc is not None and "ExecutionError" in ast.unparse(x.exc) for x in ast.walk(h))
                    ok = ok or (covers and raises)
        ck.ob("R7.failure-becomes-execution-error", fn_construct(f), ok, f"{fname}: an exception of the active serdes is not converted to ExecutionError")
        ck.ob("R7.default-serdes", fn_construct(f), "or EXTENDED_TYPES_SERDES" in ast.unparse(f.node), f"{fname}: the default is not the extended-types serdes")
    # R9 the batch-result envelope: what BatchItem/BatchResult.to_dict write is what from_dict rebuilds, for every item value
    # (the value position holds arbitrary user results: no truthiness test, default or conversion may sit between the wire and the field)
    models = prog.module("concurrency.models")
    bi_cls, br_cls = models.classes["BatchItem"], models.classes["BatchResult"]
    bis = models.classes["BatchItemStatus"]
    for cls_, m in ((bi_cls, "to_dict"), (bi_cls, "from_dict"), (br_cls, "to_dict"), (br_cls, "from_dict")):
        if m not in cls_.methods:
            raise AnalysisError(f"{cls_.name}.{m} not found")

    def item_self(it, state):
        o = Obj(bi_cls, label="item")
        o.fields.update(index=Sym("i.index", TypeRef(prim="int")), status=Sym("i.status", TypeRef(classes=(bis.fq,))), result=Sym("i.result"), error=NONE)
        return o

    wr = pm.run_function(bi_cls.methods["to_dict"], item_self, None, cell=("BatchItem.to_dict", ""))
    wire = None
    badw = []
    for t in wr:
        if t.outcome != "return" or not isinstance(t.value, DictVal):
            badw.append(f"to_dict gives {t.value.key() if t.outcome == 'return' else t.exc_class()}")
            continue
        wire = t.value
        if "result" not in wire.items or wire.items["result"].key() != "i.result":
            badw.append(f"the item value is written as {wire.items.get('result').key() if 'result' in wire.items else 'nothing'} under pc {list(t.pc)}")
        if "index" not in wire.items or wire.items["index"].key() != "i.index":
            badw.append("the item index is not written as is")
    ck.ob("R9.batch-item-written-as-is", fn_construct(bi_cls.methods["to_dict"]), not badw and len(wr) == 1 and wire is not None, "; ".join(badw) or f"{len(wr)} paths")
    if wire is not None:
        rd = pm.run_function(bi_cls.methods["from_dict"], None, lambda it, state: {"data": DictVal(dict(wire.items))}, cell=("BatchItem.from_dict", ""))
        badr = []
        for t in rd:
            v = t.value if t.outcome == "return" else None
            if not (isinstance(v, Obj) and v.cls_name == "BatchItem"):
                badr.append(f"from_dict gives {v.key() if v is not None else t.exc_class()}")
                continue
            if v.fields.get("result", NONE).key() != "i.result":
                badr.append(f"the item value comes back as {v.fields.get('result', NONE).key()} when {['%s->%s' % kv for kv in t.pc]} "
                            "(a legal value such as 0, False, '' or [] would not round-trip)")
            if v.fields.get("index", NONE).key() != "i.index":
                badr.append(f"the item index comes back as {v.fields.get('index', NONE).key()}")
            if "i.status" not in v.fields.get("status", NONE).key():
                badr.append(f"the item status comes back as {v.fields.get('status', NONE).key()}")
        ck.ob("R9.batch-item-read-as-is", fn_construct(bi_cls.methods["from_dict"]), not badr and rd, "; ".join(badr[:2]) or f"{len(rd)} paths")

    def h_item_from(it, fn, sv, a, k, n):
        return Sym(f"item<{(a[0] if a else k.get('data', NONE)).key()}>", TypeRef(classes=(bi_cls.fq,)))

    rdb = pm.run_function(br_cls.methods["from_dict"], None,
                          lambda it, state: {"data": DictVal({"all": SeqVal("list", [Sym("d0"), Sym("d1")]), "completionReason": Sym("w.reason", TypeRef(prim="str"))})},
                          cell=("BatchResult.from_dict", ""), extra_hooks={bi_cls.methods["from_dict"].fq: h_item_from}, loop_iters=3)
    badb = []
    for t in rdb:
        v = t.value if t.outcome == "return" else None
        items = v.fields.get("all") if isinstance(v, Obj) else None
        got = [x.key() for x in items.items] if isinstance(items, SeqVal) else None
        if got != ["item<d0>", "item<d1>"]:
            badb.append(f"two wire items are rebuilt as {got if got is not None else (v.key() if v is not None else t.exc_class())}")
    ck.ob("R9.batch-items-rebuilt-in-order", fn_construct(br_cls.methods["from_dict"]), not badb and rdb, "; ".join(badb[:2]) or f"{len(rdb)} paths")
    # R10 exact types: `case list():` / isinstance accept subclass instances (namedtuple, IntEnum, OrderedDict, a list subclass), which are then encoded
    # as - and decoded to - the base type: "same types at every nesting level" needs either an exact-type dispatch or a rejection of subclasses
    def subclass_accepting_arms(tree):
        out = []
        for n_ in ast.walk(tree):
            if isinstance(n_, ast.match_case):
                pats = n_.pattern.patterns if isinstance(n_.pattern, ast.MatchOr) else [n_.pattern]
                for p_ in pats:
                    if isinstance(p_, ast.MatchClass) and not p_.patterns and not p_.kwd_patterns and isinstance(p_.cls, (ast.Name, ast.Attribute)):
                        nm_ = ast.unparse(p_.cls)
                        if nm_ in ("str", "int", "float", "list", "tuple", "dict", "bytes", "bytearray", "datetime", "date", "Decimal", "uuid.UUID"):
                            guard_exact = n_.guard is not None and "type(" in ast.unparse(n_.guard)
                            if not guard_exact:
                                out.append((nm_, p_.lineno))
        return out

    arms = []
    for cname in [c_ for c_ in sd.classes if c_.endswith("Codec")]:
        enc_ = sd.classes[cname].methods.get("encode")
        if enc_ is not None:
            arms += [(cname, nm_, ln_) for nm_, ln_ in subclass_accepting_arms(enc_.node)]
    import re as _re
    exact_guard = any(_re.search(r"type\([^)]*\)\s*(is|==|in|not in|!=)\s", ast.unparse(m_.node)) and "SerDesError" in ast.unparse(m_.node)
                      for c_ in sd.classes.values() for m_ in c_.methods.values())
    ck.floor("encode_dispatch_arms", len(arms), 8)
    ck.ob("R10.subclass-instances-not-downgraded", "serdes.py:*Codec.encode", exact_guard or not arms,
          f"{len(arms)} dispatch arms match by class pattern (e.g. {arms[0][0]} `case {arms[0][1]}():` line {arms[0][2]}) and nothing rejects subclasses: a namedtuple is "
          "accepted and comes back as a tuple, an IntEnum member as an int, an OrderedDict as a dict - accepted and silently altered" if arms else "")
    # R11 str through json: json.dumps(ensure_ascii=True) writes a high surrogate followed by a low one as two \\uXXXX escapes, json.loads reads them back as one
    # astral character - the only str values the JSON text round trip is not injective on. They must be rejected or encoded differently.
    ser_fn = sd.classes["ExtendedTypeSerDes"].methods.get("serialize") if "ExtendedTypeSerDes" in sd.classes else None
    if ser_fn is None:
        raise AnalysisError("ExtendedTypeSerDes.serialize not found")
    txt_all = "\n".join(ast.unparse(m_.node) for c_ in sd.classes.values() for m_ in c_.methods.values())
    handles = any(tok in txt_all for tok in ("surrogate", "\\ud800", "\\udc00", "0xD800", "0xd800"))
    ck.ob("R11.adjacent-surrogates-survive", fn_construct(ser_fn), handles,
          "strings are written with json.dumps(ensure_ascii=True) and read with json.loads and nothing looks at surrogates: the two-character string '\\ud83d\\ude00' is accepted "
          "and comes back as the one-character string '\\U0001f600' (two distinct dict keys collapse into one)")
    _round_h2_rules(ck, sd)
    _same_settings_both_ways(ck, sd)
    return ck


def _same_settings_both_ways(ck, sd):
    """R15 (r8_C15): what the encoder accepts the decoder must be able to read, so both run their conversions under the same interpreter settings. A
    `with <setting>():` block (an int-digit limit lifted, a decimal context, a recursion limit) that encloses a conversion on one side and not EVERY
    conversion on the other widens one direction only: the value is accepted, recorded, and every replay fails on it. The text <-> int conversion of the
    decoder happens in json.loads, not where `int(value)` is written."""
    ets = sd.classes["ExtendedTypeSerDes"]
    SETTERS = ("set_", "setcontext", "setrecursionlimit", "setlocale", "localcontext")

    def changes_settings(expr) -> bool:
        # a context manager counts when it is (a call of) a function of this module whose body calls an interpreter-setting function, or such a call itself
        # (decimal.localcontext()); a lock, a tracing span, contextlib.nullcontext() change nothing a conversion depends on
        if not isinstance(expr, ast.Call):
            return False
        last = ast.unparse(expr.func).split(".")[-1]
        if last.startswith(SETTERS):
            return True
        fn = sd.functions.get(last) if hasattr(sd, "functions") else None
        if fn is None:
            for f_ in ast.walk(sd.tree):
                if isinstance(f_, ast.FunctionDef) and f_.name == last:
                    fn = f_
                    break
        node = getattr(fn, "node", fn)
        if node is None:
            return False
        return any(isinstance(c, ast.Call) and ast.unparse(c.func).split(".")[-1].startswith(SETTERS) for c in ast.walk(node))
    sides = {}
    for side, mname, conv in (("encoder", "serialize", ("dumps", "encode")), ("decoder", "deserialize", ("loads", "decode"))):
        fi = ets.methods.get(mname)
        if fi is None:
            raise AnalysisError(f"ExtendedTypeSerDes.{mname} not found")
        par = {}
        for n in ast.walk(fi.node):
            for c in ast.iter_child_nodes(n):
                par[id(c)] = n
        sites = []
        for c in ast.walk(fi.node):
            if isinstance(c, ast.Call) and isinstance(c.func, ast.Attribute) and c.func.attr in conv:
                ctxs, cur = set(), par.get(id(c))
                while cur is not None:
                    if isinstance(cur, ast.With) and any(c is x for b in cur.body for x in ast.walk(b)):
                        ctxs |= {ast.unparse(i.context_expr) for i in cur.items if changes_settings(i.context_expr)}
                    cur = par.get(id(cur))
                sites.append((c, ctxs))
        # settings changed by plain calls (sys.set*, decimal.setcontext, ...) anywhere in the method count as enclosing everything after them: not modelled,
        # so refuse to judge a method that contains one
        setters = [ast.unparse(c.func) for c in ast.walk(fi.node) if isinstance(c, ast.Call) and ast.unparse(c.func).split(".")[-1].startswith(("set_", "setcontext", "setrecursionlimit", "setlocale"))]
        if setters:
            raise AnalysisError(f"ExtendedTypeSerDes.{mname} changes an interpreter setting with a plain call ({setters[0]}): not modelled")
        sides[side] = (fi, sites)
    n_sites = sum(len(v[1]) for v in sides.values())
    ck.floor("serdes_conversion_sites", n_sites, 5)
    for a_, b_ in (("encoder", "decoder"), ("decoder", "encoder")):
        fa, sa_ = sides[a_]
        fb, sb_ = sides[b_]
        some = set().union(*(cx for _c, cx in sa_)) if sa_ else set()
        lacking = sorted((ctx, f"line {c.lineno}: {ast.unparse(c.func)}") for ctx in some for c, cx in sb_ if ctx not in cx)
        ck.ob("R15.same-interpreter-settings-both-ways", fn_construct(fb), not lacking,
              (f"the {a_} converts under `with {lacking[0][0]}` but the {b_}'s {lacking[0][1]}(...) runs outside it: what one direction is able to convert under the changed "
               f"setting the other cannot - a value is accepted and recorded and cannot be read back (or the reverse)") if lacking else f"{len(sa_)} / {len(sb_)} conversion sites, settings {sorted(some) or 'none'}",
              cell=a_)


def _round_h2_rules(ck, sd):
    """Three rules added after review round h2 (h2_C15 #1..#3)."""
    # R12 "to any nesting depth": encoder and decoder recurse once per nesting level; whatever the encoder accepts the decoder must be able to reach.
    # Python frames per level = functions on the recursion cycle + one per GENERATOR EXPRESSION that encloses the recursive call (list / dict / set
    # comprehensions are inlined by CPython 3.12, a generator is a frame of its own). A decoder that costs more frames per level than the encoder
    # accepts values it cannot read back (tuples nested ~250..330 deep: checkpointed, then 'Deserialization failed' on every replay).
    cc = sd.classes.get("ContainerCodec")
    if cc is None or "encode" not in cc.methods or "decode" not in cc.methods:
        raise AnalysisError("ContainerCodec.encode/decode not found")

    # resolved call graph of serdes.py: receiver types from `self.x = Cls()`, `self.x: Cls | None = ...`, parameters annotated with a class of the
    # module, and properties that return such an attribute; a local alias of a bound method (`encode = self.dispatcher.encode`) counts as that method
    all_cls = sd.classes

    def ann_class(a):
        if a is None:
            return None
        for n in ast.walk(a):
            if isinstance(n, ast.Name) and n.id in all_cls:
                return n.id
            if isinstance(n, ast.Constant) and isinstance(n.value, str):
                for cn in all_cls:
                    if cn in n.value:
                        return cn
        return None

    attr_type: dict[tuple[str, str], str] = {}
    for cn, c in all_cls.items():
        for m in c.methods.values():
            for st in ast.walk(m.node):
                tgt = st.targets[0] if isinstance(st, ast.Assign) and len(st.targets) == 1 else (st.target if isinstance(st, ast.AnnAssign) else None)
                if isinstance(tgt, ast.Attribute) and isinstance(tgt.value, ast.Name) and tgt.value.id == "self":
                    t = ann_class(getattr(st, "annotation", None))
                    v = getattr(st, "value", None)
                    if t is None and isinstance(v, ast.Call) and isinstance(v.func, ast.Name) and v.func.id in all_cls:
                        t = v.func.id
                    if t is None and isinstance(v, ast.Name):
                        # self.x = <parameter annotated with a class>
                        for a in m.node.args.args:
                            if a.arg == v.id:
                                t = ann_class(a.annotation)
                    if t:
                        attr_type[(cn, tgt.attr)] = t
    for cn, c in all_cls.items():   # properties returning a typed attribute
        for mn, m in c.methods.items():
            if any(isinstance(d, ast.Name) and d.id == "property" for d in m.node.decorator_list):
                for r in ast.walk(m.node):
                    if isinstance(r, ast.Return) and isinstance(r.value, ast.Attribute) and isinstance(r.value.value, ast.Name) and r.value.value.id == "self" \
                            and (cn, r.value.attr) in attr_type:
                        attr_type[(cn, mn)] = attr_type[(cn, r.value.attr)]

    def recv_class(cn, fn_node, e):
        """class of the receiver expression e inside method fn_node of class cn (None if unknown)"""
        if isinstance(e, ast.Name):
            if e.id == "self":
                return cn
            for a in fn_node.args.args:
                if a.arg == e.id:
                    return ann_class(a.annotation) or ("TypeCodec" if "dispatcher" in a.arg and "TypeCodec" in all_cls else None)
            return None
        if isinstance(e, ast.Attribute):
            base = recv_class(cn, fn_node, e.value)
            return attr_type.get((base, e.attr)) if base else None
        return None

    def edges(cn, mn):
        fn = all_cls[cn].methods[mn].node
        alias = {}
        for st in ast.walk(fn):
            if isinstance(st, ast.Assign) and len(st.targets) == 1 and isinstance(st.targets[0], ast.Name) and isinstance(st.value, ast.Attribute):
                rc = recv_class(cn, fn, st.value.value)
                if rc and st.value.attr in all_cls[rc].methods:
                    alias[st.targets[0].id] = (rc, st.value.attr)
        gens = [g for g in ast.walk(fn) if isinstance(g, ast.GeneratorExp)]
        out = []
        for c in ast.walk(fn):
            if not isinstance(c, ast.Call):
                continue
            tgt = None
            if isinstance(c.func, ast.Attribute):
                rc = recv_class(cn, fn, c.func.value)
                if rc and c.func.attr in all_cls[rc].methods:
                    tgt = (rc, c.func.attr)
            elif isinstance(c.func, ast.Name) and c.func.id in alias:
                tgt = alias[c.func.id]
            if tgt:
                out.append((tgt, 1 + sum(1 for g in gens if any(x is c for x in ast.walk(g))), c.lineno))
        return out

    def frames_per_level(root: str, agg):
        """frames of one nesting level: ContainerCodec.<root> -> ... -> TypeCodec.<root> -> ... -> ContainerCodec.<root> (weight 1 per function entered, +1 per
        generator expression around the call; several call sites of the same edge - the arms for list / tuple / dict - are aggregated with `agg`: the
        cheapest arm for the encoder (what it accepts at most), the dearest for the decoder (what it can read back at least))"""
        import heapq
        if "TypeCodec" not in all_cls or root not in all_cls["TypeCodec"].methods:
            raise AnalysisError(f"TypeCodec.{root} not found")

        def dist(a, b):
            best, heap = {}, [(0, a, [])]
            while heap:
                d, node, path = heapq.heappop(heap)
                if node == b and d > 0:
                    return d, path
                if node in best and best[node] <= d:
                    continue
                best[node] = d
                per_target = {}
                for tgt, w, ln in edges(*node):
                    if tgt == node:
                        continue   # a one-off self call (BatchResult -> dict) is not a nesting level
                    cur = per_target.get(tgt)
                    if cur is None or agg(w, cur[0]) == w and w != cur[0]:
                        per_target[tgt] = (w, ln)
                for tgt, (w, ln) in per_target.items():
                    heapq.heappush(heap, (d + w, tgt, path + [f"{node[0]}.{node[1]}->{tgt[0]}.{tgt[1]}@{ln}" + ("(generator)" if w > 1 else "")]))
            raise AnalysisError(f"no call path {a} -> {b} in the resolved call graph of serdes.py")

        d1, p1 = dist(("ContainerCodec", root), ("TypeCodec", root))
        d2, p2 = dist(("TypeCodec", root), ("ContainerCodec", root))
        return d1 + d2, p1 + p2

    ef, ep = frames_per_level("encode", min)
    df, dp = frames_per_level("decode", max)
    ck.analysed["frames_per_nesting_level"] = {"encode": ef, "decode": df, "encode_cycle": ep, "decode_cycle": dp}
    ck.ob("R12.decoder-reaches-every-depth-the-encoder-accepts", "serdes.py:ContainerCodec.decode", df <= ef,
          f"decoding costs {df} Python frames per nesting level ({' ; '.join(dp)}), encoding only {ef} ({' ; '.join(ep)}): containers nested deeper than "
          f"recursion-limit/{df} but not deeper than recursion-limit/{ef} are serialized and checkpointed, and every replay fails with 'Deserialization failed' "
          "(RecursionError)")

    # R12b ... the same at the leaves: a leaf codec whose decode enters more Python frames than its encode leaves one nesting depth (per caller stack
    # depth) at which the value is accepted and cannot be read back (h3_C15 #1 / g1_codecs #2: base64.b64decode -> _bytes_from_decode_data is one frame
    # deeper than b64encode). Frames below a call `mod.func(...)` are read off the standard library's own source: a module-level `def` is a frame (plus
    # the deepest module-level def it calls by name), anything else (C functions, methods of C types) is none.
    import importlib.util
    _src_cache: dict[str, dict] = {}

    def py_depth(modname: str, fname: str, seen=()) -> int:
        if modname not in _src_cache:
            spec = importlib.util.find_spec(modname)
            defs = {}
            if spec is not None and spec.origin and spec.origin.endswith(".py"):
                for st in ast.parse(open(spec.origin).read()).body:
                    if isinstance(st, ast.FunctionDef):
                        defs[st.name] = st
            _src_cache[modname] = defs
        fdef = _src_cache[modname].get(fname)
        if fdef is None or fname in seen:
            return 0
        below = [py_depth(modname, c.func.id, seen + (fname,)) for c in ast.walk(fdef) if isinstance(c, ast.Call) and isinstance(c.func, ast.Name)]
        return 1 + max(below, default=0)

    imported = {a.asname or a.name: a.name for st in sd.tree.body if isinstance(st, ast.Import) for a in st.names}
    n_leaf = 0
    for cn, c in sd.classes.items():
        if not cn.endswith("Codec") or cn in ("ContainerCodec", "TypeCodec") or "encode" not in c.methods or "decode" not in c.methods:
            continue
        cost = {}
        for mn in ("encode", "decode"):
            calls = [(imported[x.func.value.id], x.func.attr, x.lineno) for x in ast.walk(c.methods[mn].node)
                     if isinstance(x, ast.Call) and isinstance(x.func, ast.Attribute) and isinstance(x.func.value, ast.Name) and x.func.value.id in imported]
            cost[mn] = max([(py_depth(m, f), f"{m}.{f}") for m, f, _ln in calls], default=(0, "-"))
        n_leaf += 1
        ck.ob("R12.leaf-decoder-no-deeper-than-leaf-encoder", f"serdes.py:{cn}.decode", cost["decode"][0] <= cost["encode"][0],
              f"decoding enters {cost['decode'][0]} Python frame(s) below the codec ({cost['decode'][1]}), encoding {cost['encode'][0]} ({cost['encode'][1]}): at the deepest "
              "nesting level the encoder still accepts, the decoder overflows - the value is checkpointed and every replay fails with 'Deserialization failed'")
    ck.floor("leaf_codecs_compared", n_leaf, 4)

    # R13 the dispatcher hands the VALUE to the codec that was selected for its type; an arm that converts it first (`bytes(obj)`) selects by a set of
    # types but records only one: the others are accepted and come back as that one ("rejected rather than silently altered")
    tcod = sd.classes.get("TypeCodec")
    if tcod is None or "encode" not in tcod.methods:
        raise AnalysisError("TypeCodec.encode not found")
    enc = tcod.methods["encode"]
    subj = [a.arg for a in enc.node.args.args][-1]
    n_arms = 0
    for case in [c for m in ast.walk(enc.node) if isinstance(m, ast.Match) for c in m.cases]:
        pats = case.pattern.patterns if isinstance(case.pattern, ast.MatchOr) else [case.pattern]
        classes = [ast.unparse(p.cls) for p in pats if isinstance(p, ast.MatchClass)]
        if not classes:
            continue
        n_arms += 1
        conv = []
        for n in ast.walk(ast.Module(body=case.body, type_ignores=[])):
            if isinstance(n, ast.Call) and isinstance(n.func, ast.Attribute) and n.func.attr == "encode":
                for a in n.args:
                    if isinstance(a, ast.Call) and isinstance(a.func, ast.Name) and any(isinstance(x, ast.Name) and x.id == subj for x in ast.walk(a)):
                        conv.append(a.func.id)
        altered = sorted(set(classes) - set(conv)) if conv else []
        ck.ob("R13.no-coercion-before-encode", fn_construct(enc), not altered,
              f"`case {' | '.join(c + '()' for c in classes)}` encodes `{conv[0] if conv else ''}(obj)`: {altered} are accepted and come back as {conv[0] if conv else '?'} - "
              "a step returning a bytearray gets bytes on replay (`.extend` -> AttributeError), a memoryview over a typed array is not even equal",
              cell="|".join(classes))
    ck.floor("dispatcher_arms", n_arms, 5)

    # R13b a leaf codec renders the value it was given. Between the type test and the rendering call the value is not replaced by another one: the parameter is
    # not re-bound, and nothing from the table of value-changing calls is applied to it (r9_C15: `obj = obj.astimezone(UTC)` before isoformat() - the same instant
    # comes back with another offset, another wall-clock reading and, for a value at the edge of the range, an OverflowError where the value used to round-trip).
    # The table lists the standard library's normalising / projecting calls on the accepted types; rendering calls (isoformat, str, b64encode, to_dict) are not in it
    ALTERING_METHODS = {"astimezone", "replace", "normalize", "quantize", "to_integral", "to_integral_value", "to_integral_exact", "lower", "upper", "strip", "lstrip",
                        "rstrip", "casefold", "title", "capitalize", "swapcase", "expandtabs", "date", "time", "timetz", "timestamp", "timetuple", "utctimetuple",
                        "toordinal", "conjugate", "__round__", "__int__", "__float__", "__trunc__", "__abs__", "__neg__", "encode", "decode", "translate", "zfill"}
    ALTERING_FUNCS = {"int", "float", "round", "abs", "bool", "sorted", "set", "frozenset", "reversed", "min", "max", "sum", "hash", "len", "ord", "chr", "complex"}
    n_leaf_enc = 0
    for cname_, cinfo_ in sd.classes.items():
        if not cname_.endswith("Codec") or "encode" not in cinfo_.methods or cinfo_.methods["encode"].cls is not cinfo_:
            continue
        fe_ = cinfo_.methods["encode"]
        params_ = [a.arg for a in fe_.node.args.args]
        if len(params_) < 2:
            continue
        subj_ = params_[-1]
        if not any(isinstance(n, ast.Call) and ast.unparse(n.func) == "EncodedValue" for n in ast.walk(fe_.node)):
            continue
        n_leaf_enc += 1
        alt_ = []
        for n in ast.walk(fe_.node):
            tgts = []
            if isinstance(n, ast.Assign):
                tgts = [x for t_ in n.targets for x in ast.walk(t_)]
            elif isinstance(n, (ast.AugAssign, ast.AnnAssign, ast.NamedExpr, ast.For)):
                tgts = list(ast.walk(n.target))
            elif isinstance(n, ast.MatchAs) and n.name == subj_:
                alt_.append(f"line {getattr(n, 'lineno', '?')}: the pattern re-binds `{subj_}`")
            elif isinstance(n, ast.withitem) and n.optional_vars is not None:
                tgts = list(ast.walk(n.optional_vars))
            if any(isinstance(x, ast.Name) and x.id == subj_ for x in tgts) and not (isinstance(n, ast.Assign) and isinstance(n.value, ast.Name) and n.value.id == subj_):
                alt_.append(f"line {n.lineno}: `{ast.unparse(n)[:70]}` replaces the value before it is rendered")
            if isinstance(n, ast.Call) and isinstance(n.func, ast.Attribute) and isinstance(n.func.value, ast.Name) and n.func.value.id == subj_ and n.func.attr in ALTERING_METHODS:
                alt_.append(f"line {n.lineno}: `{ast.unparse(n)[:70]}` is a value-changing call on the value to be recorded")
            if isinstance(n, ast.Call) and isinstance(n.func, ast.Name) and n.func.id in ALTERING_FUNCS and any(isinstance(a, ast.Name) and a.id == subj_ for a in n.args):
                par_is_test = False
                alt_.append(f"line {n.lineno}: `{ast.unparse(n)[:70]}` projects the value to be recorded")
        # (a projection used only to DECIDE - `if len(obj) > N: raise` - changes nothing that is recorded: judged where it flows)
        flows_ = set()
        for n in ast.walk(fe_.node):
            if isinstance(n, ast.Call) and ast.unparse(n.func) == "EncodedValue":
                flows_ |= {id(x) for x in ast.walk(n)}
            if isinstance(n, ast.Assign):
                flows_ |= {id(x) for x in ast.walk(n.value)}
        alt_final = []
        for n in ast.walk(fe_.node):
            if isinstance(n, ast.Call) and isinstance(n.func, ast.Name) and n.func.id in ALTERING_FUNCS and any(isinstance(a, ast.Name) and a.id == subj_ for a in n.args) and id(n) not in flows_:
                txt_ = f"line {n.lineno}: `{ast.unparse(n)[:70]}` projects the value to be recorded"
                alt_ = [a for a in alt_ if a != txt_]
        ck.ob("R13.leaf-encoder-renders-the-value-it-was-given", fn_construct(fe_), not alt_,
              "; ".join(alt_[:2]) + ": what is written is the text of ANOTHER value - it is accepted and comes back changed (or is rejected where it used to round-trip)", cell=cname_)
    ck.floor("leaf_and_container_encoders", n_leaf_enc, 5)

    # R14 an aware datetime is written with isoformat(): only the numeric UTC offset of its tzinfo survives, fromisoformat() rebuilds a fixed-offset
    # timezone. A zone with rules (ZoneInfo, any tzinfo with DST) comes back as a different object that is unequal in the repeated hour and gives other
    # results under wall-clock arithmetic. Necessary condition for either remedy (reject, or record the zone): the encoder looks at .tzinfo
    dtc = sd.classes.get("DateTimeCodec")
    if dtc is None or "encode" not in dtc.methods:
        raise AnalysisError("DateTimeCodec.encode not found")
    e2 = dtc.methods["encode"]
    writes_iso = any(isinstance(n, ast.Call) and isinstance(n.func, ast.Attribute) and n.func.attr == "isoformat" for n in ast.walk(e2.node))
    looks_tz = any(isinstance(n, ast.Attribute) and n.attr in ("tzinfo", "utcoffset", "tzname", "key") for n in ast.walk(e2.node))
    ck.ob("R14.zone-of-aware-datetime-kept-or-rejected", fn_construct(e2), not writes_iso or looks_tz,
          "aware datetimes are written with isoformat() and the encoder never looks at tzinfo: a datetime in ZoneInfo('America/New_York') is accepted and comes back "
          "with tzinfo=timezone(-5h) - unequal to the original in the repeated hour at the end of DST, and `restored + timedelta(days=180)` is a different instant")


if __name__ == "__main__":
    main(PID, build)
