"""C16 - oversized results stay out of checkpoints and responses yet are fully recovered (DESIGN.md section 17)."""

from __future__ import annotations

import ast

from sa.common import fn_construct, trace_sig
from sa.model import AnalysisError, load_program
from sa.protocol import ABSENT, ProtocolModel, context_method_traces, user_events, wrapper_traces
from sa.report import Check, main
from sa.values import NONE, Const, EnumVal, Obj, SeqVal, Sym, TypeRef, UserFn

PID = "C16"


def short_cls(fq: str) -> str:
    return fq.rsplit(".", 1)[-1].rstrip("*")


def batch_result_readers(prog) -> set[str]:
    """Classes whose __call__ reads BatchResult-only attributes of its argument (summary generators for batch results)."""
    br = prog.cls("concurrency.models", "BatchResult")
    members = set(br.methods) | {f.name for f in br.fields}
    out = set()
    for c in prog.classes.values():
        call = c.methods.get("__call__")
        if call is None or len(call.node.args.args) < 2:
            continue
        p = call.node.args.args[1].arg
        used = {n.attr for n in ast.walk(call.node) if isinstance(n, ast.Attribute) and isinstance(n.value, ast.Name) and n.value.id == p}
        if used & (members - {"status"}):
            out.add(c.fq)
    return out


def build() -> Check:
    prog = load_program()
    pm = ProtocolModel(prog)
    ck = Check(
        PID, "oversized results",
        "Child-context executor table: on the path where len(serialised) > CHECKPOINT_SIZE_LIMIT the SUCCEED record carries the summary / '' and "
        "ReplayChildren=True, otherwise the full serialisation and False; the SUCCEEDED+ReplayChildren cell re-runs the body without any record. "
        "map/parallel handlers dispatch to replay() iff the context is SUCCEEDED and replay() maps each child's recorded status to one item. "
        "Field-flow of the BatchResult summary generators into ChildConfig objects. Wrapper: oversized result/error is recorded synchronously "
        "before the status is returned with an empty payload.",
        ["equality of the rebuilt value and absence of new records during a real replay depend on the children's own cells (C01/C11)",
         "byte-vs-character length is decided for the wrapper's response (json.dumps ASCII-only or measured encoded); for a child context's payload produced by a user serdes it is not"],
        "one obligation per rule and site",
    )
    child = pm.executors.get("ChildOperationExecutor")
    if child is None:
        raise AnalysisError("ChildOperationExecutor not found")
    c_child = "operation/child.py:ChildOperationExecutor"
    limit_v = None
    n_large = n_small = 0
    size_keys: set[str] = set()
    for st in (ABSENT, "STARTED"):
        traces = pm.run_cell(child, st, faults=False)
        bad = []
        for t in traces:
            succ = [e for e in t.kinds("CKPT") if e.data.get("action") == "SUCCEED"]
            if not succ:
                continue
            size = [(k, v) for k, v in t.pc if k.startswith("len(SER#")]
            if not size:
                bad.append(("a result is recorded without its size having been compared with the checkpoint limit", t))
                continue
            k, large = size[-1]
            size_keys.add(k)
            op, lim = k.split(") ")[-1].split(" ")[0:2] if ") " in k else ("?", "?")
            limit_v = lim
            pv = succ[-1].data.get("payload_v")
            opts = succ[-1].data.get("options", {}).get("context_options")
            rc = opts.fields.get("replay_children") if isinstance(opts, Obj) else None
            is_full = isinstance(pv, Sym) and pv.parts and pv.parts[0] == "SER"
            if large is True and op == ">" or large is False and op == "<=":
                n_large += 1
                if is_full:
                    bad.append(("the full serialisation is recorded although it exceeds the checkpoint limit", t))
                if not (isinstance(rc, Const) and rc.value is True):
                    bad.append((f"oversized result recorded with ReplayChildren={rc.key() if rc else None}", t))
                if not (isinstance(pv, Const) and pv.value == "" or (isinstance(pv, Sym) and "summary_generator" in pv.k)):
                    bad.append((f"oversized result recorded as {pv.key() if pv else None} (expected summary or '')", t))
                if isinstance(pv, Sym) and "summary_generator" in pv.k:
                    us = [e for e in user_events(t, "summary")]
                    if not us or us[-1].data["args"][:1] != [t.value.key() if t.outcome == "return" else None]:
                        bad.append(("the summary generator is not applied to the result being returned", t))
            else:
                n_small += 1
                if not is_full:
                    bad.append((f"a result within the limit is recorded as {pv.key() if pv else None}", t))
                if not (isinstance(rc, Const) and rc.value is False):
                    bad.append((f"a fully recorded result is flagged ReplayChildren={rc.key() if rc else None}", t))
        ck.ob("R1.summary-not-payload", c_child, not bad, (bad[0][0] + ": " + trace_sig(bad[0][1])) if bad else "", cell=st)
    ck.floor("large_branch_traces", n_large, 1)
    ck.floor("small_branch_traces", n_small, 1)
    ck.ob("R1.limit-is-256KiB", c_child, limit_v == str(256 * 1024), f"checkpoint size limit evaluates to {limit_v}")
    # units (h2_C16 #1): what is measured is the text a SerDes returned - any SerDes, not only the default one whose output is ASCII. len() of a str
    # counts characters; the limit is a byte count. The measured expression must be an encoding of the text.
    chars = sorted(k for k in size_keys if ".encode" not in k.split(") ")[0])
    ck.analysed["checkpoint_size_expressions"] = sorted(size_keys)
    ck.ob("R1.limit-compared-with-bytes", c_child, not chars,
          f"`{chars[0]}`: the number of characters of the serialized result is compared with the byte limit - with a SerDes that emits non-ASCII text "
          "(PassThroughSerDes, json.dumps(ensure_ascii=False)) a result of up to four times the limit is recorded in full instead of being summarised" if chars else "")

    # R2 replay-children cell
    traces = pm.run_cell(child, "SUCCEEDED", faults=False)
    bad = []
    n_rc = 0
    for t in traces:
        if not any("replay_children" in k and v is True for k, v in t.pc):
            continue
        n_rc += 1
        us = user_events(t, "user")
        body_exc = any(e.data.get("outcome", "").startswith("builtins.Exception") for e in us)
        if len(us) != 1:
            bad.append(("the body of a summarised context must be re-traversed exactly once", t))
        if t.kinds("ORPHANCHECK"):
            bad.append(("the re-traversal of a summarised context asks the orphan state first: everything beneath a context that completed in this invocation is "
                        "marked as done, so a branch that is resumed in-process and traverses its own completed, nested summarised contexts again is rejected as "
                        "orphaned (it stays RUNNING and the invocation never returns)", t))
        if (t.kinds("CKPT") and not body_exc) or t.kinds("SER"):
            bad.append(("a summarised context sends a record / re-serialises on replay", t))
        if t.outcome == "return" and not t.value.key().startswith("ret:func"):
            bad.append((f"replay returns {t.value.key()} instead of the rebuilt result", t))
    # ... the entry query every operation asks (raise_if_in_orphaned_branch) is harmless for a re-traversal only if it judges the nearest OPEN enclosing
    # context and looks through contexts recorded SUCCEEDED - evaluated on the code itself for small chains
    from sa.common import branch_query_scenarios
    bq16 = branch_query_scenarios(prog, pm)
    wrong_pass = [f"{d}: {g}" for d, g, w in bq16 if w == "passes" and g != w]
    if bq16:
        ck.ob("R2.entry-query-lets-a-retraversal-pass", "state.py:ExecutionState.raise_if_in_orphaned_branch", not wrong_pass,
              (f"{len(wrong_pass)}/{len(bq16)} scenarios: " + wrong_pass[0] + " - the healthy branch is dropped as orphaned work and the invocation never returns")
              if wrong_pass else f"{sum(1 for _d, _g, w in bq16 if w == 'passes')} re-traversal scenarios")
    # ... and what a re-traversed body can legitimately find OPEN beneath its (completed) context are operations whose executor runs no user code and
    # does not wait for the outcome (a callback that was created and handed out but not awaited there): they are entered again on every re-traversal,
    # and - when the context completed in this invocation - sit beneath a context marked as done. A read-only orphan query has no user function to protect
    # there, and rejects the healthy branch (it is dropped as orphaned work and the invocation never returns).
    from sa.common import applicable_cells
    inert: dict[str, list] = {}
    for name_, ci_, _ot, st_ in applicable_cells(pm):
        tr_ = pm.run_cell(ci_, st_, faults=False)
        d = inert.setdefault(name_, [ci_, False, []])
        d[1] = d[1] or any(user_events(t, "user") for t in tr_)
        if st_ != ABSENT:
            d[2] += [(st_, t) for t in tr_ if t.kinds("ORPHANCHECK")]
    n_inert = 0
    for name_, (ci_, has_user, asked) in inert.items():
        if has_user:
            continue
        n_inert += 1
        ck.ob("R2.no-orphan-query-without-user-code", f"{ci_.module.relpath.split('aws_durable_execution_sdk_python/')[-1]}:{ci_.name}",
              not asked, (f"an operation found {asked[0][0]} asks the orphan state although its executor runs no user code: inside a summarised context that is "
                          "traversed again in the invocation in which it completed (everything beneath it is marked as done) an operation that is still open - a "
                          "callback created but not awaited there - is rejected, the healthy branch is dropped as orphaned and the invocation never returns: "
                          + trace_sig(asked[0][1])) if asked else "")
    ck.floor("executors_without_user_code", n_inert, 3)

    # ... and a recorded value may only be delivered without re-running the body once the path has established that
    # the context is NOT in replay-children mode (a summarised context records '' / a summary, not its result)
    for t in traces:
        if user_events(t, "user") or t.outcome != "return":
            continue
        not_rc = any(("replay_children" in k and v is False) or (k.endswith("context_details is None") and v is True) for k, v in t.pc)
        if not not_rc:
            bad.append(("a SUCCEEDED context delivers its recorded payload without having checked the ReplayChildren flag: a summarised "
                        "context would return the summary / None instead of its rebuilt result", t))
    ck.floor("replay_children_traces", n_rc, 1)
    ck.ob("R2.replay-children-cell", c_child, not bad, (bad[0][0] + ": " + trace_sig(bad[0][1])) if bad else "", cell="SUCCEEDED")

    # R3 map / parallel handler dispatch + replay mapping ------------------------------------------
    cex = prog.cls("concurrency.executor", "ConcurrentExecutor")
    f_exec, f_replay = cex.methods.get("execute"), cex.methods.get("replay")
    f_item = cex.methods.get("_execute_item_in_child_context")
    if not (f_exec and f_replay and f_item):
        raise AnalysisError("ConcurrentExecutor.execute/replay/_execute_item_in_child_context not found")

    def h_exec(it, fn, sv, a, k, n):
        it.emit("DISPATCH", n, what="execute", executor_v=sv)
        return Sym("batch:execute")

    def h_replay(it, fn, sv, a, k, n):
        it.emit("DISPATCH", n, what="replay", executor_v=sv)
        return Sym("batch:replay")

    executors_seen = {}
    for mod, hname in (("operation.map", "map_handler"), ("operation.parallel", "parallel_handler")):
        h = prog.func(mod, hname)
        for st in pm.statuses:
            def kw(it, state, h=h):
                out = {}
                for p in h.node.args.args:
                    out[p.arg] = state if p.arg == "execution_state" else Sym(p.arg)
                out["config"] = NONE
                ident = prog.cls("identifier", "OperationIdentifier")
                o = Obj(ident, label="operation_identifier")
                o.fields.update(operation_id=Sym("opid", TypeRef(prim="str")), parent_id=Sym("pid"), name=Sym("nm"))
                out["operation_identifier"] = o
                return out

            trs = pm.run_function(h, None, kw, cell=(hname, st), status=st, optype="CONTEXT",
                                  extra_hooks={f_exec.fq: h_exec, f_replay.fq: h_replay})
            whats = {e.data["what"] for t in trs for e in t.kinds("DISPATCH")}
            for t in trs:
                for e in t.kinds("DISPATCH"):
                    executors_seen[hname] = e.data["executor_v"]
            want = {"replay"} if st == "SUCCEEDED" else {"execute"}
            ck.ob("R3.handler-dispatch", fn_construct(h), whats == want, f"status {st}: handler dispatches to {sorted(whats)}, expected {sorted(want)}", cell=st)

    # replay(): one item per executable, status mapped from the child's recorded status
    exe_cls = prog.cls("concurrency.models", "Executable")
    for st, want in (("SUCCEEDED", "SUCCEEDED"), ("FAILED", "FAILED"), ("STARTED", "STARTED"), ("PENDING", "STARTED"), (ABSENT, "STARTED")):
        def h_item(it, fn, sv, a, k, n):
            it.emit("ITEM", n, index=(a[1] if len(a) > 1 else k.get("executable")).key())
            return Sym("item_result")

        def self_factory(it, state):
            o = Obj(cex, label="cexec")
            e = Obj(exe_cls, label="exe0")
            e.fields.update(index=Sym("exe0.index", TypeRef(prim="int")), func=Sym("exe0.func"))
            o.fields.update(executables=SeqVal("list", [e]), completion_config=Sym("cc"))
            return o

        def kw(it, state):
            ctx = Sym("executor_context", TypeRef(classes=(prog.cls("context", "DurableContext").fq,)))
            return {"execution_state": state, "executor_context": ctx}

        trs = pm.run_function(f_replay, self_factory, kw, cell=("replay", st), status=st, optype="CONTEXT", extra_hooks={f_item.fq: h_item})
        bad = []
        for t in trs:
            v = t.value if t.outcome == "return" else None
            items = v.fields.get("all") if isinstance(v, Obj) else None
            if not (isinstance(items, SeqVal) and len(items.items) == 1 and isinstance(items.items[0], Obj)):
                bad.append((f"replay() result is {v.key() if v else t.exc_class()}", t))
                continue
            bi = items.items[0]
            stv = bi.fields.get("status")
            if not (isinstance(stv, EnumVal) and stv.name == want):
                bad.append((f"child recorded {st} is reported as {stv.key() if stv else None}", t))
            if bi.fields.get("index", NONE).key() != "exe0.index":
                bad.append((f"item index is {bi.fields.get('index', NONE).key()}", t))
            if want == "SUCCEEDED" and bi.fields.get("result", NONE).key() != "item_result":
                bad.append(("a succeeded child's value is not taken from its own (recorded) context", t))
            no_error_recorded = any(k.startswith("op@0.0.context_details") and k.endswith("is None") and v is True for k, v in t.pc)
            if want == "FAILED" and not bi.fields.get("error", NONE).key().startswith("op@0.0.context_details.error") and not no_error_recorded:
                bad.append((f"a failed child's error is {bi.fields.get('error', NONE).key()}, not the recorded one", t))
            if want != "SUCCEEDED" and t.kinds("ITEM"):
                bad.append(("a child that did not succeed is executed during replay", t))
        ck.ob("R3.replay-mapping", fn_construct(f_replay), not bad and trs, (bad[0][0] + ": " + trace_sig(bad[0][1])) if bad else "", cell=st)

    # R4 summary generator wiring ------------------------------------------------------------------
    readers = batch_result_readers(prog)
    ck.floor("batch_result_summary_generators", len(readers), 2)
    ck.floor("handlers_with_executor", len(executors_seen), 2)
    process_fn = pm.base_exec.methods["process"]
    for hname, ex in executors_seen.items():
        def h_process(it, fn, sv, a, k, n):
            it.emit("PROCESS", n, executor_v=sv)
            return Sym("item_value")

        def kw(it, state, ex=ex):
            ctx = Obj(prog.cls("context", "DurableContext"), label="branch_owner_ctx")
            ctx.fields.update(state=state, _parent_id=Sym("owner_parent"), logger=Sym("logger", TypeRef(classes=(prog.cls("logger", "Logger").fq,))),
                              execution_context=Sym("ec"), lambda_context=Sym("lc"))
            e = Obj(exe_cls, label="exe0")
            e.fields.update(index=Sym("exe0.index", TypeRef(prim="int")), func=Sym("exe0.func"))
            return {"executor_context": ctx, "executable": e}

        trs = pm.run_function(f_item, lambda it, state, ex=ex: ex, kw, cell=("item", hname),
                              extra_hooks={process_fn.fq: h_process, prog.func("context", "DurableContext._create_step_id_for_logical_step").fq:
                                           (lambda it, fn, sv, a, k, n: Sym("branch_id", TypeRef(prim="str")))})
        bad = []
        np_ = 0
        for t in trs:
            for e in t.kinds("PROCESS"):
                np_ += 1
                cfgv = e.data["executor_v"].fields.get("config") if isinstance(e.data["executor_v"], Obj) else None
                sg = cfgv.fields.get("summary_generator") if isinstance(cfgv, Obj) else None
                if isinstance(sg, Obj) and sg.cls_fq in readers:
                    bad.append((f"{sg.cls_name} (reads BatchResult attributes) is attached to a single branch's context, whose result is not a BatchResult", t))
        ck.ob("R4.generator-attached-to-batch-context", "concurrency/executor.py:ConcurrentExecutor._execute_item_in_child_context",
              not bad and np_ > 0, (bad[0][0]) if bad else f"{np_} branch contexts", cell=hname)
    # the batch-level context (DurableContext.map / parallel) is where a BatchResult is produced
    ctxt = context_method_traces(pm)
    for m in ("map", "parallel"):
        got = set()
        for t in ctxt.get(m, []):
            for e in t.kinds("PROCESS"):
                cfgv = e.data["executor_v"].fields.get("config") if isinstance(e.data["executor_v"], Obj) else None
                sg = cfgv.fields.get("summary_generator") if isinstance(cfgv, Obj) else None
                got.add(sg.cls_name if isinstance(sg, Obj) else (sg.key() if sg is not None else "None"))
        ck.analysed[f"{m}_context_summary_generator"] = sorted(got)


    # R5 wrapper oversized result / error ---------------------------------------------------------
    wt = wrapper_traces(pm, faults=True)
    wrapper = prog.func("execution", "durable_execution.<locals>.wrapper")
    bad = []
    n_big = 0
    lim = set()
    for t in wt:
        big = [(k, v) for k, v in t.pc if k.startswith("len(json.dumps#") and " > " in k]
        for k, _ in big:
            lim.add(k.rsplit(" > ", 1)[1])
        if not big or big[-1][1] is not True or t.outcome != "return" or not hasattr(t.value, "items"):
            continue
        n_big += 1
        status = t.value.items.get("Status")
        cks = [e for e in t.kinds("CKPT") if e.data.get("type") == "EXECUTION" and e.data.get("sync")]
        accepted = [e for e in cks if e.data.get("outcome") == "ok"]
        sv = status.value if isinstance(status, Const) else None
        if sv == "SUCCEEDED":
            if not accepted or accepted[-1].data["action"] != "SUCCEED":
                bad.append(("oversized result: SUCCEEDED returned without an accepted synchronous EXECUTION SUCCEED", t))
            r = t.value.items.get("Result")
            if not (isinstance(r, Const) and r.value == ""):
                bad.append((f"oversized result is still returned in the response ({r.key() if r else None})", t))
        elif sv == "FAILED" and accepted:
            if accepted[-1].data["action"] != "FAIL" or "Error" in t.value.items:
                bad.append(("oversized error: response still carries the error / wrong record", t))
        elif sv == "FAILED" and not cks:
            bad.append(("oversized error returned without recording it", t))
    ck.floor("wrapper_oversize_traces", n_big, 1)
    ck.ob("R5.wrapper-oversize", fn_construct(wrapper), not bad, (bad[0][0] + ": " + trace_sig(bad[0][1])[-400:]) if bad else "")
    # units: the limit is a byte count and len() of a str counts characters - the two agree only for ASCII-only text, which json.dumps
    # guarantees with its default ensure_ascii=True (a str measured with ensure_ascii=False must be encoded before it is measured)
    badu = []
    n_meas = 0
    for t in wt:
        import re as _re
        sized = [k for k, v in t.pc if k.startswith("len(") and "json.dumps#" in k and " > " in k]
        measured = {m for k in sized if ".encode" not in k for m in _re.findall(r"^len\(json\.dumps#(\d+)", k)}
        n_meas += sum(1 for k in sized if ".encode" in k)  # measured as bytes
        for e in t.kinds("DUMPS"):
            if str(e.data["n"]) in measured:
                n_meas += 1
                ea = e.data.get("kwargs", {}).get("ensure_ascii")
                if ea not in (None, "True"):
                    badu.append((f"the response is measured with len() of json.dumps(..., ensure_ascii={ea}): a character count is compared with the byte "
                                 "limit, so a large non-ASCII result is returned inline above the limit instead of being recorded", t))
    ck.floor("measured_dumps", n_meas, 1)
    ck.ob("R5.size-measured-in-bytes", fn_construct(wrapper), not badu, badu[0][0] if badu else f"{n_meas} measured json.dumps calls")
    # what is compared with the limit must be the response, not the result text alone: the result travels as a JSON *string* inside the response and
    # every quote / backslash in it is escaped once more (a result of 5.7 M characters full of small records is a 6.8 MB response)
    bad_m = []
    n_inline = 0
    for t in wt:
        if t.outcome != "return" or not hasattr(t.value, "items"):
            continue
        stv = t.value.items.get("Status")
        inline_payload = (isinstance(stv, Const) and stv.value == "SUCCEEDED" and not (isinstance(t.value.items.get("Result"), Const) and t.value.items["Result"].value == "")) \
            or (isinstance(stv, Const) and stv.value == "FAILED" and "Error" in t.value.items)
        if not inline_payload:
            continue
        n_inline += 1
        sized = [k for k, v in t.pc if k.startswith("len(") and "json.dumps#" in k and " > " in k and v is False]
        if any(k.startswith("truthy(json.dumps#") and v is False for k, v in t.pc):
            continue  # json.dumps never returns an empty text: infeasible path
        if not sized:
            if stv.value == "FAILED" and any(e.kind == "FAILCHECK" and e.data.get("outcome") != "ok" for e in t.events):
                continue  # a checkpoint failure report (small, fixed fields)
            bad_m.append((f"{stv.value} is answered inline without any comparison of the response size with the limit", t, "unchecked:" + stv.value))
            continue
        if not any("'Status'" in k for k in sized):
            bad_m.append((f"{stv.value} is answered inline after measuring `{sized[-1][:70]}...`: the result text alone, not the response that carries it as an escaped string", t, "inner"))
    ck.floor("inline_answers", n_inline, 3)
    inner = [b for b in bad_m if b[2] == "inner"]
    ck.ob("R5.size-measures-the-response", fn_construct(wrapper), not inner, inner[0][0] if inner else f"{n_inline} inline answers")
    for status_ in ("SUCCEEDED", "FAILED"):
        un_ = [b for b in bad_m if b[2] == "unchecked:" + status_]
        classes_ = sorted({short_cls(e.data.get("outcome", "?")) for b in un_ for e in b[1].events if e.kind == "RESULT"})
        ck.ob("R5.inline-answer-is-size-checked", fn_construct(wrapper), not un_,
              (un_[0][0] + f" (handler outcomes: {', '.join(classes_[:8])}{' ...' if len(classes_) > 8 else ''})") if un_ else "", cell=status_)
    ck.ob("R5.response-limit", fn_construct(wrapper), lim == {str(6 * 1024 * 1024 - 50)}, f"response size limit evaluates to {sorted(lim)}")
    # R3 the rebuild must be able to go as deep as the first delivery went (h3_C16 #1): execute() runs every branch on a fresh pool thread (a fresh Python
    # stack per nesting level), replay() walks the recorded branches in the caller's thread and a nested summarised map is walked inside that walk (about
    # 15 frames per level): from ~66 nested summarised map/parallel levels on, the first delivery succeeds and every replay answers FAILED (RecursionError).
    cex16 = prog.cls("concurrency.executor", "ConcurrentExecutor")
    rp16 = cex16.methods.get("replay")
    if rp16 is None:
        raise AnalysisError("ConcurrentExecutor.replay not found")
    inline = [c for c in ast.walk(rp16.node) if isinstance(c, ast.Call) and isinstance(c.func, ast.Attribute) and c.func.attr == "_execute_item_in_child_context"]
    pooled = any(isinstance(c, ast.Call) and isinstance(c.func, ast.Attribute) and c.func.attr in ("submit", "map") for c in ast.walk(rp16.node))
    ck.ob("R3.rebuild-reaches-the-depth-of-the-first-delivery", fn_construct(rp16), pooled or not inline,
          "replay() re-traverses the recorded branches in the calling thread: every nesting level of summarised map / parallel adds its frames to one stack, while "
          "the first delivery started each level on a fresh pool thread - a nesting that was delivered (and recorded) cannot be rebuilt beyond ~66 levels")
    return ck


if __name__ == "__main__":
    main(PID, build)
