"""C04 - at-most-once steps start their function at most once per attempt (DESIGN.md section 5)."""

from __future__ import annotations

from sa.common import APPLICABLE, trace_sig
from sa.model import AnalysisError, load_program
from sa.protocol import ABSENT, ProtocolModel, is_suspend, user_events
from sa.report import Check, main
from sa.values import Obj

PID = "C04"
MODE_KEY = "config.step_semantics=?StepSemantics"
AT_MOST = "AT_MOST_ONCE_PER_RETRY"


def build() -> Check:
    prog = load_program()
    pm = ProtocolModel(prog)
    ci = pm.executors.get("StepOperationExecutor")
    if ci is None:
        raise AnalysisError("StepOperationExecutor not found")
    sem = prog.cls("config", "StepSemantics")
    if AT_MOST not in sem.enum_members:
        raise AnalysisError("StepSemantics.AT_MOST_ONCE_PER_RETRY not found")
    construct = "operation/step.py:StepOperationExecutor"
    ck = Check(
        PID, "at-most-once steps",
        "The step executor is interpreted for every backend status it can be found in, with the step semantics "
        "enumerated; for the at-most-once mode every trace that reaches the user function must contain an accepted "
        "synchronous STEP/START record issued earlier in the same process() call, the STARTED cell must never reach the "
        "function but go through the retry strategy with a StepInterruptedError, and a START whose refreshed status is "
        "not STARTED must abort.",
        ["the backend's attempt counter and READY/STARTED transitions behave as documented",
         "a trace that never consults step_semantics applies to both modes"],
        "one obligation per (rule, cell)",
    )
    n_user = 0
    cells = [ABSENT, *[s for s in APPLICABLE["STEP"] if s not in ("SUCCEEDED", "FAILED")]]
    for st in cells:
        traces = pm.run_cell(ci, st, faults=True)
        bad1, bad2, bad3 = [], [], []
        for t in traces:
            mode = dict(t.pc).get(MODE_KEY)
            if mode not in (None, AT_MOST):
                continue
            evs = t.events
            users = [i for i, e in enumerate(evs) if e.kind == "USER" and e in user_events(t, "user")]
            starts_ok = [i for i, e in enumerate(evs) if e.kind == "CKPT" and e.data.get("type") == "STEP"
                         and e.data.get("action") == "START" and e.data.get("sync") and e.data.get("outcome") == "ok"]
            for u in users:
                n_user += 1
                if not any(s < u for s in starts_ok):
                    bad1.append(t)
            if len(users) > 1:
                bad1.append(t)
            if st == "STARTED":
                if users:
                    bad2.append((t, "function entered for an attempt found STARTED"))
                strat = user_events(t, "strategy")
                if not strat and t.outcome == "raise" and not (t.exc_class() or "").endswith(("BackgroundThreadError", "OrphanedChildException")):
                    bad2.append((t, "interrupted attempt not routed through the retry strategy"))
                for e in strat:
                    a0 = e.data["arg_values"][0] if e.data.get("arg_values") else None
                    if not (isinstance(a0, Obj) and a0.cls_name == "StepInterruptedError"):
                        bad2.append((t, "retry strategy consulted with something else than StepInterruptedError"))
                ok_end = False
                cks = [e for e in evs if e.kind == "CKPT" and e.data.get("outcome") == "ok" and e.data.get("sync")]
                if is_suspend(prog, t) and cks and cks[-1].data["action"] == "RETRY":
                    ok_end = True
                if t.outcome == "raise" and not is_suspend(prog, t) and ((cks and cks[-1].data["action"] == "FAIL") or not strat
                                                                          or any(e.data.get("outcome", "").startswith("builtins") for e in strat)
                                                                          or any(e.kind == "CKPT" and e.data.get("outcome") != "ok" for e in evs)):
                    ok_end = True
                if not ok_end:
                    bad2.append((t, "interrupted attempt neither retried (RETRY+suspend) nor failed (FAIL+raise)"))
            # R3: START accepted but refreshed status is not STARTED -> must not run the function
            reads = [e for e in evs if e.kind == "READ"]
            if starts_ok:
                refreshed = dict(t.pc).get("op@1.0.status=?OperationStatus")
                # the path must have *established* that the refreshed status is STARTED before entering
                if refreshed != "STARTED" and users:
                    bad3.append(t)
        ck.ob("R1.sync-start-before-function", construct, not bad1,
              (f"{len(bad1)} trace(s) enter the step function without an accepted synchronous START record in this call: "
               + trace_sig(bad1[0])) if bad1 else "", cell=st)
        if st == "STARTED":
            ck.ob("R2.started-means-interrupted", construct, not bad2, (bad2[0][1] + ": " + trace_sig(bad2[0][0])) if bad2 else "", cell=st)
        if st == ABSENT or st == "READY":
            ck.ob("R3.refreshed-status-must-be-started", construct, not bad3, trace_sig(bad3[0]) if bad3 else "", cell=st)
        for t in traces[:1]:
            ck.sample({"cell": st, "trace": trace_sig(t)})
    # R5 the mode the executor reads is the mode the caller chose. Everything above starts at `config.step_semantics` inside the executor; on the way there the
    # context API may put a default in place of a missing config, but a config that is rebuilt from the caller's one must carry every field - a field left out comes
    # back as its default (r9_C04: StepConfig(retry_strategy=.., serdes=config.serdes) in DurableContext.step: an at-most-once step with a strategy of its own runs
    # at-least-once, START is no longer awaited and an interrupted attempt is simply entered again)
    from sa.common import fn_construct, same_class_config_copies
    import ast as _ast
    copies, n_cfg_funcs = same_class_config_copies(prog)
    ck.analysed["functions_taking_a_config"] = n_cfg_funcs
    ck.floor("functions_taking_a_config", n_cfg_funcs, 8)
    lost = [(m_, fn_, c_, ci_, miss) for m_, fn_, c_, ci_, miss in copies if miss]
    ck.analysed["same_class_config_copies"] = len(copies)
    ck.ob("R5.callers-config-reaches-the-executor-whole", "context.py:DurableContext.step" if not lost else f"{lost[0][0].relpath}:{lost[0][1].name}", not lost,
          "; ".join(f"{m_.relpath}:{fn_.name} line {c_.lineno}: `{_ast.unparse(c_)[:90]}` rebuilds the caller's {ci_.name} without {miss}" for m_, fn_, c_, ci_, miss in lost[:2]) +
          ": the fields left out fall back to their defaults - for step_semantics the default is at-least-once, so an at-most-once step loses its awaited START and its "
          "interrupted-attempt handling" if lost else f"{len(copies)} same-class copies in {n_cfg_funcs} functions that take a config")
    # ... and the executor is handed that very object: the `config=` argument of the StepOperationExecutor call in DurableContext.step is the parameter (or the name the
    # default was put into), not an expression
    stepfn = prog.cls("context", "DurableContext").methods.get("step")
    if stepfn is None:
        raise AnalysisError("DurableContext.step not found")
    ex_calls = [c_ for c_ in _ast.walk(stepfn.node) if isinstance(c_, _ast.Call) and _ast.unparse(c_.func).endswith("StepOperationExecutor")]
    if len(ex_calls) != 1:
        raise AnalysisError(f"DurableContext.step: expected one StepOperationExecutor(...) call, found {len(ex_calls)}")
    cfg_kw = next((k.value for k in ex_calls[0].keywords if k.arg == "config"), None)
    cfg_param = next((a.arg for a in stepfn.node.args.args + stepfn.node.args.kwonlyargs if a.annotation is not None and "StepConfig" in _ast.unparse(a.annotation)), None)
    rebinds = [st for st in _ast.walk(stepfn.node) if isinstance(st, (_ast.Assign, _ast.AnnAssign)) and
               any(isinstance(x, _ast.Name) and x.id == cfg_param for t_ in (st.targets if isinstance(st, _ast.Assign) else [st.target]) for x in _ast.walk(t_))]
    bad_rb = []
    for st in rebinds:
        v_ = st.value
        plain_default = isinstance(v_, _ast.Call) and _ast.unparse(v_.func) == "StepConfig" and not v_.args and not v_.keywords
        full_copy = isinstance(v_, _ast.Call) and any(c_ is v_ and not miss for _, _, c_, _, miss in copies)
        repl = isinstance(v_, _ast.Call) and _ast.unparse(v_.func).endswith("replace") and v_.args and _ast.unparse(v_.args[0]) == cfg_param and \
            not any(k.arg == "step_semantics" for k in v_.keywords)
        if not (plain_default or full_copy or repl):
            bad_rb.append(f"line {st.lineno}: `{_ast.unparse(st)[:80]}`")
    ck.ob("R5.executor-is-handed-the-callers-config", fn_construct(stepfn), isinstance(cfg_kw, _ast.Name) and cfg_kw.id == cfg_param and not bad_rb,
          (f"the executor's config is `{_ast.unparse(cfg_kw) if cfg_kw is not None else '<missing>'}`, not the parameter `{cfg_param}`" if not (isinstance(cfg_kw, _ast.Name) and cfg_kw.id == cfg_param)
           else "; ".join(bad_rb[:2]) + f": `{cfg_param}` is replaced by something that is neither the plain default for a missing config, a complete copy, nor dataclasses.replace() "
           "keeping step_semantics"))
    ck.floor("function_entries_judged", n_user, 3)
    if ck.tier == "thorough":
        # cross-invocation composition: every history reachable through crashes at every event / suspensions / backend
        # transitions, for the at-most-once mode: the function is never entered twice for one attempt number
        from sa.compose import explore

        all_cells = {s_: pm.run_cell(ci, s_, faults=True) for s_ in pm.statuses}
        seen, findings, n_steps = explore("STEP", all_cells, MODE_KEY, AT_MOST)
        second = [f for f in findings if f[0] == "second-entry"]
        ck.analysed["history_states"] = len(seen)
        ck.analysed["history_transitions"] = n_steps
        ck.ob("R4.at-most-once-across-invocations", construct, not second,
              (second[0][1] + " | witness: " + " / ".join(second[0][2])[-500:]) if second else f"{len(seen)} abstract history states, {n_steps} transitions")
        ck.sample({"history_states": [f"{h.status}/entered={h.entered}/done={h.done}" for h in list(seen)[:8]]})
    return ck


if __name__ == "__main__":
    main(PID, build)
