"""C11 - the update stream is always a valid operation history (DESIGN.md section 12)."""

from __future__ import annotations

import ast

from sa.cfg import walk_shallow
from sa.common import applicable_cells, fn_construct, terminal_statuses, trace_sig
from sa.model import AnalysisError, load_program
from sa.protocol import ABSENT, ProtocolModel, user_events, wrapper_traces
from sa.report import Check, main

PID = "C11"


def cls_construct(ci):
    return f"{ci.module.relpath.split('aws_durable_execution_sdk_python/')[-1]}:{ci.name}"


def accept(status: str, actions: list[str], terminal: set[str]) -> str | None:
    """Lifecycle automaton of the statement. Returns None if accepted else the reason."""
    state = status
    started_here = False
    for a in actions:
        if state in terminal or state == "DONE":
            return f"{a} sent for an operation that is terminal ({state})"
        if state == "PENDING":
            return f"{a} sent while the operation is PENDING (waiting for its retry timer)"
        if state == "PENDING'":
            return f"{a} sent after RETRY in the same call"
        if a == "START":
            if state in (ABSENT, "READY") and not started_here:
                state, started_here = "STARTED", True
                continue
            return f"START sent in state {state}" + (" (second START in this call)" if started_here else "")
        if a in ("SUCCEED", "FAIL", "RETRY"):
            if state == ABSENT:
                return f"{a} is the first update of an operation that was never started"
            if state in ("STARTED", "READY"):
                state = "PENDING'" if a == "RETRY" else "DONE"
                continue
            return f"{a} sent in state {state}"
        return f"unexpected action {a}"
    return None


def build() -> Check:
    prog = load_program()
    pm = ProtocolModel(prog)
    ck = Check(
        PID, "valid operation history",
        "Every trace of every applicable (executor, status) cell - with faults injected - is projected on the updates it hands to "
        "the checkpoint pipeline and run through the lifecycle automaton of the statement (first update START; START at most once and only "
        "from ABSENT/READY; RETRY/SUCCEED/FAIL only once started; nothing after a terminal record or for a terminal / PENDING operation). "
        "Kind purity and identifier threading of every update, context START before its body, execution record last and unique, "
        "and who-may-build OperationUpdate are decided from the same table and the AST.",
        ["validity of the concatenation across invocations depends on which cell the next invocation starts in (not decided)",
         ],
        "one obligation per (rule, executor, cell)",
    )
    term = terminal_statuses(prog)
    n_cells = n_updates = 0
    for name, ci, ot, st in applicable_cells(pm):
        traces = pm.run_cell(ci, st, faults=True)
        n_cells += 1
        bad, badk, badp = [], [], []
        for t in traces:
            cks = t.kinds("CKPT")
            n_updates += len(cks)
            # (a summarised context whose re-traversed body raises - e.g. because an SDK operation inside it raises another class on replay than it did
            #  live - is judged like every other path: the context is terminal, so nothing may be sent for it)
            why = accept(st, [e.data.get("action") for e in cks], term)
            if why:
                bad.append((why, t))
            kinds = {(e.data.get("type"), e.data.get("sub_type")) for e in cks}
            if len(kinds) > 1 or any(k[0] != ot for k in kinds):
                badk.append((f"updates of kinds {sorted(map(str, kinds))} from a {ot} executor", t))
            for e in cks:
                if e.data.get("operation_id") != "operation_identifier.operation_id" or e.data.get("parent_id") != "operation_identifier.parent_id" \
                        or e.data.get("name") != "operation_identifier.name":
                    badk.append((f"update addressed to id={e.data.get('operation_id')} parent={e.data.get('parent_id')} name={e.data.get('name')}", t))
            if ot == "CONTEXT" and st == ABSENT:
                evs = t.events
                us = [i for i, e in enumerate(evs) if e in user_events(t, "user")]
                ss = [i for i, e in enumerate(evs) if e.kind == "CKPT" and e.data.get("action") == "START"]
                if us and not (ss and ss[0] < us[0]):
                    badp.append(("context body runs before the context START was handed over", t))
        c = cls_construct(ci)
        ck.ob("R1.lifecycle", c, not bad, (f"{len(bad)}/{len(traces)}: {bad[0][0]}: {trace_sig(bad[0][1])}") if bad else f"{len(traces)} traces", cell=st)
        ck.ob("R2.kind-and-identity", c, not badk, (badk[0][0] + ": " + trace_sig(badk[0][1])) if badk else "", cell=st)
        if ot == "CONTEXT" and st == ABSENT:
            ck.ob("R3.parent-start-first", c, not badp, (badp[0][0] + ": " + trace_sig(badp[0][1])) if badp else "", cell=st)
    ck.floor("cells", n_cells, 25)
    ck.floor("updates_judged", n_updates, 60)

    if ck.tier == "thorough":
        # validity of the concatenation across invocations: compose the cells through every crash point and backend transition
        from sa.compose import explore

        for name, ci in pm.executors.items():
            ot = pm.executor_optype(ci)
            all_cells = {s_: pm.run_cell(ci, s_, faults=True) for s_ in [ABSENT, *__import__("sa.common", fromlist=["APPLICABLE"]).APPLICABLE[ot]]}
            modes = [(None, None)]
            if ot == "STEP" and "Step" in name and "Condition" not in name:
                modes = [("config.step_semantics=?StepSemantics", m) for m in prog.cls("config", "StepSemantics").enum_members]
            for mk, m in modes:
                seen, findings, n_steps = explore(ot, all_cells, mk, m)
                life = [f for f in findings if f[0] == "lifecycle"
                        and not (ot == "CONTEXT" and "holds as SUCCEEDED" in f[1])]  # replayed summarised context with a non-deterministic body
                ck.ob("R6.lifecycle-across-invocations", cls_construct(ci), not life,
                      (life[0][1] + " | witness: " + " / ".join(life[0][2])[-400:]) if life else f"{len(seen)} history states, {n_steps} transitions", cell=m or "")

    # R4 execution record ---------------------------------------------------------------------
    wt = wrapper_traces(pm, faults=True)
    wrapper = prog.func("execution", "durable_execution.<locals>.wrapper")
    bad = []
    n_exec = 0
    for t in wt:
        cks = t.kinds("CKPT")
        ex = [i for i, e in enumerate(cks) if e.data.get("type") == "EXECUTION"]
        n_exec += len(ex)
        if len(ex) > 1:
            bad.append(("more than one execution-level record", t))
        if ex and ex[0] != len(cks) - 1:
            bad.append(("an update follows the execution-level record", t))
        res = [e for e in t.events if e.kind == "RESULT"]
        if ex and not res:
            bad.append(("execution-level record before the handler finished", t))
        if ex and res and t.events.index(res[0]) > t.events.index(cks[ex[0]]):
            bad.append(("execution-level record before the handler finished", t))
    ck.floor("execution_records", n_exec, 2)
    ck.ob("R4.execution-record-last", fn_construct(wrapper), not bad, (bad[0][0] + ": " + trace_sig(bad[0][1])[-500:]) if bad else "")
    callers = []
    for fi in prog.functions.values():
        if isinstance(fi.node, ast.Lambda):
            continue
        for n in walk_shallow(fi.node):
            if isinstance(n, ast.Call) and isinstance(n.func, ast.Attribute) and n.func.attr in ("create_execution_succeed", "create_execution_fail"):
                callers.append(fi)
    ck.floor("execution_record_call_sites", len(callers), 2)
    for fi in callers:
        ck.ob("R4.execution-record-owner", fn_construct(fi), fi.fq == wrapper.fq, "execution-level record built outside the handler wrapper")

    # R5 factories --------------------------------------------------------------------------------
    upd = pm.update_cls
    facs = {n: f for n, f in upd.methods.items() if n.startswith("create_")}
    ck.floor("update_factories", len(facs), 16)
    for fi in prog.functions.values():
        if isinstance(fi.node, ast.Lambda) or fi.module.short() == "lambda_service":
            continue
        for n in walk_shallow(fi.node):
            if isinstance(n, ast.Call) and isinstance(n.func, ast.Name) and n.func.id == "OperationUpdate" \
                    and fi.module.imports.get("OperationUpdate", "").endswith("lambda_service.OperationUpdate"):
                ck.ob("R5.no-hand-built-update", fn_construct(fi), False, "OperationUpdate(...) constructed outside its factories", where=f"line {n.lineno}")
    for n, f in facs.items():
        kws = {}
        for x in ast.walk(f.node):
            if isinstance(x, ast.Call) and isinstance(x.func, ast.Name) and x.func.id == "cls":
                kws = {k.arg: k.value for k in x.keywords}
        ok = all(k in kws for k in ("operation_id", "operation_type", "action"))
        const = isinstance(kws.get("operation_type"), ast.Attribute) and isinstance(kws.get("action"), ast.Attribute)
        ck.ob("R5.factory-fixes-kind", f"lambda_service.py:OperationUpdate.{n}", ok and const,
              f"factory must fix operation_type and action as constants (has {sorted(kws)})")
    # "nothing after a terminal record": the executors record RETRY / FAIL for whatever their body raises as an ordinary Exception. create_checkpoint itself
    # is called from inside those bodies (the SUCCEED of a step, of a child context). Once it has put an update into the queue, that update may still be
    # applied - so from there on it may only raise what ends the invocation without passing for a body failure (BaseException-only classes). An Exception
    # raised after the enqueue (r8_C11: a 60 s confirmation timeout reported as CheckpointError) becomes RETRY / FAIL behind a SUCCEED in flight.
    from sa.protocol import create_checkpoint_traces
    from sa.values import Obj as _Obj
    n_after = 0
    bad_after = []
    for t in create_checkpoint_traces(pm):
        puts = [e for e in t.events if e.kind == "EXT" and e.data["method"] in ("put", "put_nowait")]
        if not puts or t.outcome != "raise":
            continue
        n_after += 1
        cls_r = prog.classes.get((t.exc_class() or "").rstrip("*"))
        qop = puts[-1].data["arg_values"][0] if puts[-1].data.get("arg_values") else None
        ev = qop.fields.get("completion_event") if isinstance(qop, _Obj) else None
        infeasible = isinstance(ev, _Obj) and any(str(k).endswith("is None") and v is True and "completion_event" in str(k) for k, v in t.pc)
        if cls_r is not None and cls_r.is_subclass_of("builtins.Exception") and not infeasible:
            bad_after.append(f"raises {cls_r.name} after the update was enqueued: " + trace_sig(t))
    ck.floor("raising_paths_after_the_enqueue", n_after, 2)
    ck.ob("R1.no-catchable-error-after-the-enqueue", fn_construct(pm.ckpt_fn), not bad_after,
          (bad_after[0][:300] + " - the step / child / wait-for-condition executor takes it for a failure of its body and sends RETRY or FAIL for an operation whose "
           "SUCCEED is still in flight") if bad_after else f"{n_after} raising paths, all BaseException-only classes")
    return ck


if __name__ == "__main__":
    main(PID, build)
