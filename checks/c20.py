"""C20 - wire model codecs are lossless inverses (field / key / presence / timestamp tables, DESIGN.md section 21)."""

from __future__ import annotations

import ast
import json

from sa.common import fn_construct
from sa.model import AnalysisError, load_program
from sa.report import Check, main
from sa.tables import all_self_roots, converted_paths, reader_table, self_root, writer_table
from sa.values import parse_annotation

PID = "C20"
MODULES = ("lambda_service", "execution", "concurrency.models")
# run-time-only attributes that are not part of the wire form
NOT_WIRE = {("DurableExecutionInvocationInputWithClient", "service_client")}



def _service_model_keys(ck, classes, writers, readers):
    """R7: the other end of the wire is not in this repository - but its contract is: botocore ships the service model (JSON) the SDK's client is generated
    from. A class that only reads (responses) or only writes (requests) has no sibling table to be compared with; its keys are compared with the members of
    the API shape of the same name. A key the model does not know is a typo the service never sends / silently ignores (StateOutput reading 'Marker' instead
    of 'NextMarker' ends pagination after one page); a member the reader never looks at is data the service sent and the SDK dropped."""
    import gzip
    import importlib.util
    spec = importlib.util.find_spec("botocore")
    if spec is None or not spec.submodule_search_locations:
        ck.undecided_rule("botocore is not installed next to the SDK: the service model cannot be read")
        return
    from pathlib import Path as _P
    cands = sorted(_P(list(spec.submodule_search_locations)[0], "data", "lambda").glob("*/service-2.json*"))
    if not cands:
        ck.undecided_rule("botocore has no lambda service model")
        return
    raw = cands[-1].read_bytes()
    model = json.loads(gzip.decompress(raw) if cands[-1].suffix == ".gz" else raw)
    shapes = model.get("shapes", {})
    ALIAS = {"CheckpointOutput": "CheckpointDurableExecutionResponse", "StateOutput": "GetDurableExecutionStateResponse"}
    n_cls = 0
    for c in classes:
        shape = shapes.get(ALIAS.get(c.name, c.name))
        if shape is None or shape.get("type") != "structure":
            continue
        members = set(shape.get("members", {}))
        n_cls += 1
        if c.fq in readers:
            rkeys = {r.key for r in readers[c.fq].values() if r.key}
            ck.ob("R7.wire-keys-exist-in-the-service-model", fn_construct(c.methods["from_dict"]), rkeys <= members,
                  f"{c.name}.from_dict reads {sorted(rkeys - members)}, which the API shape {ALIAS.get(c.name, c.name)} does not have (members: {sorted(members)})", cell="reader keys")
            ck.ob("R7.every-member-of-the-api-shape-is-read", fn_construct(c.methods["from_dict"]), members <= rkeys,
                  f"{c.name}.from_dict never looks at {sorted(members - rkeys)} of the API shape {ALIAS.get(c.name, c.name)}: sent by the service, dropped by the SDK", cell="members read")
        if c.fq in writers:
            wkeys = {e.path[0] for e in writers[c.fq]}
            ck.ob("R7.wire-keys-exist-in-the-service-model", fn_construct(c.methods["to_dict"]), wkeys <= members,
                  f"{c.name}.to_dict writes {sorted(wkeys - members)}, which the API shape does not have (members: {sorted(members)})", cell="writer keys")
    ck.floor("classes_with_an_api_shape", n_cls, 12)

def nested_model(prog, ci, fname):
    """the SDK model class of a dataclass field (None for primitives / enums / lists)."""
    for f in ci.all_fields():
        if f.name == fname:
            t = parse_annotation(prog, next(c for c in ci.mro() if any(x is f for x in c.fields)).module, f.annotation)
            if t and t.classes:
                c = prog.classes.get(t.classes[0])
                if c is not None and not c.is_enum and c.is_dataclass:
                    return c
    return None


def is_datetime_field(ci, fname):
    for f in ci.all_fields():
        if f.name == fname and f.annotation is not None:
            return "datetime" in ast.unparse(f.annotation)
    return False


def build() -> Check:
    prog = load_program()
    ck = Check(
        PID, "wire codecs are lossless inverses",
        "For every model class with a hand-written codec the writer table (field -> wire key path, emission guard, possibly-empty dictionaries) and the "
        "reader table (wire key -> constructor field, access kind, presence test, converter, walrus re-binding) are extracted from the AST and compared: "
        "every field is written, written and read under the same key, enum fields go .value <-> Enum(...), nested models go to_dict/inline <-> from_dict of the "
        "same class, a value the writer can emit as an empty dictionary is not treated as absent by a truthiness test, and the JSON variants convert exactly "
        "the datetime-annotated paths in both directions.",
        ["value conversions inside one field (Enum(value)) are trusted; the arithmetic on the scalar timestamp is judged for exactness (no float division / truncation) and the datetime APIs used by the two scalar conversions against a table of offset-dropping calls",
         "the wire form omits empty optional strings (allowed by the statement)"],
        "one obligation per (rule, class, field)",
    )
    classes = []
    for m in MODULES:
        for c in prog.module(m).classes.values():
            if c.is_dataclass and ("to_dict" in c.methods or "from_dict" in c.methods):
                classes.append(c)
    ck.floor("codec_classes", len(classes), 20)
    writers, readers = {}, {}
    for c in classes:
        if "to_dict" in c.methods and c.methods["to_dict"].cls is c:
            writers[c.fq] = writer_table(c.methods["to_dict"])
        if "from_dict" in c.methods:
            readers[c.fq] = reader_table(prog, c.methods["from_dict"])
    ck.floor("writers", len(writers), 12)
    ck.floor("readers", len(readers), 20)
    n_fields = 0
    for c in classes:
        if c.fq not in writers:
            continue
        wt = writers[c.fq]
        construct = fn_construct(c.methods["to_dict"])
        rt = readers.get(c.fq)
        roots = {}
        for e in wt:
            for r in all_self_roots(e.value):
                roots.setdefault(r[0], []).append((e, r))
        # R3 an emission guard looks at the emitted value (or an object it is reached through) and at nothing else: the reader knows
        # nothing but the key's presence, so a key withheld because of ANOTHER field's value comes back as the reader's default
        for e in wt:
            # the value, its alternatives under the same key (`x.to_dict() if x else None`) and whatever is written beneath that key
            vroots = set()
            for e2 in wt:
                if e2.path[:len(e.path)] == e.path:
                    vroots |= all_self_roots(e2.value)
            for g, _ in e.guards:
                foreign = sorted(".".join(gr) for gr in all_self_roots(g)
                                 if not any(vr[:len(gr)] == gr for vr in vroots))
                # ... and the right way round: a key is withheld only when the value is ABSENT (None / falsy) - the reader answers absence with its default,
                # which is None / False / empty. A guard that withholds the key when the value is PRESENT loses it (mutscan: `if x.replay_children` negated)
                own_ok = True
                if not foreign and all_self_roots(e.value):
                    # (an alternative that writes a constant - `x.to_dict() if x else None`, `{}` for a details object without fields - carries no value)
                    t_ = g
                    pos = _
                    # accepted positive forms: `v`, `v is not None`, conjunctions of those over the value and the objects it is reached through
                    def positive(e_):
                        if isinstance(e_, ast.BoolOp) and isinstance(e_.op, ast.And):
                            return all(positive(v_) for v_ in e_.values)
                        if isinstance(e_, (ast.Attribute, ast.Name)):
                            return True
                        if isinstance(e_, ast.Compare) and len(e_.ops) == 1 and isinstance(e_.ops[0], ast.IsNot) and isinstance(e_.comparators[0], ast.Constant) and e_.comparators[0].value is None:
                            return True
                        if isinstance(e_, ast.NamedExpr):
                            return True
                        return False
                    own_ok = bool(pos) and positive(t_)
                    ck.ob("R3.emission-guard-withholds-absent-values-only", construct, own_ok,
                          f"{c.name} writes {'.'.join(e.path)!r} under `{ast.unparse(g)}` (taken {'positively' if pos else 'NEGATED'}): the key is withheld for a value that is present "
                          "and the reader fills in its default", cell=".".join(e.path) + " if " + ast.unparse(g))
                ck.ob("R3.emission-guard-looks-at-the-emitted-value-only", construct, not foreign,
                      f"{c.name} writes {'.'.join(e.path)!r} (= {e.value_txt}) only when `{ast.unparse(g)}`: the guard reads self.{', self.'.join(foreign)}, which is not the value "
                      f"written nor an object it is reached through; for a value of that other field the key is withheld and the reader fills in its default - the round trip changes the field",
                      cell=".".join(e.path) + " if " + ast.unparse(g))
        # R1 what is stored under a key is the field itself or a lossless image of it (r9_C20: `self.stack_trace[-MAX:]` - every field is written, under the right
        # key, and a long trace loses its outer frames). The images the codecs use form a small closed grammar; anything else - a slice, an index, arithmetic, a call
        # of something that is not a converter - is reported with its text
        def lossless_image(v, loopvars=()):
            if isinstance(v, ast.Constant) and v.value is None:
                return True
            if isinstance(v, ast.Dict) and not v.keys:
                return True
            if isinstance(v, ast.Dict):
                return True   # an inline nested dictionary: its entries are judged one by one
            if isinstance(v, ast.Name):
                return True   # a local: R1.field-is-written judges whether the field reaches the key at all
            if isinstance(v, ast.Attribute):
                if isinstance(v.value, ast.Name) and (v.value.id == "self" or v.value.id in loopvars):
                    return True
                return lossless_image(v.value, loopvars) if isinstance(v.value, ast.Attribute) else False
            if isinstance(v, ast.IfExp):
                return lossless_image(v.body, loopvars) and lossless_image(v.orelse, loopvars)
            if isinstance(v, ast.Call) and isinstance(v.func, ast.Attribute) and v.func.attr in ("to_dict", "to_json_dict", "copy") and not v.args and not v.keywords:
                return lossless_image(v.func.value, loopvars)
            if isinstance(v, ast.Call) and isinstance(v.func, ast.Name) and v.func.id in ("list", "dict") and len(v.args) == 1 and not v.keywords:
                return lossless_image(v.args[0], loopvars)
            if isinstance(v, ast.Call) and ast.unparse(v.func).endswith("to_unix_millis") and len(v.args) == 1:
                return lossless_image(v.args[0], loopvars)
            if isinstance(v, ast.ListComp) and len(v.generators) == 1 and not v.generators[0].ifs and isinstance(v.generators[0].target, ast.Name):
                g_ = v.generators[0]
                lv = g_.target.id
                elt_ok = (isinstance(v.elt, ast.Name) and v.elt.id == lv) or \
                    (isinstance(v.elt, ast.Call) and isinstance(v.elt.func, ast.Attribute) and v.elt.func.attr in ("to_dict", "to_json_dict") and isinstance(v.elt.func.value, ast.Name)
                     and v.elt.func.value.id == lv and not v.elt.args)
                return elt_ok and lossless_image(g_.iter, loopvars)
            return False
        for e in wt:
            if all_self_roots(e.value):
                ck.ob("R1.emitted-value-is-the-field-or-its-lossless-image", construct, lossless_image(e.value),
                      f"{c.name} stores `{e.value_txt}` under {'.'.join(e.path)!r}: neither the field itself nor one of the lossless images the codecs use (.value of an enum, "
                      "to_dict() of a nested model, a comprehension of those over the whole sequence) - a slice, an index or a computation loses part of the value and the reader "
                      "cannot bring it back", cell=".".join(e.path))
        for f in c.all_fields():
            if (c.name, f.name) in NOT_WIRE:
                continue
            n_fields += 1
            entries = roots.get(f.name, [])
            ck.ob("R1.field-is-written", construct, bool(entries), f"field `{f.name}` of {c.name} never reaches the wire dictionary", cell=f.name)
            if not entries:
                continue
            nm = nested_model(prog, c, f.name)
            top_keys = {e.path[0] for e, _ in entries}
            # R2 key agreement with the reader of the same class
            if rt is not None and f.name in rt:
                r = rt[f.name]
                ck.ob("R2.same-key", construct, r.key in top_keys, f"`{f.name}` is written under {sorted(top_keys)} but read from {r.key!r}", cell=f.name)
                # enum <-> .value
                uses_value = any(e.value_txt.endswith(f"self.{f.name}.value") for e, _ in entries)
                conv_cls = None
                if r.conv:
                    fq = prog.resolve_name_expr(c.methods["from_dict"].module, ast.parse(r.conv.split(".from_")[0], mode="eval").body)
                    conv_cls = prog.classes.get(fq) if fq else None
                if uses_value:
                    ck.ob("R2.enum-conversion", construct, conv_cls is not None and conv_cls.is_enum,
                          f"`{f.name}` is written as .value but read back through {r.conv}", cell=f.name)
                if nm is not None:
                    ck.ob("R2.nested-model-conversion", construct, conv_cls is not None and conv_cls.fq == nm.fq and "from_" in (r.conv or ""),
                          f"`{f.name}` ({nm.name}) is read back through {r.conv}", cell=f.name)
                # R3 presence agreement
                empties = [e for e, _ in entries if e.may_be_empty_dict or (nm is not None and len(e.path) == 1 and isinstance(e.value, ast.Dict))]
                can_be_empty = bool(empties)
                if nm is not None and not can_be_empty:
                    # inline nested dict: empty when every inner entry is guarded by an inner field
                    inner = [e for e, _ in entries if len(e.path) > 1]
                    if inner and all(any(f".{f.name}." in ast.unparse(g) for g, _ in e.guards) for e in inner):
                        can_be_empty = True
                if nm is not None and any(e.value_txt == f"self.{f.name}.to_dict()" for e, _ in entries):
                    sub = writers.get(nm.fq)
                    if sub is not None and all(e.guards for e in sub):
                        can_be_empty = True
                if can_be_empty:
                    if nm is not None and nm.name == "ErrorObject":
                        # an error object with no field set: same defect, own rule id (it cannot be produced by the SDK's own ErrorObject.from_exception)
                        ck.ob("R3.field-less-error-object-is-not-absence", fn_construct(c.methods["from_dict"]), r.presence != "truthy",
                              f"{c.name}.{f.name}: ErrorObject(None, None, None, None) is written as {{}} under {r.key!r} and the reader tests truthiness: it comes back as None", cell=f.name)
                    else:
                        ck.ob("R3.empty-dict-is-not-absence", fn_construct(c.methods["from_dict"]), r.presence != "truthy",
                              f"{c.name}.{f.name}: the writer can emit an empty dictionary under {r.key!r} ({nm.name if nm else 'dict'} with no optional field set) but the reader "
                              f"tests truthiness: the object comes back as None", cell=f.name)
                ck.ob("R3.no-walrus-rebinding", fn_construct(c.methods["from_dict"]), not (r.shadow and r.presence == "truthy"),
                      f"{c.name}.{f.name}: `if {f.name} := data.get(...)` re-binds the variable passed to the constructor; a falsy wire value ({{}}) leaks in raw", cell=f.name)
            # nested coverage: every field of an inline-written nested model is written too
            if nm is not None and any(len(e.path) > 1 or isinstance(e.value, ast.Dict) for e, _ in entries) and not any(e.value_txt == f"self.{f.name}.to_dict()" for e, _ in entries):
                sub_roots = {r[1] for e, r in entries if len(r) > 1}
                nreader = readers.get(nm.fq, {})
                for nf in nm.all_fields():
                    ck.ob("R1.field-is-written", construct, nf.name in sub_roots,
                          f"{c.name}.{f.name}.{nf.name} ({nm.name}) is never written: it is lost by a round trip", cell=f"{f.name}.{nf.name}")
                    if nf.name in sub_roots and nf.name in nreader:
                        keys = {e.path[1] for e, r in entries if len(r) > 1 and r[1] == nf.name and len(e.path) > 1}
                        ck.ob("R2.same-key", construct, nreader[nf.name].key in keys,
                              f"{c.name}.{f.name}.{nf.name} is written under {sorted(keys)} but {nm.name}.from_dict reads {nreader[nf.name].key!r}", cell=f"{f.name}.{nf.name}")
        # fields read but never written (reader invents data) are harmless; keys written but unknown to the reader:
        if rt is not None:
            read_keys = {r.key for r in rt.values()}
            for e in wt:
                ck.ob("R2.written-key-is-read", construct, e.path[0] in read_keys, f"{c.name} writes key {e.path[0]!r} that its reader never looks at", cell=e.path[0])
    ck.floor("fields_judged", n_fields, 50)
    _service_model_keys(ck, classes, writers, readers)
    # readers of classes without writer: every field is bound from some key
    for c in classes:
        if c.fq in readers:
            rt = readers[c.fq]
            for f in c.all_fields():
                if (c.name, f.name) in NOT_WIRE:
                    continue
                r = rt.get(f.name)
                has_default = f.default is not None or f.default_factory is not None
                ck.ob("R2.reader-binds-field", fn_construct(c.methods["from_dict"]), (r is not None and r.key is not None) or (r is None and has_default),
                      f"{c.name}.from_dict does not fill `{f.name}` from the wire", cell=f.name)

    # R4 JSON variants --------------------------------------------------------------------------------
    op = prog.cls("lambda_service", "Operation")
    tj, fj = op.methods.get("to_json_dict"), op.methods.get("from_json_dict")
    if tj is None or fj is None:
        raise AnalysisError("Operation.to_json_dict / from_json_dict not found")
    wp = converted_paths(tj, "to_unix_millis")
    rp = converted_paths(fj, "from_unix_millis")
    want = set()
    for e in writers[op.fq]:
        r = self_root(e.value)
        if r is None:
            continue
        if len(r) == 1 and is_datetime_field(op, r[0]):
            want.add(e.path)
        if len(r) == 2:
            nm = nested_model(prog, op, r[0])
            if nm is not None and is_datetime_field(nm, r[1]):
                want.add(e.path)
    ck.analysed["timestamp_paths"] = sorted(map(list, want))
    ck.floor("timestamp_paths", len(want), 4)
    ck.ob("R4.json-writer-converts-all-timestamps", fn_construct(tj), wp == want, f"to_json_dict converts {sorted(wp)}, datetime fields are at {sorted(want)}")
    ck.ob("R4.json-reader-converts-all-timestamps", fn_construct(fj), rp == want, f"from_json_dict converts {sorted(rp)}, datetime fields are at {sorted(want)}")
    # ... each of them whenever IT is present: the test around a conversion mentions the keys on that timestamp's own path and no other key. The four
    # timestamps are independent optionals on the other side of the codec (r8_C20: EndTimestamp decoded only inside the StartTimestamp branch - an operation
    # with an end and no start comes back with an int where the datetime was)
    for fnx, conv in ((fj, "from_unix_millis"), (tj, "to_unix_millis")):
        par_ = {}
        for n_ in ast.walk(fnx.node):
            for c_ in ast.iter_child_nodes(n_):
                par_[id(c_)] = n_
        n_conv = 0
        foreign = []
        for st in ast.walk(fnx.node):
            if isinstance(st, ast.Assign) and isinstance(st.targets[0], ast.Subscript) and isinstance(st.value, ast.Call) and isinstance(st.value.func, ast.Attribute) \
                    and st.value.func.attr == conv:
                n_conv += 1
                own = set()
                base = st.targets[0]
                while isinstance(base, ast.Subscript):
                    if isinstance(base.slice, ast.Constant):
                        own.add(base.slice.value)
                    base = base.value
                if isinstance(base, ast.Name):
                    for n_ in ast.walk(fnx.node):
                        if isinstance(n_, ast.NamedExpr) and n_.target.id == base.id:
                            own |= {c.value for c in ast.walk(n_.value) if isinstance(c, ast.Constant) and isinstance(c.value, str)}
                cur = par_.get(id(st))
                seen_keys = set()
                while cur is not None:
                    if isinstance(cur, (ast.If, ast.IfExp, ast.While)) and any(st is x for b in cur.body for x in ast.walk(b)):
                        seen_keys |= {c.value for c in ast.walk(cur.test) if isinstance(c, ast.Constant) and isinstance(c.value, str)}
                    cur = par_.get(id(cur))
                if seen_keys - own:
                    foreign.append(f"line {st.lineno}: the conversion of {sorted(own)} happens only when {sorted(seen_keys - own)} is present as well")
        ck.floor(f"timestamp_conversions_in_{fnx.name}", n_conv, 4)
        ck.ob("R4.conversion-depends-on-its-own-presence-only", fn_construct(fnx), not foreign,
              "; ".join(foreign[:2]) + ": the timestamps are independent optionals - the one whose conversion is skipped crosses the codec as the wrong type" if foreign else f"{n_conv} conversions")
    for cname, mod in (("InitialExecutionState", "execution"), ("DurableExecutionInvocationInput", "execution")):
        c = prog.cls(mod, cname)
        for m, inner in (("to_json_dict", "to_json_dict"), ("from_json_dict", "from_json_dict")):
            fn = c.methods.get(m)
            ok = fn is not None and f".{inner}(" in ast.unparse(fn.node)
            ck.ob("R4.json-variant-delegates", fn_construct(fn) if fn else f"execution.py:{cname}.{m}", ok,
                  f"{cname}.{m} must delegate to the nested {inner} (otherwise timestamps stay datetimes / integers)")
    # R4 the two scalar conversions preserve the instant: a datetime names an instant together with its UTC offset, and the APIs below
    # either drop the offset or reinterpret the wall-clock time in another zone (API-misuse table; arithmetic on the scalar is trusted)
    tc = prog.cls("lambda_service", "TimestampConverter")
    DENY = {"timetuple": "ignores tzinfo: an aware datetime is read as if its wall-clock time were UTC / local",
            "mktime": "interprets the tuple in the host's local zone", "replace": "replaces the offset without adjusting the instant",
            "utcfromtimestamp": "returns a naive datetime (compares unequal to / cannot be compared with the aware original)",
            "utcnow": "naive", "toordinal": "drops the time of day", "date": "drops the time of day", "strftime": "formatting round trip",
            "isoformat": "formatting round trip", "time": "drops the date / offset"}
    ALLOW = {"timestamp", "utctimetuple", "timegm", "astimezone", "fromtimestamp", "int", "round", "float", "timedelta", "total_seconds", "divmod", "floor"}
    for m in ("to_unix_millis", "from_unix_millis"):
        fn = tc.methods.get(m)
        if fn is None:
            raise AnalysisError(f"TimestampConverter.{m} not found")
        calls = [c for c in ast.walk(fn.node) if isinstance(c, ast.Call)]
        badc = []
        for c in calls:
            nm = c.func.attr if isinstance(c.func, ast.Attribute) else (c.func.id if isinstance(c.func, ast.Name) else "?")
            if nm in DENY:
                badc.append(f"`{ast.unparse(c)[:60]}`: {DENY[nm]}")
            elif nm == "fromtimestamp" and not any(k.arg == "tz" for k in c.keywords) and len(c.args) < 2:
                badc.append(f"`{ast.unparse(c)[:60]}`: without tz= the result is a naive local datetime")
            elif nm not in ALLOW:
                raise AnalysisError(f"TimestampConverter.{m}: conversion call `{ast.unparse(c)[:60]}` is not in the table of datetime APIs (extend the table)")
        ck.ob("R4.timestamp-conversion-preserves-instant", fn_construct(fn), not badc, "; ".join(badc) or f"{len(calls)} call(s)")
        if m == "to_unix_millis":
            # exactness: dt.timestamp() is a binary float of seconds; scaling it and truncating loses a millisecond whenever the float lies just below
            # the whole millisecond (whole-ms instants in 2038-2039, 2004, before 1970): the integer must be computed by integer / timedelta arithmetic
            lossy = [n_ for n_ in ast.walk(fn.node) if isinstance(n_, ast.BinOp) and isinstance(n_.op, (ast.Mult, ast.Div))
                     and any(isinstance(c_, ast.Call) and isinstance(c_.func, ast.Attribute) and c_.func.attr == "timestamp" for c_ in ast.walk(n_))]
            rounded = [c_ for c_ in calls if isinstance(c_.func, ast.Name) and c_.func.id == "round"]
            ck.ob("R4.millis-computed-exactly", fn_construct(fn), not lossy or bool(rounded),
                  f"`{ast.unparse(lossy[0])[:60]}` scales the float timestamp() and truncates: a whole-millisecond instant can come out 1 ms early "
                  "(and 1 ms earlier again after each further round trip)" if lossy else "")
        else:
            # ... and the decoder (h2_C20 #1): `ms / 1000` is a float of seconds; once the quotient needs more bits than a double has (2**33 s, 2242-03-16)
            # a whole-millisecond value decodes up to a microsecond low - object -> JSON -> object is not the identity and the wire value moves by 1 ms
            params = {a.arg for a in fn.node.args.args}
            lossy = [n_ for n_ in ast.walk(fn.node) if isinstance(n_, ast.BinOp) and (isinstance(n_.op, ast.Div) or (
                isinstance(n_.op, ast.Mult) and any(isinstance(c_, ast.Constant) and isinstance(c_.value, float) for c_ in (n_.left, n_.right))))
                and any(isinstance(x, ast.Name) and x.id in params for x in ast.walk(n_))]
            ck.ob("R4.millis-computed-exactly", fn_construct(fn), not lossy,
                  f"`{ast.unparse(lossy[0])[:60]}` turns the integer millisecond value into a float of seconds: from 2242-03-16 on (2**33 s) the quotient is up to a "
                  "microsecond off, a whole-millisecond timestamp decodes to ...000999 and re-encodes 1 ms early" if lossy else "")
        scale = {n.value for n in ast.walk(fn.node) if isinstance(n, ast.Constant) and isinstance(n.value, (int, float)) and n.value not in (0, 1)}
        ms_unit = any(isinstance(c_, ast.Call) and any(k_.arg == "milliseconds" for k_ in c_.keywords) for c_ in ast.walk(fn.node))
        ck.ob("R4.timestamp-scale", fn_construct(fn), bool(scale & {1000, 1000.0, 0.001}) or ms_unit, f"scaling constants {sorted(scale)}: the seconds<->milliseconds factor 1000 does not appear")
    # R5 decoding has no side effect on the wire form: a reader never stores into (any level of) the dictionary it was given - the same event /
    # history page is decoded again, compared with the encoder's output, or serialised again
    from sa.tables import input_mutations
    fx_ = ast.parse("import copy\nclass X:\n    @classmethod\n    def from_json_dict(cls, data):\n        c = copy.copy(data)\n        if (s := c.get('S')) and (ms := s.get('T')):\n            s['T'] = conv(ms)\n        return cls.from_dict(c)\n").body[1].body[0]

    class _F:  # minimal FuncInfo stand-in for the positive example
        node = fx_
    if not input_mutations(_F):
        raise AnalysisError("input-mutation rule does not fire on its positive example")
    n_readers = 0
    for fi in prog.functions.values():
        if isinstance(fi.node, ast.Lambda) or fi.cls is None or fi.module.short() not in ("lambda_service", "execution") or not fi.name.startswith("from_"):
            continue
        n_readers += 1
        muts = input_mutations(fi)
        ck.ob("R5.reader-does-not-mutate-its-input", fn_construct(fi), not muts, "; ".join(f"line {ln}: {why}" for ln, why in muts[:3]))
    ck.floor("reader_functions", n_readers, 15)
    # R6 a codec function is a function of its argument: what a wire dictionary decodes to (or an object encodes to) may not depend on what was
    # decoded before. Module-level mutable containers, `global` / `nonlocal` state and functools caches keyed by part of the input make the result of a
    # round trip depend on history (r6_C20: decoded operations memoised by (Id, Status, EndTimestamp) - ids are unique per execution only)
    MUT_CALLS = {"dict", "list", "set", "defaultdict", "OrderedDict", "WeakValueDictionary", "deque", "Counter", "LRUCache"}
    n_pure = 0
    for mod_ in MODULES:
        mobj = prog.module(mod_)
        mutable_globals = {}
        for st_ in mobj.tree.body:
            tgt_ = st_.targets[0] if isinstance(st_, ast.Assign) and len(st_.targets) == 1 else (st_.target if isinstance(st_, ast.AnnAssign) and st_.value is not None else None)
            val_ = getattr(st_, "value", None)
            if isinstance(tgt_, ast.Name) and val_ is not None:
                if isinstance(val_, (ast.Dict, ast.List, ast.Set, ast.DictComp, ast.ListComp, ast.SetComp)) or (
                        isinstance(val_, ast.Call) and (val_.func.id if isinstance(val_.func, ast.Name) else getattr(val_.func, "attr", "")) in MUT_CALLS):
                    mutable_globals[tgt_.id] = st_.lineno
        for fi in prog.functions.values():
            if isinstance(fi.node, ast.Lambda) or fi.cls is None or fi.module.short() != mod_:
                continue
            if not (fi.name.startswith("from_") or fi.name.startswith("to_")):
                continue
            n_pure += 1
            why_ = []
            for n_ in ast.walk(fi.node):
                if isinstance(n_, ast.Name) and n_.id in mutable_globals:
                    why_.append(f"line {n_.lineno}: uses the module-level mutable `{n_.id}` (defined line {mutable_globals[n_.id]})")
                elif isinstance(n_, (ast.Global, ast.Nonlocal)):
                    why_.append(f"line {n_.lineno}: `{ast.unparse(n_)}`")
            for d_ in fi.node.decorator_list:
                if any(tok in ast.unparse(d_) for tok in ("cache", "lru_cache", "memo")):
                    why_.append(f"decorated with `{ast.unparse(d_)}`")
            ck.ob("R6.codec-function-depends-on-its-argument-only", fn_construct(fi), not why_,
                  "; ".join(why_[:2]) + ": the decoded / encoded form depends on what this process handled before - a different wire dictionary with the same key "
                  "(operation ids repeat across executions) comes back as the first one's object" if why_ else "")
    ck.floor("codec_functions_checked_for_purity", n_pure, 30)
    # R4 equality, not only the instant (h3_C20 #1, #2): the JSON reader returns aware UTC datetimes. Python never compares a naive datetime equal to an
    # aware one, and (PEP 495) an aware datetime whose offset depends on `fold` unequal to every datetime of another zone - botocore attaches
    # dateutil.tz.tzlocal() to what it parses, so outside TZ=UTC such values are what from_dict is handed. For "back yields an equal object" to hold for
    # every datetime the model would have to normalise its timestamps to UTC where objects are built; necessary condition: some normalisation exists.
    ts_owner = [prog.cls("lambda_service", n) for n in ("Operation", "StepDetails", "WaitDetails")]
    normalises = any(isinstance(n_, ast.Attribute) and n_.attr == "astimezone" for c_ in ts_owner for mn_ in ("from_dict", "__post_init__") if mn_ in c_.methods
                     for n_ in ast.walk(c_.methods[mn_].node))
    ck.ob("R4.timestamps-are-normalised-where-objects-are-built", fn_construct(ts_owner[0].methods["from_dict"]), normalises,
          "Operation / StepDetails / WaitDetails keep whatever tzinfo they are given while the JSON reader always answers in UTC: a naive timestamp, or an aware one "
          "with a rule-based zone inside a DST fold (what botocore's tzlocal() produces in a daylight-saving TZ), is not equal to itself after to_json_dict / "
          "from_json_dict - the instant is kept, the object (and next_attempt_timestamp with it) is not equal")
    # R4 a millisecond value of 0 is a timestamp (the epoch): the JSON reader must test presence, not truthiness, before it converts
    tests0 = []
    for n_ in ast.walk(fj.node):
        if isinstance(n_, (ast.If, ast.IfExp, ast.BoolOp)):
            parts_ = n_.values if isinstance(n_, ast.BoolOp) else [n_.test]
            for t_ in parts_:
                if isinstance(t_, ast.NamedExpr) and isinstance(t_.value, ast.Call) and isinstance(t_.value.func, ast.Attribute) and t_.value.func.attr == "get" \
                        and t_.value.args and isinstance(t_.value.args[0], ast.Constant) and "Timestamp" in str(t_.value.args[0].value):
                    tests0.append(t_)
    ck.ob("R4.json-reader-tests-presence", fn_construct(fj), not tests0,
          "; ".join(f"line {t_.lineno}: `{ast.unparse(t_)}` is a truthiness test - a value of 0 ms is left undecoded (the field stays an int)" for t_ in tests0[:2]))
    return ck


if __name__ == "__main__":
    main(PID, build)
