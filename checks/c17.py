"""C17 - context logger is silent while replaying completed work, audible afterwards (DESIGN.md section 18)."""

from __future__ import annotations

import ast

from sa.common import fn_construct, terminal_statuses, trace_sig
from sa.interp import Config
from sa.model import AnalysisError, load_program
from sa.protocol import ProtocolModel, context_method_traces
from sa.report import Check, main
from sa.values import NONE, Const, DictVal, Obj, Sym, TypeRef

PID = "C17"
EMITTERS = ("debug", "info", "warning", "error", "exception")


def build() -> Check:
    prog = load_program()
    pm = ProtocolModel(prog)
    ck = Check(
        PID, "replay-aware logger",
        "Every emitting method of Logger is interpreted: the underlying logger is reached only when the replay gate answered 'not replaying', with an extra that "
        "merges the default identifiers; derived loggers keep the execution state and carry executionArn plus the identifiers present. Every DurableContext "
        "operation (and the branch wrapper of the concurrent executor) is interpreted with process() summarised: track_replay(id) must be reached on the normal "
        "exit and on every exit with an exception user code may catch. The initial replay decision must depend on data that reflects the whole history.",
        ["which log calls precede a completed operation for a given program/history (emission counts) is a runtime quantity",
         "whether the backend lists completed children of a completed context is a service contract the source does not settle (not judged)"],
        "one obligation per rule and method",
    )
    lg = prog.cls("logger", "Logger")
    li = prog.cls("logger", "LogInfo")
    is_rep = prog.func("state", "ExecutionState.is_replaying")

    def h_rep(it, fn, sv, a, k, n):
        r = it.decide("state.is_replaying()", 2, [True, False]) == 0
        it.emit("IS_REPLAYING", n, result=r, state=sv.key() if sv is not None else "?")
        return Const(r)

    base = pm.make_config(faults=False, user_raises={})
    hooks = dict(base.hooks)
    hooks[is_rep.fq] = h_rep

    def run_logger(fn, self_factory, kw_factory, cell):
        old = pm.make_config

        def mk(**kw):
            cfg = old(**kw)
            cfg.opaque_modules = ()
            cfg.hooks[is_rep.fq] = h_rep
            return cfg

        pm.make_config = mk
        try:
            return pm.run_function(fn, self_factory, kw_factory, cell=cell)
        finally:
            pm.make_config = old

    def logger_self(it, state):
        o = Obj(lg, label="log")
        d = DictVal({"executionArn": Sym("arn"), "operationId": Sym("opid")})
        o.fields.update(_logger=Sym("underlying", TypeRef(prim="ext:logging.Logger")), _default_extra=d, _execution_state=state)
        return o

    n_emit = 0
    for m in EMITTERS:
        fn = lg.methods.get(m)
        if fn is None:
            raise AnalysisError(f"Logger.{m} not found")
        trs = run_logger(fn, logger_self, lambda it, state: {"msg": Sym("msg"), "extra": Sym("user_extra")}, ("Logger", m))
        bad = []
        for t in trs:
            emits = [e for e in t.events if e.kind == "EXT" and e.data["recv"] == "underlying"]
            gates = t.kinds("IS_REPLAYING")
            replaying = gates[0].data["result"] if gates else None
            if gates and gates[0].data["state"] != "state":
                bad.append(("the gate asks a different execution state", t))
            if replaying is None and emits:
                bad.append(("the underlying logger is reached without consulting the replay gate", t))
            if replaying is True and emits:
                bad.append(("a record is emitted while replaying", t))
            if replaying is False:
                if len(emits) != 1 or emits[0].data["method"] != m:
                    bad.append((f"not replaying but {len(emits)} record(s) emitted via {[e.data['method'] for e in emits]}", t))
                else:
                    n_emit += 1
                    ex = emits[0].data["kwarg_values"].get("extra")
                    if not (isinstance(ex, DictVal) and "executionArn" in ex.items and "operationId" in ex.items):
                        bad.append((f"the record's extra is {ex.key() if ex else None}: default identifiers are not merged", t))
                    if emits[0].data["args"][:1] != ["msg"]:
                        bad.append(("the message is not passed through", t))
            for e in emits:
                if t.events.index(e) < (t.events.index(gates[0]) if gates else 10**9):
                    bad.append(("the record is emitted before the gate is consulted", t))
        ck.ob("R1.gate-dominates-emission", fn_construct(fn), not bad and trs, (bad[0][0]) if bad else "", cell=m)
    ck.analysed["emitting_paths"] = n_emit

    # derived loggers keep the state and carry the identifiers
    fli = lg.methods.get("from_log_info")
    if fli is None:
        raise AnalysisError("Logger.from_log_info not found")

    def kw_fli(it, state):
        info = Obj(li, label="info")
        info.fields.update(execution_state=state, parent_id=Sym("info.parent_id", TypeRef(prim="str", optional=True)),
                           operation_id=Sym("info.operation_id", TypeRef(prim="str", optional=True)), name=Sym("info.name", TypeRef(prim="str", optional=True)),
                           attempt=Sym("info.attempt", TypeRef(prim="int", optional=True)))
        return {"logger": Sym("underlying"), "info": info}

    trs = run_logger(fli, None, kw_fli, ("Logger", "from_log_info"))
    bad = []
    KEYS = {"parentId": "info.parent_id", "operationName": "info.name", "attempt": "info.attempt", "operationId": "info.operation_id"}
    for t in trs:
        v = t.value if t.outcome == "return" else None
        if not (isinstance(v, Obj) and v.cls_name == "Logger"):
            bad.append((f"from_log_info returns {v.key() if v else t.exc_class()}", t))
            continue
        if v.fields.get("_execution_state", NONE).key() != "state":
            bad.append(("the derived logger does not keep the execution state of the LogInfo", t))
        ex = v.fields.get("_default_extra")
        if not (isinstance(ex, DictVal) and ex.items.get("executionArn", NONE).key() == "state.durable_execution_arn"):
            bad.append(("the derived logger's extra lacks executionArn of the execution", t))
            continue
        d = dict(t.pc)
        for wire, src in KEYS.items():
            present = d.get(f"truthy({src})", None)
            if src == "info.attempt":
                present = not d.get(f"{src} is None", False) if f"{src} is None" in d else present
            if present is True and ex.items.get(wire, NONE).key() != src:
                bad.append((f"identifier {wire} is {ex.items.get(wire, NONE).key()} although {src} is set", t))
    ck.ob("R1.derived-logger-identifiers", fn_construct(fli), not bad and trs, bad[0][0] if bad else f"{len(trs)} paths")
    foi = li.methods.get("from_operation_identifier")
    trs = run_logger(foi, None, lambda it, state: {"execution_state": state, "op_id": Sym("op", TypeRef(classes=(prog.cls("identifier", "OperationIdentifier").fq,))),
                                                    "attempt": Sym("attempt")}, ("LogInfo", "from_operation_identifier")) if foi else []
    want = {"execution_state": "state", "parent_id": "op.parent_id", "operation_id": "op.operation_id", "name": "op.name", "attempt": "attempt"}
    ok = bool(trs) and all(t.outcome == "return" and isinstance(t.value, Obj) and all(t.value.fields.get(k, NONE).key() == v for k, v in want.items()) for t in trs)
    ck.ob("R1.log-info-from-identifier", fn_construct(foi) if foi else "logger.py:LogInfo.from_operation_identifier", ok, "LogInfo does not copy the operation's identifiers")
    # the context's own logger: wherever DurableContext builds one (constructor, set_logger, child contexts) the LogInfo names the execution state
    # and the id of the operation that encloses the context
    ctxc = prog.cls("context", "DurableContext")
    wli = lg.methods.get("with_log_info")

    def h_capture(kind):
        def h(it, fn, sv, a, k, n):
            info = k.get("info", a[-1] if a else NONE)
            it.emit("LOGINFO", n, via=kind, info=info)
            return Sym(f"logger<{kind}>", TypeRef(classes=(lg.fq,)))
        return h

    def ctx_self(it, state):
        o = Obj(ctxc, label="ctx")
        init = ctxc.methods["__init__"]
        kw = {}
        for p_ in init.node.args.args[1:]:
            kw[p_.arg] = state if p_.arg == "state" else (Sym("P", TypeRef(prim="str")) if p_.arg == "parent_id" else (NONE if p_.arg == "logger" else Sym(f"init.{p_.arg}")))
        it.call_function(init, o, [], kw, None, None, None)
        it.events.clear()
        return o

    hooks_li = {fli.fq: h_capture("from_log_info")}
    if wli is not None:
        hooks_li[wli.fq] = h_capture("with_log_info")
    sites = []
    init_ = ctxc.methods["__init__"]

    def kw_init(it, state):
        return {p_.arg: (state if p_.arg == "state" else Sym("P", TypeRef(prim="str")) if p_.arg == "parent_id" else NONE if p_.arg == "logger" else Sym(f"init.{p_.arg}"))
                for p_ in init_.node.args.args[1:]}

    sites.append(("__init__", pm.run_function(init_, lambda it, state: Obj(ctxc, label="ctx"), kw_init, cell=("DurableContext", "__init__"), extra_hooks=hooks_li), "P"))
    if "set_logger" in ctxc.methods:
        m_ = ctxc.methods["set_logger"]
        pn_ = [p_.arg for p_ in m_.node.args.args if p_.arg != "self"][0]
        sites.append(("set_logger", pm.run_function(m_, ctx_self, lambda it, state: {pn_: Sym("user_logger")}, cell=("DurableContext", "set_logger"), extra_hooks=hooks_li), "P"))
    if "create_child_context" in ctxc.methods:
        m_ = ctxc.methods["create_child_context"]
        pn_ = [p_.arg for p_ in m_.node.args.args if p_.arg != "self"][0]
        init_fq = init_.fq

        def h_ctor(it, fn, sv, a, k, n):
            lgv = k.get("logger")
            it.emit("CHILDCTX", n, parent=k.get("parent_id", NONE).key(), logger=lgv.key() if lgv is not None else "None")
            return NONE
        sites.append(("create_child_context", pm.run_function(m_, ctx_self, lambda it, state: {pn_: Sym("CID", TypeRef(prim="str"))}, cell=("DurableContext", "create_child_context"),
                                                              extra_hooks={**hooks_li, init_fq: h_ctor}), "CID"))
    n_li = 0
    for mname, trs_, want_parent in sites:
        badl = []
        for t in trs_:
            evs_ = [e for e in t.events if e.kind == "LOGINFO"]
            n_li += len(evs_)
            if t.outcome != "return":
                continue
            for e in evs_:
                info = e.data["info"]
                pid_ = info.fields.get("parent_id", NONE).key() if isinstance(info, Obj) else "?"
                st_k = info.fields.get("execution_state", NONE).key() if isinstance(info, Obj) else "?"
                if pid_ != want_parent:
                    badl.append(f"{mname}: the logger's LogInfo carries parent id {pid_}, not {want_parent} (records would lose the enclosing operation's identifier)")
                if st_k != "state":
                    badl.append(f"{mname}: the logger's LogInfo carries execution state {st_k}")
        ck.ob("R1.context-logger-carries-enclosing-id", f"context.py:DurableContext.{mname}", not badl, "; ".join(badl[:2]))
    ck.floor("context_logger_sites", n_li, 3)
    # ... and the loggers handed to user functions (step function, check function of wait_for_condition) are derived with a LogInfo built from the execution state
    # too: every construction of a LogInfo outside logger.py passes, as `execution_state`, something of type ExecutionState - an attribute annotated so in the class
    # (or its bases), or a parameter annotated so (mutscan 5: `execution_state=self.context_logger` - the derived logger asks a Logger whether the state is replaying and
    # the first log call of the check function raises AttributeError)
    from sa.interp import Interp as _Interp
    from sa.protocol import Chooser as _Chooser
    try:
        _it = _Interp(prog, _Chooser([]), pm.make_config(faults=False, user_raises={}))
    except Exception:   # constructor signature differs: fall back to names
        _it = None
    st_fq = prog.cls("state", "ExecutionState").fq
    n_lic, bad_li = 0, []
    for c_ in prog.classes.values():
        if c_.module.relpath.endswith("logger.py"):
            continue
        for f_ in [f for f in c_.methods.values() if f.cls is c_]:
            for call_ in [n for n in ast.walk(f_.node) if isinstance(n, ast.Call) and ast.unparse(n.func) in ("LogInfo", "LogInfo.from_operation_identifier")]:
                n_lic += 1
                arg_ = next((k.value for k in call_.keywords if k.arg == "execution_state"), call_.args[0] if call_.args else None)
                ok_ = False
                why_ = "<missing>" if arg_ is None else ast.unparse(arg_)
                if isinstance(arg_, ast.Attribute) and isinstance(arg_.value, ast.Name) and arg_.value.id == "self":
                    typ_ = None
                    if _it is not None:
                        try:
                            typ_ = _it.inst_attr_types(c_).get(arg_.attr)
                        except Exception:
                            typ_ = None
                    if typ_ is not None and getattr(typ_, "classes", None):
                        ok_ = st_fq in typ_.classes
                    else:
                        ok_ = arg_.attr in ("state", "_state", "execution_state", "_execution_state")
                elif isinstance(arg_, ast.Name):
                    ann_ = next((a.annotation for a in f_.node.args.args + f_.node.args.kwonlyargs if a.arg == arg_.id), None)
                    ok_ = (ann_ is not None and "ExecutionState" in ast.unparse(ann_)) or (ann_ is None and arg_.id in ("state", "execution_state"))
                if not ok_:
                    bad_li.append(f"{fn_construct(f_)} line {call_.lineno}: execution_state={why_}")
    ck.floor("log_info_constructions", n_lic, 4)
    ck.ob("R1.derived-logger-carries-the-execution-state", "logger.py:LogInfo", not bad_li,
          "; ".join(bad_li[:2]) + ": the logger derived for a user function does not ask the execution state whether it is replaying (it is silent or raises instead)")
    sl = lg.methods.get("_should_log")
    ck.ob("R1.gate-is-not-replaying", fn_construct(sl) if sl else "logger.py:Logger._should_log",
          sl is not None and ast.unparse(sl.node.body[-1]).replace(" ", "") == "returnnotself._execution_state.is_replaying()", "Logger._should_log must be `not state.is_replaying()`")

    # R2 track_replay on every exit that returns control to user code ---------------------------------
    ctxt = context_method_traces(pm)
    ck.floor("context_operations", len(ctxt), 8)
    n_judged = 0
    for mname, trs in ctxt.items():
        if mname == "wait_for_callback":
            continue
        bad = []
        for t in trs:
            procs = t.kinds("PROCESS")
            if not procs:
                continue
            oc = procs[-1].data.get("outcome")
            if oc not in ("return", "Exception*"):
                continue
            n_judged += 1
            tr = [e for e in t.kinds("TRACK") if t.events.index(e) > t.events.index(procs[-1])]
            if not tr:
                bad.append((f"the operation ends with {'an exception user code may catch' if oc != 'return' else 'a result'} but is never marked visited: "
                            "a FAILED operation caught by the workflow keeps the logger silent for the rest of the invocation", t))
            elif tr[0].data["operation_id"] != "id#1":
                bad.append((f"track_replay is called with {tr[0].data['operation_id']} instead of the operation's id", t))
        ck.ob("R2.visited-on-every-exit", f"context.py:DurableContext.{mname}", not bad, bad[0][0] if bad else "")
    ck.floor("exits_judged", n_judged, 8)
    # the branch wrapper of the concurrent executor
    cex = prog.cls("concurrency.executor", "ConcurrentExecutor")
    item = cex.methods["_execute_item_in_child_context"]
    from sa.protocol import PROCESS_OUTCOMES, short
    from sa.interp import _Raise

    def h_process(it, fn, sv, a, k, n):
        c = it.decide("PROCESS outcome", len(PROCESS_OUTCOMES), [short(o) for o in PROCESS_OUTCOMES])
        it.emit("PROCESS", n, outcome=short(PROCESS_OUTCOMES[c]))
        if c == 0:
            return Sym("item_value")
        raise _Raise(it.make_exc(PROCESS_OUTCOMES[c], "process"), it.site(n))

    def kw(it, state):
        ctx = Obj(prog.cls("context", "DurableContext"), label="owner")
        ctx.fields.update(state=state, _parent_id=Sym("owner_parent"), logger=Sym("logger", TypeRef(classes=(lg.fq,))), execution_context=Sym("ec"), lambda_context=Sym("lc"))
        e = Obj(prog.cls("concurrency.models", "Executable"), label="exe0")
        e.fields.update(index=Sym("exe0.index"), func=Sym("exe0.func"))
        return {"executor_context": ctx, "executable": e}

    def sf(it, state):
        o = Obj(cex, label="cexec")
        o.fields.update(name_prefix=Sym("px"), item_serdes=Sym("is_"), serdes=Sym("s"), sub_type_iteration=Sym("st"), summary_generator=Sym("sg"))
        return o

    trs = pm.run_function(item, sf, kw, cell=("item", ""), extra_hooks={
        pm.base_exec.methods["process"].fq: h_process,
        prog.func("context", "DurableContext._create_step_id_for_logical_step").fq: (lambda it, fn, sv, a, k, n: Sym("branch_id", TypeRef(prim="str")))})
    bad = []
    for t in trs:
        procs = t.kinds("PROCESS")
        if procs and procs[-1].data["outcome"] in ("return", "Exception*"):
            tr = [e for e in t.kinds("TRACK") if t.events.index(e) > t.events.index(procs[-1])]
            if not tr or tr[0].data["operation_id"] != "branch_id":
                bad.append(("a branch that ends with a result / a catchable exception is not marked visited", t))
    ck.ob("R2.visited-on-every-exit", fn_construct(item), not bad and trs, bad[0][0] if bad else "")

    # R3 replay decision -----------------------------------------------------------------------------
    wrapper = prog.func("execution", "durable_execution.<locals>.wrapper")
    ctor = [c for c in ast.walk(wrapper.node) if isinstance(c, ast.Call) and ast.unparse(c.func) == "ExecutionState"]
    if not ctor:
        raise AnalysisError("ExecutionState(...) construction not found in the wrapper")
    rs = next((k.value for k in ctor[0].keywords if k.arg == "replay_status"), None)
    txt = ast.unparse(rs) if rs is not None else ""
    # follow local variables (transitively) that feed the decision
    if rs is not None:
        seen_names: set[str] = set()
        frontier = {n.id for n in ast.walk(rs) if isinstance(n, ast.Name)}
        for _ in range(5):
            nxt = set()
            for st_ in ast.walk(wrapper.node):
                if isinstance(st_, (ast.Assign, ast.AnnAssign)) and st_.value is not None:
                    tg_ = st_.target if isinstance(st_, ast.AnnAssign) else st_.targets[0]
                    if isinstance(tg_, ast.Name) and tg_.id in frontier and tg_.id not in seen_names:
                        seen_names.add(tg_.id)
                        txt += f" ; {tg_.id} := " + ast.unparse(st_.value)
                        nxt |= {n.id for n in ast.walk(st_.value) if isinstance(n, ast.Name)}
            frontier = nxt - seen_names
            if not frontier:
                break
    mergers_after = False
    import re
    ok = rs is not None and ("next_marker" in txt or re.search(r"(?<![A-Za-z_])execution_state\.operations", txt) is not None)
    ck.ob("R3.replay-decision-sees-whole-history", fn_construct(wrapper), ok,
          f"the initial replay status is `{txt[:140]}`: it looks only at the first page, before the remaining pages are fetched - a history whose first page holds just the "
          "EXECUTION operation starts in NEW mode and every log line of already completed work is emitted again")
    # ... and decides the right way round: a first invocation (one EXECUTION record, nothing more to fetch) starts NEW - every log call is emitted; anything
    # else starts in REPLAY. The expression is evaluated on the three smallest histories (mutscan: the two enum members swapped, nothing noticed).
    loc_def = {}
    for st_ in ast.walk(wrapper.node):
        if isinstance(st_, (ast.Assign, ast.AnnAssign)) and st_.value is not None:
            tg_ = st_.target if isinstance(st_, ast.AnnAssign) else st_.targets[0]
            if isinstance(tg_, ast.Name):
                loc_def.setdefault(tg_.id, []).append(st_.value)

    class _Und(Exception):
        pass

    def ev_(e, n_ops, marker, depth=0):
        if depth > 12:
            raise _Und("too deep")
        if isinstance(e, ast.Constant):
            return e.value
        if isinstance(e, ast.IfExp):
            return ev_(e.body if ev_(e.test, n_ops, marker, depth + 1) else e.orelse, n_ops, marker, depth + 1)
        if isinstance(e, ast.BoolOp):
            vals = [ev_(v, n_ops, marker, depth + 1) for v in e.values]
            if isinstance(e.op, ast.Or):
                return next((v for v in vals if v), vals[-1])
            return next((v for v in vals if not v), vals[-1])
        if isinstance(e, ast.UnaryOp) and isinstance(e.op, ast.Not):
            return not ev_(e.operand, n_ops, marker, depth + 1)
        if isinstance(e, ast.Compare) and len(e.ops) == 1:
            l_, r_ = ev_(e.left, n_ops, marker, depth + 1), ev_(e.comparators[0], n_ops, marker, depth + 1)
            op = e.ops[0]
            if isinstance(op, (ast.Is, ast.Eq)):
                return l_ == r_
            if isinstance(op, (ast.IsNot, ast.NotEq)):
                return l_ != r_
            return {ast.Gt: l_ > r_, ast.GtE: l_ >= r_, ast.Lt: l_ < r_, ast.LtE: l_ <= r_}[type(op)]
        if isinstance(e, ast.Call) and isinstance(e.func, ast.Name) and e.func.id in ("len", "bool") and len(e.args) == 1:
            v = ev_(e.args[0], n_ops, marker, depth + 1)
            return len(v) if e.func.id == "len" else bool(v)
        if isinstance(e, ast.Attribute):
            if isinstance(e.value, ast.Name) and e.value.id == "ReplayStatus":
                return "ReplayStatus." + e.attr
            if e.attr == "operations" and "initial_execution_state" in ast.unparse(e.value):
                return ["op"] * n_ops
            if e.attr == "next_marker" and "initial_execution_state" in ast.unparse(e.value):
                return marker
        if isinstance(e, ast.Name) and len(loc_def.get(e.id, [])) == 1:
            return ev_(loc_def[e.id][0], n_ops, marker, depth + 1)
        raise _Und(ast.unparse(e)[:60])
    if rs is not None:
        try:
            got = {sc_: ev_(rs, *args_) for sc_, args_ in (("first invocation (1 record, no marker)", (1, "")), ("first invocation (1 record, marker None)", (1, None)),
                                                         ("3 records on the first page", (3, "")), ("2 records on the first page", (2, "")), ("1 record and a marker", (1, "page-2")))}
            want_ = {"first invocation (1 record, no marker)": "ReplayStatus.NEW", "first invocation (1 record, marker None)": "ReplayStatus.NEW",
                     "3 records on the first page": "ReplayStatus.REPLAY", "2 records on the first page": "ReplayStatus.REPLAY", "1 record and a marker": "ReplayStatus.REPLAY"}
            wrong = [f"{k_}: {got[k_]}" for k_ in want_ if got[k_] != want_[k_]]
            ck.ob("R3.replay-decision-right-way-round", fn_construct(wrapper), not wrong,
                  "; ".join(wrong) + ": a first invocation that starts in REPLAY mutes its own log calls until the first operation ends; a resumed one that starts NEW "
                  "emits every log call of code an earlier invocation already ran" if wrong else "5 smallest histories")
        except _Und as u_:
            ck.undecided_rule(f"R3.replay-decision-right-way-round: the replay_status expression contains `{u_}`, which the evaluator does not know")

    # R5 the REPLAY -> NEW boundary is computed from the merged history -------------------------------
    sc = prog.cls("state", "ExecutionState")
    from sa.common import methods_writing_operations, self_method_calls
    flips = []
    for m in sc.methods.values():
        for st in ast.walk(m.node):
            if isinstance(st, ast.Assign) and isinstance(st.targets[0], ast.Attribute) and st.targets[0].attr == "_replay_status" \
                    and "NEW" in ast.unparse(st.value) and m.name != "__init__":
                flips.append((m, st))
    if not flips:
        raise AnalysisError("no transition of _replay_status to NEW found in ExecutionState")
    BASE = {"operations", "_visited_operations", "_replay_status", "_replay_status_lock", "_operations_lock"}
    mergers = methods_writing_operations(prog)
    for m, st in flips:
        # attributes the guarding conditions depend on (directly or through locals / helper calls of the same method)
        conds = []
        for node in ast.walk(m.node):
            if isinstance(node, ast.If) and any(st is x for b in node.body for x in ast.walk(b)):
                conds.append(node.test)
        dep_attrs, todo_names, seen_fn = set(), set(), set()

        def collect(expr, fn):
            for n in ast.walk(expr):
                if isinstance(n, ast.Attribute) and isinstance(n.value, ast.Name) and n.value.id == "self":
                    if n.attr in sc.methods and (fn.name, n.attr) not in seen_fn:
                        seen_fn.add((fn.name, n.attr))
                        for r in ast.walk(sc.methods[n.attr].node):
                            if isinstance(r, ast.Return) and r.value is not None:
                                collect(r.value, sc.methods[n.attr])
                        for x in ast.walk(sc.methods[n.attr].node):
                            if isinstance(x, ast.Attribute) and isinstance(x.value, ast.Name) and x.value.id == "self" and x.attr not in sc.methods:
                                dep_attrs.add(x.attr)
                    elif n.attr not in sc.methods:
                        dep_attrs.add(n.attr)
                if isinstance(n, ast.Name) and isinstance(n.ctx, ast.Load):
                    for d in ast.walk(fn.node):
                        if isinstance(d, (ast.Assign, ast.AnnAssign)) and d.value is not None:
                            tg = d.target if isinstance(d, ast.AnnAssign) else d.targets[0]
                            if isinstance(tg, ast.Name) and tg.id == n.id and (fn.name, "local", n.id) not in seen_fn:
                                seen_fn.add((fn.name, "local", n.id))
                                collect(d.value, fn)

        for c_ in conds:
            collect(c_, m)
        caches = sorted(a for a in dep_attrs - BASE if not a.endswith("_lock"))
        ck.analysed["replay_boundary_depends_on"] = sorted(dep_attrs)
        ok_dep = "operations" in dep_attrs or bool(caches)
        ck.ob("R5.boundary-depends-on-history", fn_construct(m), ok_dep, f"the switch to NEW depends on {sorted(dep_attrs)}: not on the operation history")
        for a in caches:
            for w in sc.methods.values():
                for x in ast.walk(w.node):
                    rhs = None
                    if isinstance(x, (ast.Assign, ast.AnnAssign)) and x.value is not None:
                        tg = x.target if isinstance(x, ast.AnnAssign) else x.targets[0]
                        if isinstance(tg, ast.Attribute) and tg.attr == a and isinstance(tg.value, ast.Name) and tg.value.id == "self":
                            rhs = x.value
                    if isinstance(x, ast.AugAssign) and isinstance(x.target, ast.Attribute) and x.target.attr == a and not isinstance(x.op, (ast.Sub, ast.BitAnd)):
                        rhs = x.value  # (a -= / &= only shrinks the set)
                    if isinstance(x, ast.Call) and isinstance(x.func, ast.Attribute) and x.func.attr in ("update", "add", "extend", "append") \
                            and isinstance(x.func.value, ast.Attribute) and x.func.value.attr == a and x.args:
                        rhs = x.args[0]
                    if rhs is None or w.name == "__init__" and isinstance(rhs, (ast.Call, ast.Set, ast.Constant, ast.Dict, ast.List)) and not [n for n in ast.walk(rhs) if isinstance(n, ast.Name)]:
                        continue
                    txt = ast.unparse(rhs)
                    from_merged = "self.operations" in txt
                    loops = [l for l in ast.walk(w.node) if isinstance(l, ast.While)]
                    after_pagination = w.name in mergers and loops and all(x.lineno > (l.end_lineno or 0) for l in loops)
                    via_helper = any(isinstance(n, ast.Attribute) and isinstance(n.value, ast.Name) and n.value.id == "self" and n.attr in sc.methods
                                     and "self.operations" in ast.unparse(sc.methods[n.attr].node) and not any(isinstance(v, ast.Name) and v.id != "self" for c0 in ast.walk(rhs) if isinstance(c0, ast.Call) for v in c0.args)
                                     for n in ast.walk(rhs))
                    ck.ob("R5.boundary-cache-built-from-merged-history", fn_construct(w), from_merged or after_pagination or via_helper,
                          f"`self.{a}` (which decides the switch from REPLAY to NEW) is filled from `{txt[:80]}` in {w.name}: not from the merged operation map "
                          "and not after the pagination loop - completed operations on later pages are ignored and their log lines are emitted again",
                          where=f"line {x.lineno}", cell=a)

    # R3 the boundary is evaluated once after the history is loaded and before the handler starts: track_replay only runs when an operation is *left*, so a
    # history without any completed operation (a first invocation whose state was paginated, a step whose retry is pending) would otherwise keep the
    # logger muted while the first operation - possibly a newly executed step - runs
    from sa.protocol import wrapper_traces as _wt
    bad_b = []
    n_started = 0
    for t in _wt(pm, faults=False):
        evs_ = t.events
        fetch_ = [i for i, e in enumerate(evs_) if e.kind == "FETCH"]
        start_ = [i for i, e in enumerate(evs_) if e.kind in ("RESULT",)]
        if not fetch_ or not start_:
            continue
        n_started += 1
        if not any(e.kind == "TRACK" for e in evs_[fetch_[0]:start_[0]]):
            bad_b.append(t)
    ck.floor("wrapper_paths_reaching_the_handler", n_started, 5)
    ck.ob("R3.boundary-evaluated-before-the-handler-runs", fn_construct(wrapper), not bad_b,
          "between loading the history and starting the handler the replay boundary is never evaluated: with a history that holds no completed operation "
          "([EXECUTION, STEP(READY)], or a first invocation whose state is paginated) the logger stays muted until the first operation has been left - "
          "the log calls inside a newly executed step are swallowed")

    # R4 the replay boundary counts exactly the operations that can never change again (an operation in READY/PENDING/STARTED still has
    # work to do in this invocation: counting it keeps the logger muted while new code runs; leaving a terminal status out un-mutes early)
    from sa.common import replay_completed_statuses
    term = terminal_statuses(prog)
    try:
        tests = replay_completed_statuses(prog)
    except AnalysisError as e_:
        # no status test of the expected shape: undecided here - the small-history rule below (R6) still judges what the code does (mutscan 4: the status
        # conjunct dropped altogether - every recorded operation, in flight or not, counts as completed)
        tests = []
        ck.undecided_rule(f"R4.terminal-set: {e_}")
    ck.analysed["replay_status_tests"] = len(tests)
    for got, where in tests:
        ck.ob("R4.terminal-set", "state.py:ExecutionState.track_replay", got == term,
              f"{where} counts {sorted(got)} as completed; the operations that can no longer change are {sorted(term)} "
              f"(extra: {sorted(got - term)}, missing: {sorted(term - got)})")
    # R6 (interpretive, small histories): the switch from REPLAY to NEW happens exactly when every completed operation that a replay can
    # still reach has been passed. A context that is replayed from its record does not run its body again, so the operations recorded inside
    # it are never visited one by one: they must not keep the logger muted once the context itself has been passed.
    from sa.values import EnumVal, SeqVal
    sc_ = prog.cls("state", "ExecutionState")
    opc_ = prog.cls("lambda_service", "Operation")
    st_ = prog.cls("lambda_service", "OperationStatus")
    ty_ = prog.cls("lambda_service", "OperationType")
    rs_ = prog.cls("state", "ReplayStatus")
    tr_ = sc_.methods.get("track_replay")
    if tr_ is None:
        raise AnalysisError("ExecutionState.track_replay not found")

    def mkop(i, typ, status, parent=None):
        o = Obj(opc_, label=f"op_{i}")
        o.fields.update(operation_id=Const(i), operation_type=EnumVal(ty_.fq, typ, ty_.enum_members[typ]), status=EnumVal(st_.fq, status, st_.enum_members[status]),
                        parent_id=Const(parent) if parent else NONE, context_details=NONE, name=NONE)
        return o

    SCEN = [
        ("a completed context C holding a completed step; C is passed", [("C", "CONTEXT", "SUCCEEDED", None), ("s", "STEP", "SUCCEEDED", "C")], [], "C", True),
        ("a failed context F holding a completed step; F is passed", [("F", "CONTEXT", "FAILED", None), ("s", "STEP", "SUCCEEDED", "F")], [], "F", True),
        ("nested completed contexts C > G > s; C is passed", [("C", "CONTEXT", "SUCCEEDED", None), ("G", "CONTEXT", "SUCCEEDED", "C"), ("s", "STEP", "SUCCEEDED", "G")], [], "C", True),
        ("two completed steps a, b; only a is passed", [("a", "STEP", "SUCCEEDED", None), ("b", "STEP", "SUCCEEDED", None)], [], "a", False),
        ("two completed steps a, b; a was passed, now b", [("a", "STEP", "SUCCEEDED", None), ("b", "STEP", "SUCCEEDED", None)], ["a"], "b", True),
        ("completed step a followed by a started step x; a is passed", [("a", "STEP", "SUCCEEDED", None), ("x", "STEP", "STARTED", None)], [], "a", True),
        ("completed step a followed by a step waiting for its retry; a is passed", [("a", "STEP", "SUCCEEDED", None), ("p", "STEP", "PENDING", None)], [], "a", True),
        ("completed step a followed by a step ready for its retry; a is passed", [("a", "STEP", "SUCCEEDED", None), ("r", "STEP", "READY", None)], [], "a", True),
        ("the execution record and one completed step a; a is passed", [("e", "EXECUTION", "STARTED", None), ("a", "STEP", "SUCCEEDED", None)], [], "a", True),
        ("a context still open (suspended inside) with a completed step s; s is passed", [("C", "CONTEXT", "STARTED", None), ("s", "STEP", "SUCCEEDED", "C")], [], "s", True),
        ("completed step a and a later completed (empty) context C; only a is passed", [("a", "STEP", "SUCCEEDED", None), ("C", "CONTEXT", "SUCCEEDED", None)], [], "a", False),
        ("completed context C (holding s) and a later completed step b; only C is passed", [("C", "CONTEXT", "SUCCEEDED", None), ("s", "STEP", "SUCCEEDED", "C"), ("b", "STEP", "SUCCEEDED", None)], [], "C", False),
    ]
    bad6 = []
    undecided6 = []
    for label, hist, before, visit, want_new in SCEN:
        def sf(it, state, hist=hist, before=before):
            # built by its own __init__ (so that whatever bookkeeping it sets up exists), then given the scenario's history
            from sa.protocol import make_real_state
            it.nofork += 1
            try:
                o = make_real_state(it, prog)
            finally:
                it.nofork -= 1
            it.events.clear()
            o.fields.update(operations=DictVal({h[0]: mkop(*h) for h in hist}), _visited_operations=SeqVal("set", [Const(b_) for b_ in before]),
                            _replay_status=EnumVal(rs_.fq, "REPLAY", rs_.enum_members["REPLAY"]))
            for n_ in ast.walk(tr_.node):
                if isinstance(n_, ast.Attribute) and isinstance(n_.value, ast.Name) and n_.value.id == "self" and n_.attr.endswith("_lock"):
                    o.fields[n_.attr] = Sym(n_.attr, TypeRef(prim="ext:threading.Lock"))
            return o

        pn = [p_.arg for p_ in tr_.node.args.args if p_.arg != "self"][0]
        trs = pm.run_function(tr_, sf, lambda it, state, visit=visit: {pn: Const(visit)}, cell=("track_replay", label), loop_iters=8, while_iters=10,
                              ext_calls={"builtins.set": lambda it, a, k, n: SeqVal("set", list(a[0].items) if a and isinstance(a[0], SeqVal) else [])})
        outcomes = set()
        for t in trs:
            to_new = any(e.kind == "SETATTR" and e.data["attr"] == "_replay_status" and "NEW" in str(e.data.get("value")) for e in t.events)
            outcomes.add(to_new if t.outcome == "return" else f"raises {t.exc_class()}")
        if outcomes == {True, False}:
            undecided6.append(label)
        elif outcomes != {want_new}:
            bad6.append(f"{label}: the logger {'must be un-muted' if want_new else 'must stay muted'}, analysis finds {sorted(map(str, outcomes))}")
    ck.floor("replay_boundary_scenarios", len(SCEN), 10)
    if undecided6:
        ck.undecided_rule(f"R6.boundary-on-small-histories: the replay boundary depends on state the scenarios do not determine ({len(undecided6)}/{len(SCEN)} scenarios fork)")
    ck.ob("R6.boundary-on-small-histories", fn_construct(tr_), not bad6, f"{len(bad6)}/{len(SCEN)}: " + "; ".join(bad6[:2]) if bad6 else f"{len(SCEN)} scenarios")
    return ck


if __name__ == "__main__":
    main(PID, build)
