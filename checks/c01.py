"""C01 - completed operations are never re-executed; the recorded outcome is returned.

Decided (necessary structural clauses, see DESIGN.md section 2):
  R1 terminal short-circuit: in every terminal cell no user code / strategy / checkpoint
  R2 the value returned (error raised) is the recorded one (provenance)
  R3 single writer of ExecutionState.operations
  R4 history loaded before user code; pagination loop threads the marker
  R5 every DurableContext operation goes through process() with the id it drew and the shared state
"""

from __future__ import annotations

import ast

from sa.cfg import CFG, walk_shallow
from sa.common import applicable_cells, fn_construct, terminal_statuses, trace_sig
from sa.model import AnalysisError, load_program
from sa.protocol import (
    ABSENT,
    ProtocolModel,
    context_method_traces,
    is_suspend,
    user_events,
)
from sa.report import Check, main
from sa.values import Const, Obj, Sym

PID = "C01"


def recorded(v, prefix="op@0.0") -> bool:
    return isinstance(v, Sym) and v.k.startswith(prefix)


def build() -> Check:
    prog = load_program()
    pm = ProtocolModel(prog)
    ck = Check(
        PID,
        "completed operations are never re-executed",
        "Abstract interpretation of every OperationExecutor.process() over the backend status the operation is "
        "found in: for each terminal status the finite set of event traces (user calls, strategy calls, "
        "checkpoints, (de)serialisations, return/raise) is enumerated from the source and judged; plus "
        "who-may-write on ExecutionState.operations, dominance of the history load over the first user code, "
        "and the def-use chain id -> OperationIdentifier -> executor in every DurableContext operation.",
        [
            "which status cell a real history produces (backend semantics, crash points, schedules) is not decided",
            "a SUCCEEDED context replayed in replay-children mode has a deterministic body (it does not raise on replay)",
            "applicability table APPLICABLE (sa/common.py) lists the statuses the service can hold per operation type",
        ],
        "one obligation per (rule, executor, terminal status) / (rule, function); non-trivial = has at least one trace or call site",
    )
    term = terminal_statuses(prog)
    ck.analysed["terminal_set"] = sorted(term)
    n_cells = 0
    n_traces = 0
    for name, ci, ot, st in applicable_cells(pm):
        if st not in term:
            continue
        n_cells += 1
        traces = pm.run_cell(ci, st, faults=True)
        n_traces += len(traces)
        construct = f"{ci.module.relpath.split('aws_durable_execution_sdk_python/')[-1]}:{ci.name}"
        bad1 = []
        bad2 = []
        for t in traces:
            if t.kinds("LOOP_CUT"):
                raise AnalysisError(f"loop in executor path {name}/{st}: the protocol table is not exact")
            users = user_events(t, "user")
            strats = user_events(t, "strategy") + user_events(t, "summary")
            ckpts = t.kinds("CKPT")
            replay_children = any("replay_children" in k and v is True for k, v in t.pc) and ot == "CONTEXT" and st == "SUCCEEDED"
            if replay_children:
                body_raised_exception = any(
                    e.data.get("outcome", "").startswith("builtins.Exception") for e in users
                )
                if len(users) > 1 or strats or (ckpts and not body_raised_exception):
                    bad1.append(t)
            elif users or strats or ckpts:
                bad1.append(t)
            # outcome / provenance
            if st == "SUCCEEDED":
                if t.outcome == "return":
                    v = t.value
                    ok = False
                    if ot == "CALLBACK":
                        ok = recorded(v) and v.k.endswith("callback_id")
                    elif isinstance(v, Const) and v.value is None:
                        ok = True
                    elif isinstance(v, Sym) and v.parts and v.parts[0] == "DES":
                        src = v.parts[2]
                        ok = recorded(src) and src.k.endswith(".result")
                    elif replay_children and isinstance(v, Sym) and v.k.startswith("ret:func"):
                        ok = True
                    if not ok:
                        bad2.append(t)
                else:
                    # raising from a SUCCEEDED cell: only infrastructure (deserialisation) errors,
                    # missing callback details, or whatever the replayed body raised
                    c = t.exc_class() or ""
                    allowed = (
                        c.endswith("ExecutionError") or c.endswith("CallbackError") or replay_children
                    )
                    if not allowed:
                        bad2.append(t)
            else:  # failure statuses
                if ot == "CALLBACK":
                    if not (t.outcome == "return" and recorded(t.value)) and not (t.exc_class() or "").endswith("CallbackError"):
                        bad2.append(t)
                elif t.outcome != "raise" or is_suspend(prog, t):
                    bad2.append(t)
                else:
                    v = t.value
                    if not (isinstance(v, Obj) and v.cls_name == "CallableRuntimeError"):
                        bad2.append(t)
                    else:
                        msg = v.fields.get("message")
                        # recorded error fields, or the literal "unknown error" default when no error object exists
                        if not (recorded(msg) or isinstance(msg, (Const, Sym))):
                            bad2.append(t)
                        elif isinstance(msg, Sym) and not recorded(msg) and not msg.k.startswith("param:"):
                            bad2.append(t)
        ck.ob("R1.terminal-short-circuit", construct, not bad1,
              f"{len(bad1)} of {len(traces)} traces run user code / strategy / checkpoint in a terminal cell: "
              + (trace_sig(bad1[0]) if bad1 else ""), cell=st)
        ck.ob("R2.recorded-outcome", construct, not bad2,
              f"{len(bad2)} of {len(traces)} traces deliver something other than the recorded outcome: "
              + (trace_sig(bad2[0]) if bad2 else ""), cell=st)
        if traces:
            ck.sample({"cell": [name, st], "trace": trace_sig(traces[0])})
    if ck.tier == "thorough":
        from sa.common import APPLICABLE
        from sa.compose import explore

        for name, ci in pm.executors.items():
            ot = pm.executor_optype(ci)
            all_cells = {s_: pm.run_cell(ci, s_, faults=True) for s_ in [ABSENT, *APPLICABLE[ot]]}
            seen, findings, n_steps = explore(ot, all_cells)
            re_ex = [f for f in findings if f[0] == "reexecution"]
            c = f"{ci.module.relpath.split('aws_durable_execution_sdk_python/')[-1]}:{ci.name}"
            ck.ob("R6.no-reexecution-across-invocations", c, not re_ex,
                  (re_ex[0][1] + " | witness: " + " / ".join(re_ex[0][2])[-400:]) if re_ex else f"{len(seen)} history states, {n_steps} transitions")
    ck.floor("terminal_cells", n_cells, 13)
    ck.floor("traces", n_traces, 10)

    # R3 --- single writer of ExecutionState.operations ---------------------------------
    allowed = {"state.py:ExecutionState.__init__", "state.py:ExecutionState.fetch_paginated_operations"}
    writers = []
    MUT = {"update", "pop", "clear", "setdefault", "popitem", "__setitem__", "__delitem__"}
    for fi in prog.functions.values():
        if isinstance(fi.node, ast.Lambda):
            continue
        for node in walk_shallow(fi.node):
            hit = None
            if isinstance(node, ast.Attribute) and node.attr == "operations" and isinstance(node.ctx, (ast.Store, ast.Del)):
                hit = "assign"
            elif isinstance(node, ast.Subscript) and isinstance(node.ctx, (ast.Store, ast.Del)) \
                    and isinstance(node.value, ast.Attribute) and node.value.attr == "operations":
                hit = "item-store"
            elif isinstance(node, ast.Call) and isinstance(node.func, ast.Attribute) and node.func.attr in MUT \
                    and isinstance(node.func.value, ast.Attribute) and node.func.value.attr == "operations":
                hit = node.func.attr
            if hit:
                writers.append((fn_construct(fi), hit, node.lineno))
    ck.floor("operations_writers", len(writers), 2)
    for c, how, line in writers:
        ck.ob("R3.single-writer", c, c in allowed, f"{how} on .operations outside the two owners", where=f"line {line}")
    # the reader reads only that map
    gcr = prog.func("state", "ExecutionState.get_checkpoint_result")
    reads = [n for n in ast.walk(gcr.node) if isinstance(n, ast.Attribute) and isinstance(n.value, ast.Name) and n.value.id == "self"]
    attrs = {n.attr for n in reads}
    ck.ob("R3.reader", fn_construct(gcr), "operations" in attrs and attrs <= {"operations", "_operations_lock"},
          f"get_checkpoint_result consults {sorted(attrs)}")

    # R4 --- history before user code ----------------------------------------------------
    wrapper = prog.func("execution", "durable_execution.<locals>.wrapper")
    g = CFG(wrapper)
    fetch = g.find_calls("fetch_paginated_operations")
    submits = [n for n in g.find_calls("submit")]
    user_submits = []
    for n in submits:
        for c in g.calls_at(n):
            if isinstance(c.func, ast.Attribute) and c.func.attr == "submit" and c.args \
                    and isinstance(c.args[0], ast.Name) and c.args[0].id == "func":
                user_submits.append(n)
    ck.floor("wrapper_fetch_calls", len(fetch), 1)
    ck.floor("wrapper_user_submits", len(user_submits), 1)
    for s in user_submits:
        ck.ob("R4.load-before-user-code", fn_construct(wrapper),
              any(g.dominates(f.idx, s.idx) for f in fetch),
              "fetch_paginated_operations does not dominate executor.submit(func, ...)", where=g.loc(s))
    fpo = prog.func("state", "ExecutionState.fetch_paginated_operations")
    # the pagination loop, by interpretation: pages are requested with the marker of the previous page until the marker is exhausted
    from sa.protocol import make_real_state
    from sa.values import Sym as _Sym, TypeRef as _TypeRef

    def h_page(it, recv, args, kwargs, node):
        if "service_client" not in recv.key():
            return NotImplemented
        n_ = sum(1 for e in it.events if e.kind == "PAGE") + 1
        it.emit("PAGE", node, n=n_, marker=kwargs.get("next_marker", args[2] if len(args) > 2 else _Sym("?")).key(),
                token=kwargs.get("checkpoint_token", _Sym("?")).key())
        return _Sym(f"page#{n_}", _TypeRef(classes=(prog.cls("lambda_service", "StateOutput").fq,)))

    def kw_f(it, state):
        return {"initial_operations": _Sym("initial_operations", _TypeRef(prim="ext:list")), "checkpoint_token": _Sym("token", _TypeRef(prim="str")),
                "next_marker": _Sym("marker0", _TypeRef(prim="str", optional=True))}

    ptr = pm.run_function(fpo, lambda it, state: make_real_state(it, prog), kw_f, cell=("fetch_paginated_operations", ""),
                          ext_method_hooks={"get_execution_state": h_page}, while_iters=3)
    badp = []
    n_pages = 0
    for t in ptr:
        pages = t.kinds("PAGE")
        n_pages += len(pages)
        d = dict(t.pc)
        prev = "marker0"
        for p_ in pages:
            if p_.data["marker"] != prev:
                badp.append((f"page {p_.data['n']} is requested with marker {p_.data['marker']}, expected {prev}", t))
            if p_.data["token"] != "token":
                badp.append((f"page {p_.data['n']} is requested with token {p_.data['token']}", t))
            prev = f"page#{p_.data['n']}.next_marker"
        if t.kinds("LOOP_CUT"):
            continue
        # the loop may only end once the current marker is known to be exhausted
        exhausted = d.get(f"truthy({prev})") is False or d.get(f"{prev} is None") is True
        if not exhausted:
            badp.append((f"the history load stops after {len(pages)} page(s) although the marker {prev} was not found exhausted "
                         "(an empty page may still carry a marker; later pages hold completed operations that would be re-executed)", t))
        if t.outcome != "return":
            badp.append((f"history load raises {t.exc_class()}", t))
    ck.floor("pagination_paths", len(ptr), 3)
    ck.ob("R4.pagination-until-exhausted", fn_construct(fpo), not badp, (badp[0][0]) if badp else f"{len(ptr)} paths, {n_pages} page requests")
    loops = [n for n in ast.walk(fpo.node) if isinstance(n, ast.While)]
    collected = any(
        isinstance(c, ast.Call) and isinstance(c.func, ast.Attribute) and c.func.attr in ("extend", "append")
        and c.args and isinstance(c.args[0], ast.Attribute) and c.args[0].attr == "operations"
        for lp in loops for c in ast.walk(lp)
    )
    ck.ob("R4.pagination-loop", fn_construct(fpo), collected and bool(loops), f"every fetched page must be collected inside the loop (loops={len(loops)}, page-collected={collected})")
    # the merged map is keyed by the operation's own id and fed from the collected pages + the initial page
    upd = [c for c in ast.walk(fpo.node) if isinstance(c, ast.Call) and isinstance(c.func, ast.Attribute)
           and c.func.attr == "update" and isinstance(c.func.value, ast.Attribute) and c.func.value.attr == "operations"]
    ok_key = False
    for c in upd:
        if c.args and isinstance(c.args[0], ast.DictComp):
            dc = c.args[0]
            tgt = dc.generators[0].target
            if isinstance(tgt, ast.Name) and isinstance(dc.key, ast.Attribute) and dc.key.attr == "operation_id" \
                    and isinstance(dc.key.value, ast.Name) and dc.key.value.id == tgt.id \
                    and isinstance(dc.value, ast.Name) and dc.value.id == tgt.id and not dc.generators[0].ifs:
                ok_key = True
    ck.ob("R4.merge-keyed-by-id", fn_construct(fpo), ok_key,
          "operations.update must map op.operation_id -> op for every collected operation (no filter)")
    first = [st for st in fpo.node.body if isinstance(st, (ast.Assign, ast.AnnAssign))]
    init_used = any("initial_operations" in ast.unparse(st.value) for st in first if st.value is not None)
    ck.ob("R4.initial-page-merged", fn_construct(fpo), init_used, "initial_operations does not seed the merged list")

    # R5 --- every context operation goes through process() with its own id and the shared state
    ctx_traces = context_method_traces(pm)
    ck.floor("context_operations", len(ctx_traces), 8)
    for mname, traces in ctx_traces.items():
        construct = f"context.py:DurableContext.{mname}"
        bad = []
        n_proc = 0
        for t in traces:
            procs = t.kinds("PROCESS")
            ids = t.kinds("NEWID")
            if t.outcome == "raise" and not procs and (t.exc_class() or "").endswith("ValidationError"):
                continue  # argument validation before anything happens
            n_proc += len(procs)
            if mname == "wait_for_callback":
                continue
            if len(procs) != 1 or len(ids) != 1:
                bad.append((t, "process()/id count"))
                continue
            p = procs[0]
            if p.data.get("operation_id") != "id#1" or p.data.get("state") != "state":
                bad.append((t, f"executor bound to id={p.data.get('operation_id')} state={p.data.get('state')}"))
        if mname == "wait_for_callback":
            continue
        ck.ob("R5.through-template", construct, not bad and n_proc > 0,
              (bad[0][1] + ": " + trace_sig(bad[0][0])) if bad else f"{n_proc} process() calls")
    # R3 the operation map is written by the background thread (checkpoint responses) while user threads read it: a lookup of one key is atomic,
    # an *iteration* (items / values / comprehension) is not - it raises "dictionary changed size during iteration" when a response is merged
    # meanwhile, and the replay tracking runs in the `finally` of every operation. Every iteration happens under the map's lock.
    sc1 = prog.cls("state", "ExecutionState")
    n_iter = 0
    for mname1, m1 in sc1.methods.items():
        if mname1 == "__init__":
            continue
        locked = [w for w in ast.walk(m1.node) if isinstance(w, ast.With) and any("_operations_lock" in ast.unparse(i_.context_expr) for i_ in w.items)]
        # locals bound to the map or to a live view of it (not a copy)
        views = set()
        for a1 in ast.walk(m1.node):
            if isinstance(a1, (ast.Assign, ast.AnnAssign)) and a1.value is not None:
                vt = ast.unparse(a1.value)
                if vt == "self.operations" or vt in ("self.operations.items()", "self.operations.values()", "self.operations.keys()"):
                    for t1 in ([a1.target] if isinstance(a1, ast.AnnAssign) else a1.targets):
                        if isinstance(t1, ast.Name):
                            views.add(t1.id)
        for n1 in ast.walk(m1.node):
            it_expr = None
            if isinstance(n1, (ast.For, ast.comprehension)):
                it_expr = n1.iter
            elif isinstance(n1, ast.Call) and isinstance(n1.func, ast.Name) and n1.func.id in ("list", "dict", "set", "tuple", "sorted", "len", "any", "all") and n1.args:
                it_expr = n1.args[0] if n1.func.id != "len" else None
            if it_expr is None:
                continue
            txt = ast.unparse(it_expr)
            if not (txt == "self.operations" or txt.startswith("self.operations.items(") or txt.startswith("self.operations.values(") or txt.startswith("self.operations.keys(")
                    or (isinstance(it_expr, ast.Name) and it_expr.id in views)):
                continue
            n_iter += 1
            inside = any(any(n1 is x for x in ast.walk(w)) for w in locked)
            ck.ob("R3.operations-iterated-under-lock", fn_construct(m1), inside,
                  f"`{txt}` is iterated without holding _operations_lock: a checkpoint response merged by the background thread in the meantime raises RuntimeError "
                  "(dictionary changed size during iteration) - from the `finally` of the operation that was being replayed", where=f"line {getattr(n1, 'lineno', getattr(it_expr, 'lineno', 0))}")
    ck.floor("operation_map_iterations", n_iter, 1)

    # the recorded outcome of an operation inside a child body is found by the id drawn from the body's context: a body that is run
    # again (timer re-submission, next invocation) must draw the same ids, i.e. start from a context created for that run
    from sa.common import child_context_escapes
    sites_cc, esc = child_context_escapes(prog)
    ck.floor("child_context_creation_sites", len(sites_cc), 4)
    for fi_, c_ in sites_cc:
        mine = [why for f2, n2, why in esc if f2 is fi_]
        ck.ob("R5.body-rerun-draws-same-ids", fn_construct(fi_), not mine, "; ".join(mine), where=f"line {c_.lineno}")
    return ck


if __name__ == "__main__":
    main(PID, build)
