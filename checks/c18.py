"""C18 - every invocation ends with exactly one well-formed, correctly classified outcome (DESIGN.md section 19)."""

from __future__ import annotations

import ast

from sa.cfg import walk_shallow
from sa.common import fn_construct, trace_sig
from sa.interp import _Raise
from sa.model import AnalysisError, load_program
from sa.protocol import BTE_FQ, ORPHAN_FQ, SUSPEND_FQ, ProtocolModel, short, wrapper_result_outcomes, wrapper_traces
from sa.report import Check, main
from sa.values import Const, DictVal, Obj, Sym

PID = "C18"
EXC = "aws_durable_execution_sdk_python.exceptions."


def status_of(t):
    if t.outcome == "return" and isinstance(t.value, DictVal):
        s = t.value.items.get("Status")
        return s.value if isinstance(s, Const) else f"?{s.key() if s else None}"
    return None


def build() -> Check:
    prog = load_program()
    pm = ProtocolModel(prog)
    ck = Check(
        PID, "one well-formed, correctly classified outcome",
        "The handler wrapper is interpreted with user_future.result() enumerated over 'returns' and every exception class of the SDK lattice (plus abstract "
        "Exception / BaseException), json.dumps of the user's result forked into ok/TypeError/ValueError, and checkpoint failures injected: the resulting outcome "
        "table is compared with the classification of the statement; every returned dictionary is checked for well-formedness per status; every handler of the "
        "try must be live (no shadowing); on every exit the checkpoint thread is stopped before the pool is joined; malformed payloads raise ExecutionError.",
        ["classification of concrete botocore errors into CheckpointError categories is value-level (only reachability of both categories is checked)",
         "liveness of leaked threads at run time is not decided"],
        "one obligation per exception class / rule",
    )
    wrapper = prog.func("execution", "durable_execution.<locals>.wrapper")
    c_w = fn_construct(wrapper)
    wt = wrapper_traces(pm, faults=True)
    ck.floor("wrapper_traces", len(wt), 20)
    by = {}
    for t in wt:
        res = [e for e in t.events if e.kind == "RESULT"]
        by.setdefault(res[0].data["outcome"] if res else "<before-handler>", []).append(t)
    ck.floor("result_outcomes", len(by), 20)
    suspend = prog.classes[SUSPEND_FQ]
    inv = prog.classes[EXC + "InvocationError"]
    cpe = prog.classes[EXC + "CheckpointError"]
    exe = prog.classes[EXC + "ExecutionError"]
    ir0 = cpe.methods.get("is_retriable")
    retriable_member = None
    if ir0 is not None:
        for n in ast.walk(ir0.node):
            if isinstance(n, ast.Compare) and isinstance(n.comparators[0], ast.Attribute) and isinstance(n.ops[0], (ast.Eq, ast.Is)):
                retriable_member = n.comparators[0].attr
    if retriable_member is None:
        raise AnalysisError("cannot read the retriable category from CheckpointError.is_retriable")
    for oc, trs in sorted(by.items()):
        if oc == "<before-handler>":
            continue
        base = oc.rstrip("*")
        # paths on which the checkpoint pipeline failed (a failed checkpoint, or a stored failure found by the wrapper's own check) are C06's
        faultless = [t for t in trs if not any((e.kind == "CKPT" and e.data.get("outcome") != "ok") or (e.kind == "FAILCHECK" and e.data.get("outcome") != "ok")
                                               for e in t.events)]
        outs = set()
        for t in faultless:
            st = status_of(t)
            outs.add(st if st else f"raise {short(t.exc_class()).rstrip('*')}{' (same)' if t.raise_origin == 'reraise' else ''}")
        cls = prog.classes.get(base)
        if oc == "return":
            want = {"SUCCEEDED", "FAILED"}  # FAILED when the result is not JSON-serialisable
            ok = outs <= want and "SUCCEEDED" in outs
            unserial = [t for t in faultless if any(e.kind == "DUMPS" and e.data["outcome"] != "ok" for e in t.events)]
            ok = ok and all(status_of(t) == "FAILED" for t in unserial) and bool(unserial)
            msg = f"handler returns -> {sorted(outs)} (non-serialisable result must become FAILED, never an unhandled raise)"
        elif cls is not None and cls.is_subclass_of(SUSPEND_FQ):
            ok, msg = outs == {"PENDING"}, f"{short(oc)} -> {sorted(outs)}, expected PENDING"
        elif cls is not None and cls.is_subclass_of(cpe.fq):
            ok = outs == {"FAILED", f"raise {short(oc)}"} or outs == {"FAILED", f"raise {short(oc)} (same)"}
            msg = f"{short(oc)} -> {sorted(outs)}, expected raise (retriable) or FAILED"
            n_cat = 0
            for t in faultless:
                r = [v for k, v in t.pc if k.endswith("error_category=?CheckpointErrorCategory")]
                if r:
                    n_cat += 1
                    if (r[-1] == retriable_member) != (t.outcome == "raise"):
                        ok, msg = False, f"category {r[-1]} ends with {t.outcome}: retriable ({retriable_member}) <-> raise, otherwise FAILED is not respected"
            if not n_cat:
                ok, msg = False, "the checkpoint error's category is never consulted"
        elif cls is not None and cls.is_subclass_of(inv.fq):
            ok, msg = outs == {f"raise {short(oc)} (same)"}, f"{short(oc)} (invocation error) -> {sorted(outs)}, expected to be re-raised for a Lambda retry"
        elif base == BTE_FQ:
            ok = outs <= {"FAILED"} | {o for o in outs if o.startswith("raise")} and "SUCCEEDED" not in outs and "PENDING" not in outs
            msg = f"BackgroundThreadError -> {sorted(outs)}"
        elif base == ORPHAN_FQ:
            ok = all(o.startswith("raise") or o in ("PENDING", "FAILED") for o in outs) and "SUCCEEDED" not in outs
            msg = f"{short(oc)} -> {sorted(outs)}"
        elif base == "builtins.BaseException":
            # a user exception that derives from BaseException but not from Exception (asyncio.CancelledError re-raised by asyncio.run(), BaseExceptionGroup):
            # "ordinary user exceptions become FAILED" and "raises only for errors that must trigger a Lambda retry" - own rule id
            ok = all(o.startswith("raise") or o in ("PENDING", "FAILED") for o in outs) and "SUCCEEDED" not in outs
            msg = f"{short(oc)} -> {sorted(outs)}"
            ck.ob("R1.base-exception-from-user-code-becomes-failed", c_w, not any(o.startswith("raise") for o in outs),
                  f"an exception of the handler that derives from BaseException only ends the invocation with {sorted(outs)}: it is raised to Lambda (a retry) instead of FAILED")
        else:
            # ExecutionError family, every other SDK error, arbitrary user exceptions
            ok, msg = outs == {"FAILED"}, f"{short(oc)} -> {sorted(outs)}, expected FAILED"
            if oc == "builtins.Exception*":
                ok = outs <= {"FAILED", "raise InvocationError (same)", "raise CheckpointError (same)"} and "FAILED" in outs
        ck.ob("R1.outcome-classification", c_w, ok, msg, cell=short(oc))
        for t in faultless[:1]:
            ck.sample({"handler_outcome": short(oc), "wrapper": sorted(outs)})

    # handler liveness (no shadowing)
    tries = [n for n in ast.walk(wrapper.node) if isinstance(n, ast.Try)]
    if not tries:
        raise AnalysisError("no try statement in the wrapper")
    main_try = max(tries, key=lambda n: len(n.handlers))
    caught = {e.data["handler"] for t in wt for e in t.events if e.kind == "CATCH"}
    ck.floor("wrapper_handlers", len(main_try.handlers), 5)
    for h in main_try.handlers:
        txt = ast.unparse(h.type) if h.type else "<bare>"
        ck.ob("R1.no-shadowed-handler", c_w, txt in caught, f"`except {txt}` is never selected for any class of the lattice (shadowed by an earlier handler)", cell=txt)
    dumps_in_try = any(isinstance(c, ast.Call) and ast.unparse(c.func) == "json.dumps" for b in main_try.body for c in ast.walk(b))
    ck.ob("R1.result-serialisation-inside-try", c_w, dumps_in_try, "json.dumps(result) is outside the try: a non-serialisable result escapes as an unclassified exception")

    # R2 well-formed returns -------------------------------------------------------------------------
    bad = []
    n_ret = 0
    for t in wt:
        if t.outcome != "return":
            continue
        n_ret += 1
        v = t.value
        if not isinstance(v, DictVal) or v.open:
            bad.append((f"returns {v.key()[:80]} (not a closed status dictionary)", t))
            continue
        st = status_of(t)
        keys = set(v.items)
        if st not in ("SUCCEEDED", "FAILED", "PENDING"):
            bad.append((f"Status is {st}", t))
        elif st == "SUCCEEDED" and not (keys == {"Status", "Result"}):
            bad.append((f"SUCCEEDED with keys {sorted(keys)}", t))
        elif st == "PENDING" and keys != {"Status"}:
            bad.append((f"PENDING with keys {sorted(keys)}", t))
        elif st == "FAILED":
            if "Result" in keys:
                bad.append(("FAILED carries a Result", t))
            recorded = any(e.kind == "CKPT" and e.data.get("type") == "EXECUTION" and e.data.get("outcome") == "ok" for e in t.events)
            if "Error" not in keys and not recorded:
                bad.append(("FAILED without an error object and without a recorded execution failure", t))
            err = v.items.get("Error")
            if err is not None and not (isinstance(err, DictVal) and "ErrorMessage" in err.items):
                bad.append((f"Error is {err.key()[:60]}", t))
            elif isinstance(err, DictVal):
                for k_, v_ in err.items.items():
                    if k_ in ("ErrorMessage", "ErrorType") and not (
                            (isinstance(v_, Const) and isinstance(v_.value, str)) or (isinstance(v_, Sym) and v_.typ is not None and v_.typ.prim == "str")):
                        bad.append((f"Error.{k_} is {v_.key()[:60]}, not provably text: a non-string would make the response malformed or not JSON-serialisable", t))
    ck.floor("returning_paths", n_ret, 10)
    ck.ob("R2.well-formed-return", c_w, not bad, (bad[0][0] + ": " + trace_sig(bad[0][1])[-200:]) if bad else f"{n_ret} returning paths")

    # ... and syntactically, for the return sites the traces do not reach (the payload of a BackgroundThreadError is opaque to the model, so the arms that hand
    # back `answer_for_failed_checkpointing()` are never taken there): every `return` of the wrapper hands back `<something>.to_dict()`, or a name that
    # was bound from the failed-checkpointing helper and tested `is not None` on the way (mutscan: `return answer` -> `return None` survived everything)
    wnode = wrapper_fn.node if "wrapper_fn" in dir() else prog.func("execution", "durable_execution.<locals>.wrapper").node
    nested = [n for n in ast.walk(wnode) if isinstance(n, (ast.FunctionDef, ast.Lambda)) and n is not wnode]

    def in_nested(n):
        return any(n is x for f in nested for x in ast.walk(f))
    parw = {}
    for n in ast.walk(wnode):
        for c in ast.iter_child_nodes(n):
            parw[id(c)] = n
    n_rs = 0
    bad_rs = []
    for r in ast.walk(wnode):
        if not isinstance(r, ast.Return) or in_nested(r):
            continue
        n_rs += 1
        v = r.value
        ok_r = isinstance(v, ast.Call) and isinstance(v.func, ast.Attribute) and v.func.attr == "to_dict"
        if not ok_r and isinstance(v, ast.Name):
            # (the wrapper re-uses `result`: first the handler's result, later - in the arm for user errors - the answer; the binding that reaches this
            # return is the last one before it in program text, both sit in the same handler body)
            defs_ = [st for st in ast.walk(wnode) if isinstance(st, (ast.Assign, ast.AnnAssign)) and not in_nested(st) and st.value is not None
                     and isinstance(st.target if isinstance(st, ast.AnnAssign) else st.targets[0], ast.Name) and (st.target if isinstance(st, ast.AnnAssign) else st.targets[0]).id == v.id
                     and st.lineno < r.lineno]
            last_ = max(defs_, key=lambda st: st.lineno).value if defs_ else None
            ok_r = isinstance(last_, ast.Call) and isinstance(last_.func, ast.Attribute) and last_.func.attr == "to_dict"
        if not ok_r and isinstance(v, ast.Name):
            cur = parw.get(id(r))
            while cur is not None and not ok_r:
                if isinstance(cur, ast.If) and any(r is x for b in cur.body for x in ast.walk(b)):
                    t_ = ast.unparse(cur.test)
                    ok_r = f"{v.id} := answer_for_failed_checkpointing()" in t_ and t_.rstrip().endswith("is not None")
                cur = parw.get(id(cur))
        if not ok_r:
            bad_rs.append(f"line {r.lineno}: `{ast.unparse(r)}`")
    ck.floor("wrapper_return_sites", n_rs, 6)
    ck.ob("R2.every-return-site-hands-back-an-answer", c_w, not bad_rs,
          "; ".join(bad_rs[:3]) + ": the invocation would answer with something that is not a status dictionary (None: a null response)")

    # R3 classification reaches both categories
    fe = cpe.methods.get("from_exception")
    cats = {n.attr for n in ast.walk(fe.node) if isinstance(n, ast.Attribute) and isinstance(n.value, ast.Name) and n.value.id == "CheckpointErrorCategory"} if fe else set()
    ck.ob("R3.both-categories-reachable", fn_construct(fe) if fe else "exceptions.py:CheckpointError.from_exception", cats >= {"INVOCATION", "EXECUTION"}, f"categories assigned: {sorted(cats)}")
    # ... and the table itself. Which checkpoint failures call for a Lambda retry is the SDK's documented classification (comment above the test, service contract):
    # a 4xx answer other than 429 that carries an error body and is not "InvalidParameterValueException: Invalid Checkpoint Token..." is the one category, everything
    # else - every 5xx, 429, the stale token, an answer without status or body - the other. The test is evaluated on a grid of status codes and error bodies
    # (r9_C18: `>= 400 and not in (429, 500)` - the three codes the suite samples keep their class, 502/503/504 change sides and the wrapper raises where it
    # must answer FAILED)
    if fe is not None:
        from sa.common import MiniEvalUnknown, mini_eval
        mod_consts = {}
        for st in prog.module("exceptions").tree.body if hasattr(prog.module("exceptions"), "tree") else []:
            if isinstance(st, (ast.Assign, ast.AnnAssign)):
                tg = st.targets[0] if isinstance(st, ast.Assign) else st.target
                if isinstance(tg, ast.Name) and isinstance(st.value, ast.Constant) and isinstance(st.value.value, int):
                    mod_consts[tg.id] = st.value.value
        cat_ifs = [n for n in ast.walk(fe.node) if isinstance(n, ast.If) and any(isinstance(x, ast.Assign) and "CheckpointErrorCategory." in ast.unparse(x.value) for x in n.body)]
        dflt = [x for x in fe.node.body if isinstance(x, (ast.Assign, ast.AnnAssign)) and x.value is not None and "CheckpointErrorCategory." in ast.unparse(x.value)]
        sc_def = [x for x in fe.node.body if isinstance(x, (ast.Assign, ast.AnnAssign)) and isinstance(x.targets[0] if isinstance(x, ast.Assign) else x.target, ast.Name)
                  and (x.targets[0] if isinstance(x, ast.Assign) else x.target).id == "status_code"]
        if len(cat_ifs) == 1 and len(dflt) == 1 and not cat_ifs[0].orelse and len(sc_def) == 1 and mod_consts:
            in_cat = ast.unparse([x for x in cat_ifs[0].body if isinstance(x, ast.Assign)][0].value).split(".")[-1]
            out_cat = ast.unparse(dflt[0].value).split(".")[-1]
            bodies = {"other error": {"Code": "ResourceNotFoundException", "Message": "no such execution"},
                      "stale token": {"Code": "InvalidParameterValueException", "Message": "Invalid Checkpoint Token: abc"},
                      "invalid parameter, other text": {"Code": "InvalidParameterValueException", "Message": "Updates too long"},
                      "other code, token text": {"Code": "ServiceException", "Message": "Invalid Checkpoint Token"},
                      "code and message missing": {"Other": 1},
                      "no body": None}
            wrong_, n_grid = [], 0
            try:
                for status in (None, 399, 400, 403, 404, 428, 429, 430, 499, 500, 501, 502, 503, 504, 599):
                    for bname, body in bodies.items():
                        md = None if status is None else {"HTTPStatusCode": status}
                        env_ = dict(mod_consts, metadata=md, error=body, base=None)
                        env_["status_code"] = mini_eval(sc_def[0].value, env_)
                        got_in = bool(mini_eval(cat_ifs[0].test, env_))
                        stale = body is not None and (body.get("Code") or "") == "InvalidParameterValueException" and (body.get("Message") or "").startswith("Invalid Checkpoint Token")
                        want_in = status is not None and 400 <= status <= 499 and status != 429 and bool(body) and not stale
                        n_grid += 1
                        if got_in != want_in:
                            wrong_.append(f"HTTP {status} with {bname}: classified {in_cat if got_in else out_cat}, the contract says {in_cat if want_in else out_cat}")
                ck.analysed["classification_grid"] = n_grid
                ck.ob("R3.checkpoint-error-classification-table", fn_construct(fe), in_cat == "EXECUTION" and out_cat == "INVOCATION" and not wrong_,
                      ("; ".join(wrong_[:3]) + f" ({len(wrong_)} of {n_grid} grid points)") if wrong_ else f"the 4xx arm assigns {in_cat}, the default is {out_cat}: the two categories are the wrong way round")
            except MiniEvalUnknown as u_:
                ck.undecided_rule(f"R3.checkpoint-error-classification-table: `{u_}` in CheckpointError.from_exception is not understood")
            except Exception as u_:   # a stand-in of the wrong type met an operator
                ck.undecided_rule(f"R3.checkpoint-error-classification-table: evaluation failed ({type(u_).__name__}: {u_})")
        else:
            ck.undecided_rule("R3.checkpoint-error-classification-table: CheckpointError.from_exception no longer has the shape default category / one test / one assignment")
    ir = cpe.methods.get("is_retriable")
    ck.ob("R3.retriable-is-a-category-test", fn_construct(ir) if ir else "exceptions.py:CheckpointError.is_retriable",
          ir is not None and "error_category" in ast.unparse(ir.node) and "CheckpointErrorCategory." in ast.unparse(ir.node), "is_retriable must be decided by the error category")

    # R4 stop before join -----------------------------------------------------------------------------
    bad = []
    n_with = 0
    for t in wt:
        evs = t.events
        pool_exit = [i for i, e in enumerate(evs) if e.kind == "WITH_EXIT" and "ThreadPoolExecutor" in e.data["ctx"]]
        pool_enter = [i for i, e in enumerate(evs) if e.kind == "WITH_ENTER" and "ThreadPoolExecutor" in e.data["ctx"]]
        if not pool_enter:
            continue
        n_with += 1
        stops = [i for i, e in enumerate(evs) if e.kind == "EXT" and e.data["method"] == "set" and "stop_checkpointing" in e.site]
        if not pool_exit:
            bad.append(("the pool's context is never left", t))
        elif not stops or min(stops) > pool_exit[0]:
            bad.append(("the pool is joined before the checkpoint thread was told to stop: the join waits for a thread that never exits", t))
        res = [i for i, e in enumerate(evs) if e.kind == "RESULT"]
        if res and res[0] < pool_enter[0]:
            bad.append(("the handler result is awaited outside the pool's context", t))
    # ... and the stop signal itself is not preceded, once the handler is done, by a wait nobody is obliged to end
    # (a blocking call placed before the signal turns "always stopped" into "stopped if that wait returns")
    badw = []
    for t in wt:
        evs = t.events
        stops = [i for i, e in enumerate(evs) if e.kind == "EXT" and e.data["method"] == "set" and "stop_checkpointing" in e.site]
        res = [i for i, e in enumerate(evs) if e.kind == "RESULT"]
        if not stops:
            continue
        for e in evs[(res[0] if res else 0): min(stops)]:
            if e.kind == "EXT" and e.data["method"] in ("join", "wait", "get", "acquire", "result") and not e.data.get("args") and not e.data.get("kwargs"):
                badw.append((f"{e.data['recv']}.{e.data['method']}() (unbounded) runs before the checkpoint thread is told to stop, at {e.site}", t))
    ck.ob("R4.stop-not-behind-a-wait", c_w, not badw, badw[0][0] if badw else "")
    ck.floor("paths_through_pool", n_with, 10)
    ck.ob("R4.stop-before-join", c_w, not bad, (bad[0][0]) if bad else f"{n_with} paths")
    for mod, q in (("state", "ExecutionState.checkpoint_batches_forever"), ("state", "ExecutionState._collect_checkpoint_batch")):
        f = prog.func(mod, q)
        for lp in [n for n in ast.walk(f.node) if isinstance(n, ast.While)]:
            test = ast.unparse(lp.test)
            body_txt = ast.unparse(ast.Module(body=lp.body, type_ignores=[]))
            ok = "_checkpointing_stopped" in test or "get_nowait" in body_txt
            ck.ob("R4.consumer-loops-observe-stop", fn_construct(f), ok, f"`while {test[:60]}` neither tests the stop flag nor is a non-blocking drain", where=f"line {lp.lineno}", cell=f"while {test[:40]}")

    # R5 malformed payload ---------------------------------------------------------------------------
    fj = prog.cls("execution", "DurableExecutionInvocationInput").methods.get("from_json_dict")
    if fj is None:
        raise AnalysisError("DurableExecutionInvocationInput.from_json_dict not found")
    from sa.protocol import Trace  # noqa: F401

    def h_fj(it, fn, sv, a, k, n):
        opts = ["ok", "builtins.KeyError", "builtins.TypeError", "builtins.AttributeError"]
        c = it.decide("from_json_dict outcome", len(opts), opts)
        it.emit("PARSE", n, outcome=opts[c])
        if c:
            raise _Raise(it.make_exc(opts[c], "payload"), it.site(n))
        return Sym("invocation_input", None)

    import sa.protocol as P
    old = pm.make_config

    def mk(**kw):
        cfg = old(**kw)
        cfg.hooks[fj.fq] = h_fj
        return cfg

    pm.make_config = mk
    try:
        dt = wrapper_traces(pm, faults=False, event_mode="dict", outcomes=["return"])
    finally:
        pm.make_config = old
    bad = []
    n_mal = 0
    for t in dt:
        p = [e for e in t.events if e.kind == "PARSE"]
        if p and p[0].data["outcome"] != "ok":
            n_mal += 1
            if not (t.outcome == "raise" and (t.exc_class() or "").endswith("ExecutionError")):
                bad.append((f"malformed payload ({short(p[0].data['outcome'])}) ends with {t.outcome} {t.exc_class() or status_of(t)}", t))
    ck.floor("malformed_payload_paths", n_mal, 3)
    ck.ob("R5.malformed-payload-raises-execution-error", c_w, not bad, bad[0][0] if bad else "")
    # R2 "SUCCEEDED (JSON result)": json.dumps accepts NaN / Infinity by default and writes the bare tokens NaN / Infinity, which are not JSON
    nan_bad = []
    n_res_dumps = 0
    for t in wt:
        for e in t.kinds("DUMPS"):
            if str(e.data.get("src", "")).startswith("handler_result"):
                n_res_dumps += 1
                if e.data.get("kwargs", {}).get("allow_nan") != "False":
                    nan_bad.append(t)
    ck.floor("handler_result_dumps", n_res_dumps, 1)
    ck.ob("R2.result-is-strict-json", c_w, not nan_bad,
          "the handler's result is serialised with json.dumps(..., allow_nan=True) (the default): a result containing float('nan') / float('inf') is answered SUCCEEDED with "
          "the text NaN / Infinity in it, which is not JSON")
    _conversion_totality(ck, prog)
    return ck


def _conversion_totality(ck, prog):
    """Two rules from review round h2 (h2_C18 #1, #3). Classification happens in `except` arms; whatever those arms evaluate BEFORE they answer must not be
    able to raise for an input that is merely unusual - an exception raised there escapes the wrapper unclassified (an AttributeError / TypeError
    that Lambda retries for ever)."""
    # R3 conversion of a foreign (botocore) exception: an attribute can be present AND None - getattr's default only covers absence.
    # botocore.exceptions.HTTPClientError (ReadTimeoutError, ConnectionClosedError, ...) sets `self.response = response` with `response=None`.
    import importlib.util
    import pathlib
    none_attrs: dict[str, list[str]] = {}
    spec = importlib.util.find_spec("botocore")
    if spec is not None and spec.submodule_search_locations:
        src = pathlib.Path(list(spec.submodule_search_locations)[0]) / "exceptions.py"
        if src.exists():
            for c in ast.walk(ast.parse(src.read_text())):
                if isinstance(c, ast.ClassDef):
                    for f in c.body:
                        if isinstance(f, ast.FunctionDef) and f.name == "__init__":
                            defaults = dict(zip([a.arg for a in f.args.args][-len(f.args.defaults):], f.args.defaults)) if f.args.defaults else {}
                            for st in ast.walk(f):
                                if isinstance(st, ast.Assign) and isinstance(st.value, ast.Name) and isinstance(defaults.get(st.value.id), ast.Constant) \
                                        and defaults[st.value.id].value is None:
                                    for t in st.targets:
                                        if isinstance(t, ast.Attribute) and isinstance(t.value, ast.Name) and t.value.id == "self":
                                            none_attrs.setdefault(t.attr, []).append(c.name)
    ck.analysed["botocore_attrs_that_may_be_none"] = {k: v for k, v in sorted(none_attrs.items())}
    exm = prog.module("exceptions")
    n_sites = 0
    for fi in [f for c in exm.classes.values() for f in c.methods.values()] + list(exm.functions.values()):
        params = {a.arg for a in fi.node.args.args}
        for st in ast.walk(fi.node):
            if not (isinstance(st, ast.Assign) and len(st.targets) == 1 and isinstance(st.targets[0], ast.Name)):
                continue
            v = st.value
            if not (isinstance(v, ast.Call) and isinstance(v.func, ast.Name) and v.func.id == "getattr" and len(v.args) == 3
                    and isinstance(v.args[0], ast.Name) and v.args[0].id in params and isinstance(v.args[1], ast.Constant)):
                continue
            if isinstance(v.args[2], ast.Constant) and v.args[2].value is None:
                continue
            name = st.targets[0].id
            deref = [n for n in ast.walk(fi.node) if (isinstance(n, ast.Attribute) and isinstance(n.value, ast.Name) and n.value.id == name)
                     or (isinstance(n, ast.Subscript) and isinstance(n.value, ast.Name) and n.value.id == name)]
            if not deref:
                continue
            n_sites += 1
            attr = v.args[1].value
            ck.ob("R3.foreign-attribute-none-safe", fn_construct(fi), False,
                  f"`{name} = {ast.unparse(v)}` and then `{ast.unparse(deref[0])}`: the default only applies when the attribute is missing; botocore exceptions "
                  f"{none_attrs.get(attr, ['(botocore source not found)'])[:3]} carry {attr}=None (read timeout, closed connection) -> AttributeError inside the "
                  "conversion, the background thread hands THAT on and the wrapper raises it raw instead of answering FAILED(CheckpointError)", where=f"line {st.lineno}")
    # the guarded idiom must exist at least once (otherwise the conversion was rewritten and this rule looks at nothing)
    guarded = sum(1 for fi in [f for c in exm.classes.values() for f in c.methods.values()] for n in ast.walk(fi.node)
                  if isinstance(n, ast.BoolOp) and isinstance(n.op, ast.Or) and any(isinstance(x, ast.Call) and isinstance(x.func, ast.Name) and x.func.id == "getattr" for x in n.values))
    ck.analysed["foreign_attribute_reads"] = {"unguarded": n_sites, "guarded": guarded}
    if n_sites + guarded == 0:
        raise AnalysisError("exceptions.py: no getattr-based read of a foreign exception found (conversion rewritten?)")
    if not n_sites:
        ck.ob("R3.foreign-attribute-none-safe", "exceptions.py", True, f"{guarded} guarded read(s)")

    # R1 conversion of a USER exception into the error record: str(exception) runs user code (__str__); a class whose __str__ returns None / raises is an
    # Exception like any other and has to end as FAILED
    eo = prog.cls("lambda_service", "ErrorObject").methods.get("from_exception")
    if eo is None:
        raise AnalysisError("ErrorObject.from_exception not found")
    # every function that is handed the USER's exception and asks it for its text: the error record, and the packaged retry strategy (whose TypeError
    # escapes retry_handler after the error object was built - neither RETRY nor FAIL is recorded, the step stays STARTED and runs again in every invocation:
    # g1_codecs #1, the half my first repair missed)
    sites = [eo]
    for fi in prog.functions.values():
        if not isinstance(fi.node, ast.Lambda) and fi.module.short() == "retries" and any(
                a.arg == "error" and a.annotation is not None and "Exception" in ast.unparse(a.annotation) for a in fi.node.args.args):
            sites.append(fi)
    n_str = 0
    for fx in sites:
        pnames = {a.arg for a in fx.node.args.args if a.annotation is not None and "Exception" in ast.unparse(a.annotation)}
        from sa.common import unguarded_text_conversions
        ns_, bad_ = unguarded_text_conversions(fx.node, pnames)
        n_str += ns_
        bad = [ln for ln, _w in bad_]
        ck.ob("R1.user-exception-text-is-guarded", fn_construct(fx), not bad,
              f"`str(<the user's exception>)` (line {bad[0] if bad else 0}) runs the user's __str__ unprotected: for an Exception class whose __str__ returns None "
              "(`return self.message`) the TypeError leaves the wrapper's `except Exception` arm (a Lambda retry that fails the same way instead of FAILED) / leaves the "
              "retry handler before RETRY or FAIL is recorded (the step stays STARTED and is executed again in every invocation)")
    ck.floor("user_exception_text_sites", n_str, 2)


if __name__ == "__main__":
    main(PID, build)
