"""C02 - replay transparency (structural clauses, DESIGN.md section 3).

  R1 exception-class agreement between first failure and replay
  R2 serializer symmetry; the recorded payload is the serialisation of the value returned
  R3 callback errors are deferred: create_callback's outcome does not depend on the status
  R4 first-run and replay build CallableRuntimeError from the same four error fields
"""

from __future__ import annotations

import ast

from sa.common import applicable_cells, fn_construct, trace_sig
from sa.model import load_program
from sa.protocol import ABSENT, ProtocolModel, context_method_traces, fault_free, is_suspend, user_events
from sa.report import Check, main
from sa.values import Const, Obj, Sym

PID = "C02"
INVOCATION_ERROR = "aws_durable_execution_sdk_python.exceptions.InvocationError"


def cls_construct(ci):
    return f"{ci.module.relpath.split('aws_durable_execution_sdk_python/')[-1]}:{ci.name}"


def terminating_classes(prog):
    """Classes the wrapper re-raises (user code never continues after them): handlers of the
    try around user_future.result() whose body ends in a bare `raise`."""
    w = prog.func("execution", "durable_execution.<locals>.wrapper")
    out = []
    for node in ast.walk(w.node):
        if isinstance(node, ast.ExceptHandler) and node.type is not None and node.body:
            last = node.body[-1]
            if isinstance(last, ast.Raise) and last.exc is None:
                fq = prog.resolve_name_expr(w.module, node.type)
                if fq:
                    out.append(fq)
    return out


def build() -> Check:
    prog = load_program()
    pm = ProtocolModel(prog)
    ck = Check(
        PID, "replay transparency",
        "From the per-cell trace table: the exception classes raised right after a synchronous FAIL record "
        "(what user code sees when the failure first happens) are compared with the class raised from the FAILED "
        "cell (what it sees on replay); serializer expressions of SER (record) and DES (replay) are compared; the "
        "payload of every SUCCEED record must be the serialisation of the very value returned; create_callback "
        "must have status-independent outcomes; error-field provenance of CallableRuntimeError is compared.",
        ["equality of values after a serializer round trip is not decided (C15 covers the codec tables)",
         "R1 judges every class user code can catch, including those the wrapper re-raises (an earlier exemption for them hid two defects: see known findings)",
         "user workflow code is deterministic"],
        "one obligation per (rule, executor[, cell])",
    )
    term = terminating_classes(prog)
    ck.floor("wrapper_reraise_handlers", len(term), 1)
    ck.analysed["terminating_classes"] = term

    cells = {}
    for name, ci, ot, st in applicable_cells(pm):
        cells[(name, st)] = (ci, ot, pm.run_cell(ci, st, faults=False))
    ck.floor("cells", len(cells), 25)
    ck.analysed["traces"] = sum(len(v[2]) for v in cells.values())

    by_exec = {}
    for (name, st), (ci, ot, trs) in cells.items():
        by_exec.setdefault(name, {"ci": ci, "ot": ot, "cells": {}})["cells"][st] = trs

    n_first = 0
    for name, info in by_exec.items():
        ci, ot = info["ci"], info["ot"]
        construct = cls_construct(ci)
        # ---- R1 / R4 ----------------------------------------------------------------
        first = []  # (class, origin, trace, fail_event)
        for st, trs in info["cells"].items():
            if st in ("FAILED", "SUCCEEDED", "TIMED_OUT", "STOPPED", "CANCELLED"):
                continue
            for t in trs:
                fails = [e for e in t.kinds("CKPT") if e.data.get("action") == "FAIL" and e.data.get("outcome") == "ok"]
                if fails and t.outcome == "raise" and not is_suspend(prog, t):
                    first.append((t.exc_class(), t.raise_origin, t, fails[-1]))
        replay = info["cells"].get("FAILED", [])
        replay_classes = {t.exc_class() for t in replay if t.outcome == "raise"}
        if first:
            n_first += 1
            bad = []
            for c, origin, t, ev in first:
                # (an earlier version exempted the classes the handler wrapper re-raises - "the invocation ends, user code lets them propagate" - which
                # is wrong once a FAIL record has been written: the retried invocation finds FAILED and raises the replay class, and whether an enclosing
                # context got its own FAIL record in between depends on where the invocation died, so the final outcome does too: h2_C02 #2)
                if c in replay_classes and not (c or "").endswith("*"):
                    continue
                bad.append((c, origin, t))
            if not bad:
                ck.ob("R1.exception-class-agreement", construct, True, f"first={sorted({f[0] for f in first})} replay={sorted(replay_classes)}")
            # one obligation per disagreeing class, so that a known disagreement does not hide a new one of the same executor
            for cname in sorted({b[0] or "?" for b in bad}):
                b0 = next(b for b in bad if (b[0] or "?") == cname)
                ck.ob("R1.exception-class-agreement", construct, False,
                      f"first failure raises {b0[0]} ({b0[1]}) but replay raises {sorted(replay_classes)}: " + trace_sig(b0[2]),
                      cell=cname.rsplit(".", 1)[-1].rstrip("*"))
            # R4: field provenance
            bad4 = []
            for c, origin, t, ev in first:
                v = t.value
                if not (isinstance(v, Obj) and v.cls_name == "CallableRuntimeError"):
                    continue
                eo = ev.data.get("error_v")
                if not isinstance(eo, Obj):
                    bad4.append((t, "FAIL record carries no ErrorObject"))
                    continue
                pairs = {"message": "message", "error_type": "type", "data": "data", "stack_trace": "stack_trace"}
                for ef, of in pairs.items():
                    a, b = v.fields.get(ef), eo.fields.get(of)
                    if a is None or b is None or a.key() != b.key():
                        bad4.append((t, f"raised.{ef} != recorded ErrorObject.{of}"))
            for t in replay:
                v = t.value
                if isinstance(v, Obj) and v.cls_name == "CallableRuntimeError":
                    msg = v.fields.get("message")
                    if isinstance(msg, Sym) and msg.k.startswith("op@0.0"):
                        pairs = {"message": ".error.message", "error_type": ".error.type", "data": ".error.data",
                                 "stack_trace": ".error.stack_trace"}
                        for ef, suffix in pairs.items():
                            a = v.fields.get(ef)
                            if not (isinstance(a, Sym) and a.k.endswith(suffix)):
                                bad4.append((t, f"replayed.{ef} is not the recorded{suffix}"))
            ck.ob("R4.error-field-agreement", construct, not bad4,
                  (bad4[0][1] + ": " + trace_sig(bad4[0][0])) if bad4 else "")

        # ---- R2 ---------------------------------------------------------------------
        ser_keys, des_keys = set(), set()
        bad_payload = []
        for st, trs in info["cells"].items():
            for t in trs:
                for e in t.kinds("CKPT"):
                    if e.data.get("action") in ("SUCCEED",) and e.data.get("outcome") == "ok":
                        pv = e.data.get("payload_v")
                        large = any("len(" in k and v is True for k, v in t.pc)
                        if isinstance(pv, Sym) and pv.parts and pv.parts[0] == "SER":
                            ser_keys.add(pv.parts[1].key())
                            if t.outcome == "return" and t.value is not None and pv.parts[2].key() != t.value.key():
                                bad_payload.append((t, "SUCCEED payload is not the serialisation of the returned value"))
                        elif ot in ("STEP", "CONTEXT") and not large:
                            bad_payload.append((t, f"SUCCEED payload is {pv.key() if pv else None}, not a serialisation"))
        for t in info["cells"].get("SUCCEEDED", []):
            if t.outcome == "return" and isinstance(t.value, Sym) and t.value.parts and t.value.parts[0] == "DES":
                des_keys.add(t.value.parts[1].key())
        if ser_keys or des_keys:
            if ot == "CHAINED_INVOKE":
                # the writer is the invoked function (remote); only the read side exists here
                ck.ob("R2.serdes-symmetry", construct, all("serdes_result" in k or "DEFAULT_JSON_SERDES" in k for k in des_keys),
                      f"invoke result deserialised with {sorted(des_keys)}")
            else:
                ck.ob("R2.serdes-symmetry", construct, ser_keys == des_keys and len(ser_keys) >= 1,
                      f"record side uses {sorted(ser_keys)}, replay side uses {sorted(des_keys)}")
            ck.ob("R2.payload-is-returned-value", construct, not bad_payload,
                  (bad_payload[0][1] + ": " + trace_sig(bad_payload[0][0])) if bad_payload else "")
        # wait_for_condition: polling state is restored with the serdes it was recorded with
        if name.startswith("WaitForCondition"):
            rec, rest = set(), set()
            for st, trs in info["cells"].items():
                for t in trs:
                    for e in t.kinds("CKPT"):
                        pv = e.data.get("payload_v")
                        if e.data.get("action") == "RETRY" and isinstance(pv, Sym) and pv.parts and pv.parts[0] == "SER":
                            rec.add(pv.parts[1].key())
                    for e in t.kinds("DES"):
                        if st in ("STARTED", "READY"):
                            rest.add(e.data["serdes"])
            ck.ob("R2.poll-state-serdes", construct, rec == rest and len(rec) == 1, f"RETRY payload serdes {sorted(rec)} vs restore serdes {sorted(rest)}")
    ck.floor("executors_with_failure_path", n_first, 3)

    # ---- R3 callback: status independence ------------------------------------------------
    cb = by_exec.get("CallbackOperationExecutor")
    if cb is None:
        from sa.model import AnalysisError
        raise AnalysisError("CallbackOperationExecutor not found")
    sigs = {}
    for st in pm.statuses:
        if st == ABSENT:
            continue
        trs = pm.run_cell(cb["ci"], st, faults=False)
        sig = set()
        for t in trs:
            if t.outcome == "return":
                sig.add("RETURN " + t.value.key())
            else:
                cond = ";".join(f"{k}->{v}" for k, v in t.pc)
                sig.add(f"RAISE {t.exc_class()} if {cond}")
            if t.kinds("CKPT") or user_events(t, "user"):
                sig.add("EFFECT")
        sigs[st] = sig
    ref = sigs["STARTED"]
    for st, sig in sigs.items():
        ok = sig == ref and any(s.startswith("RETURN op@0.0.callback_details.callback_id") for s in sig) \
            and all((not s.startswith("RAISE")) or "callback_details" in s or "operation" in s for s in sig) and "EFFECT" not in sig
        ck.ob("R3.deferred-callback-errors", cls_construct(cb["ci"]), ok,
              f"outcomes in status {st}: {sorted(sig)} (reference STARTED: {sorted(ref)})", cell=st)

    # Callback.result() uses the serdes the Callback was created with
    ctx = context_method_traces(pm).get("create_callback", [])
    vals = {t.value.fields.get("serdes").key() for t in ctx if t.outcome == "return" and isinstance(t.value, Obj)
            and "serdes" in t.value.fields}
    ck.ob("R2.callback-serdes-flow", "context.py:DurableContext.create_callback",
          vals and all(v in ("config.serdes", "None") for v in vals) and "config.serdes" in vals,
          f"Callback.serdes is bound to {sorted(vals)}")

    # a recorded success whose payload is '' / '0' / '[]' (a legal serialisation) is not "no payload": None may be delivered without
    # deserialising only on a path that established the payload's absence
    from sa.common import none_without_established_absence
    n_succ = 0
    for name_, ci_ in pm.executors.items():
        if pm.executor_optype(ci_) == "WAIT":
            continue
        badn = []
        for t in pm.run_cell(ci_, "SUCCEEDED", faults=False):
            n_succ += 1
            if user_events(t, "user"):
                continue
            if none_without_established_absence(t):
                badn.append(("delivers None for a recorded success without having established that no payload was recorded ("
                             + "; ".join("%s->%s" % kv for kv in t.pc if "result" in kv[0] or "payload" in kv[0]) + ")", t))
        ck.ob("R2.none-only-when-no-payload", cls_construct(ci_), not badn, badn[0][0] if badn else "")
    ck.floor("succeeded_cell_traces", n_succ, 8)

    # a context whose oversized result was replaced by a summary delivered its real result to the first run; on replay the recorded payload
    # (summary / nothing) may only be handed to user code once the path has established that the context is NOT in ReplayChildren mode
    child_ci = pm.executors.get("ChildOperationExecutor")
    if child_ci is not None:
        badc = []
        n_c = 0
        for t in pm.run_cell(child_ci, "SUCCEEDED", faults=False):
            if user_events(t, "user") or t.outcome != "return":
                continue
            n_c += 1
            not_rc = any(("replay_children" in k and v is False) or (k.endswith("context_details is None") and v is True) for k, v in t.pc)
            if not not_rc:
                badc.append((f"a SUCCEEDED context returns {t.value.key()} from the record without having looked at the ReplayChildren flag: the first run "
                             "delivered the real (oversized) result, the replay delivers the summary / None", t))
        ck.floor("succeeded_context_record_paths", n_c, 1)
        ck.ob("R2.summarised-context-is-rebuilt", cls_construct(child_ci), not badc, (badc[0][0]) if badc else f"{n_c} path(s)")

    # R4 (codec): the first run raises from the in-memory error object, every replay from the one decoded off the wire. The two agree on every
    # field only if the error codec drops nothing that is set - a truthiness filter turns '' (the message of `raise ValueError()`) into None
    from sa.tables import reader_table, self_root, writer_table
    eo = prog.cls("lambda_service", "ErrorObject")
    if "to_dict" not in eo.methods or "from_dict" not in eo.methods:
        from sa.model import AnalysisError
        raise AnalysisError("ErrorObject.to_dict / from_dict not found")
    wt_ = writer_table(eo.methods["to_dict"])
    rt_ = reader_table(prog, eo.methods["from_dict"])
    fields_ = [f.name for f in eo.all_fields()]
    ck.floor("error_object_fields", len(fields_), 4)
    for fname in fields_:
        ws = [e for e in wt_ if self_root(e.value) == (fname,)]
        gk = {e.guard_kind(fname) for e in ws}
        r = rt_.get(fname)
        ok = bool(ws) and gk <= {"always", "notnone"} and r is not None and r.key is not None and r.key == ws[0].path[-1] and r.presence in ("always", "notnone") \
            and r.access in ("get", "subscript")
        ck.ob("R4.error-codec-keeps-set-fields", "lambda_service.py:ErrorObject", ok,
              f"field `{fname}`: written under guard {sorted(gk) or 'never'} as {ws[0].path if ws else None}, read back as "
              f"{(r.key, r.access, r.presence) if r else None}: an error field that is set (e.g. an empty message) must survive record -> replay", cell=fname)

    # R5: the batch a map/parallel delivers is classified with the caller's completion policy on the first run and when it is rebuilt
    # on replay (BatchResult.from_items falls back to fail-fast when no policy is passed: a silent, different completion_reason)
    import ast as _ast
    cex = prog.cls("concurrency.executor", "ConcurrentExecutor")
    sites = []
    for mname, m in cex.methods.items():
        for n in _ast.walk(m.node):
            if isinstance(n, _ast.Call) and isinstance(n.func, _ast.Attribute) and n.func.attr in ("from_items", "from_dict") \
                    and isinstance(n.func.value, _ast.Name) and n.func.value.id == "BatchResult":
                cfg = n.args[1] if len(n.args) > 1 else next((k.value for k in n.keywords if k.arg == "completion_config"), None)
                if isinstance(cfg, _ast.Name):  # a local alias of the policy
                    defs = [a.value for a in _ast.walk(m.node) if isinstance(a, _ast.Assign) and any(isinstance(x, _ast.Name) and x.id == cfg.id for x in a.targets)]
                    if len(defs) == 1:
                        cfg = defs[0]
                sites.append((mname, n.lineno, _ast.unparse(cfg) if cfg is not None else None))
    ck.floor("batch_result_build_sites", len(sites), 2)
    for mname, ln, cfg in sites:
        ck.ob("R5.batch-classified-with-callers-policy", f"concurrency/executor.py:ConcurrentExecutor.{mname}", cfg == "self.completion_config",
              f"BatchResult built with completion policy `{cfg}` (first run and replay must both use self.completion_config)", where=f"line {ln}")
    _handler_input_from_whole_history(ck, prog)
    _suspension_latch(ck, prog)
    # R2 what a replay answers with is what the record holds: CheckpointedResult.create_from_operation copies result AND error out of the details object that
    # belongs to the operation's type. The executor cells start from a CheckpointedResult and never look at how it was filled: an arm that reads the wrong
    # details object, or drops the error, answers a recorded failure with "Unknown error" (or a recorded result with None) on every replay.
    cfo = prog.cls("state", "CheckpointedResult").methods.get("create_from_operation")
    if cfo is None:
        raise AnalysisError("CheckpointedResult.create_from_operation not found")
    op_cls = prog.cls("lambda_service", "Operation")
    detail_fields = {f.name for f in op_cls.all_fields() if f.name.endswith("_details")}
    arms = [c for m_ in ast.walk(cfo.node) if isinstance(m_, ast.Match) for c in m_.cases]
    n_arms = 0
    for c in arms:
        if not (isinstance(c.pattern, ast.MatchValue) and isinstance(c.pattern.value, ast.Attribute)):
            continue
        tname = c.pattern.value.attr
        want_d = tname.lower() + "_details"
        if want_d not in detail_fields:
            raise AnalysisError(f"create_from_operation: no Operation.{want_d} for OperationType.{tname}")
        n_arms += 1
        local = {}
        got = {}
        for st in c.body:
            if isinstance(st, ast.Assign) and len(st.targets) == 1 and isinstance(st.targets[0], ast.Name):
                nm, v = st.targets[0].id, st.value
                if isinstance(v, ast.Attribute) and isinstance(v.value, ast.Name) and v.value.id == "operation":
                    local[nm] = v.attr
                else:
                    src = v.body if isinstance(v, ast.IfExp) else v
                    if isinstance(src, ast.Attribute) and isinstance(src.value, ast.Name):
                        got[nm] = (local.get(src.value.id, src.value.id), src.attr)
                    elif isinstance(src, ast.Attribute) and isinstance(src.value, ast.Attribute):
                        got[nm] = (src.value.attr, src.attr)
                    else:
                        got[nm] = (None, ast.unparse(v))
        ok_ = got.get("result") == (want_d, "result") and got.get("error") == (want_d, "error")
        ck.ob("R2.recorded-outcome-is-read-from-the-operations-own-details", fn_construct(cfo), ok_,
              f"for OperationType.{tname} result is read from {got.get('result')} and error from {got.get('error')}; expected ({want_d!r}, 'result') / ({want_d!r}, 'error'): "
              "a replay answers the recorded outcome with something else", cell=tname)
    ck.floor("checkpointed_result_arms", n_arms, 4)
    return ck


def _suspension_latch(ck, prog):
    """R7 (h3_C02 #1): a suspension is an exception (SuspendExecution, a BaseException) that unwinds through user code - through `finally` blocks, `__exit__`
    methods and generator clean-up. A durable operation issued there is an operation like any other: it draws the context's next identifier and runs. In the
    invocation that suspended, `release` in `try: wait; work  finally: release` draws the id that `work` will draw in the next invocation - `work` is answered
    with release's record and never runs, `release` runs twice with two ids. Identical control flow on replay needs the context to refuse operations once a
    suspension has passed through it. Necessary: some operation-entry code of DurableContext looks at a mark that a passing SuspendExecution sets."""
    ctx = prog.cls("context", "DurableContext")
    draw = ctx.methods.get("_create_step_id")
    if draw is None:
        raise AnalysisError("DurableContext._create_step_id not found")
    marks = set()
    for m in list(ctx.methods.values()) + list(prog.cls("operation.base", "OperationExecutor").methods.values()):
        for h in [x for x in ast.walk(m.node) if isinstance(x, ast.ExceptHandler) and x.type is not None and "Suspend" in ast.unparse(x.type)]:
            for st in ast.walk(ast.Module(body=h.body, type_ignores=[])):
                if isinstance(st, (ast.Assign, ast.AnnAssign)):
                    for t in (st.targets if isinstance(st, ast.Assign) else [st.target]):
                        if isinstance(t, ast.Attribute):
                            marks.add(t.attr)
                if isinstance(st, ast.Call) and isinstance(st.func, ast.Attribute) and st.func.attr.startswith(("mark_", "note_", "record_")):
                    marks.add(st.func.attr)
    ops = [m for m in ctx.methods.values() if any(isinstance(c, ast.Call) and isinstance(c.func, ast.Attribute) and c.func.attr == "_create_step_id" for c in ast.walk(m.node))]
    ck.floor("context_operations_drawing_an_id", len(ops), 8)
    checked = bool(marks) and all(any(isinstance(a, ast.Attribute) and a.attr in marks for a in ast.walk(m.node)) or
                                  any(isinstance(a, ast.Attribute) and a.attr in marks for a in ast.walk(draw.node)) for m in ops)
    ck.ob("R7.no-operation-while-a-suspension-unwinds", "context.py:DurableContext", checked,
          f"none of the {len(ops)} operation methods (nor _create_step_id) looks at a mark set when a SuspendExecution passes through: a durable operation in a user "
          "`finally` / `__exit__` around any suspending call runs during the unwinding, draws the identifier of the NEXT operation and records under it - the "
          "following invocation answers that next operation with the clean-up's record (its function never runs) and runs the clean-up again under a new id")


def _handler_input_from_whole_history(ck, prog):
    """R6.handler-input-from-the-whole-history (h2_C02 #1): the event handed to the user's handler must not depend on how the history was handed to the
    invocation. The first page of the initial state may lack the EXECUTION operation (the SDK says so itself); everything is merged into the
    ExecutionState by fetch_paginated_operations(). Backward slice of the event argument inside the wrapper: one of its definitions has to read the
    state object after that call."""
    w = prog.func("execution", "durable_execution.<locals>.wrapper")
    outer = prog.func("execution", "durable_execution")
    user_fn = [a.arg for a in outer.node.args.args][:1]
    if not user_fn:
        raise AnalysisError("durable_execution: parameter holding the user handler not found")
    submit = [n for n in ast.walk(w.node) if isinstance(n, ast.Call) and n.args and isinstance(n.args[0], ast.Name) and n.args[0].id == user_fn[0]
              and isinstance(n.func, ast.Attribute) and n.func.attr == "submit"]
    if len(submit) != 1 or len(submit[0].args) < 2:
        raise AnalysisError("wrapper: the call that hands the event to the user handler not understood")
    fetch = [n for n in ast.walk(w.node) if isinstance(n, ast.Call) and isinstance(n.func, ast.Attribute) and n.func.attr == "fetch_paginated_operations"
             and isinstance(n.func.value, ast.Name)]
    if len(fetch) != 1:
        raise AnalysisError("wrapper: the call that loads the paginated history not understood")
    state_var, fetch_line = fetch[0].func.value.id, fetch[0].lineno
    defs: dict[str, list] = {}
    for n in ast.walk(w.node):
        if isinstance(n, ast.Assign):
            tg = [t.id for t in n.targets if isinstance(t, ast.Name)]
        elif isinstance(n, (ast.AnnAssign, ast.NamedExpr)) and isinstance(n.target, ast.Name) and n.value is not None:
            tg = [n.target.id]
        else:
            continue
        for t in tg:
            defs.setdefault(t, []).append(n)
    todo, seen, reads_state = [x.id for x in ast.walk(submit[0].args[1]) if isinstance(x, ast.Name)], set(), []
    while todo:
        v = todo.pop()
        if v in seen:
            continue
        seen.add(v)
        for d in defs.get(v, []):
            names = {x.id for x in ast.walk(d.value) if isinstance(x, ast.Name)}
            if state_var in names and d.lineno > fetch_line:
                reads_state.append((v, d.lineno))
            todo += [x for x in names if x not in seen and x != state_var]
    ck.analysed["handler_event_slice"] = sorted(seen)
    ck.floor("handler_event_slice", len(seen), 2)
    ck.ob("R6.handler-input-from-the-whole-history", fn_construct(w), bool(reads_state),
          f"the event handed to the user handler is computed from {sorted(seen)} only - none of these is read from `{state_var}` after "
          f"fetch_paginated_operations() (line {fetch_line}): when the first page of the initial state comes without the EXECUTION operation (empty page + "
          "NextMarker, which the SDK documents as expected) the handler is called with {} instead of the recorded input, so the same history gives "
          "SUCCEEDED inline and FAILED (KeyError) paginated")


if __name__ == "__main__":
    main(PID, build)
