"""C06 - checkpoint failure is fail-stop: no progress, no hang, no success (DESIGN.md section 7)."""

from __future__ import annotations

import ast

from sa.common import applicable_cells, fn_construct, terminal_statuses, trace_sig
from sa.interp import _Raise
from sa.model import AnalysisError, load_program
from sa.protocol import (
    BTE_FQ,
    ORPHAN_FQ,
    SUSPEND_FQ,
    TIMED_SUSPEND_FQ,
    ProtocolModel,
    consumer_traces,
    create_checkpoint_traces,
    done_callback_traces,
    short,
    user_events,
    wrapper_traces,
)
from sa.report import Check, main
from sa.values import NONE, Const, Obj, Sym, TypeRef

PID = "C06"
BASE_ONLY = (BTE_FQ, SUSPEND_FQ, ORPHAN_FQ)


def cls_construct(ci):
    return f"{ci.module.relpath.split('aws_durable_execution_sdk_python/')[-1]}:{ci.name}"


def h_covers_bte(prog, fi, h) -> bool:
    if h.type is None:
        return True
    elts = h.type.elts if isinstance(h.type, ast.Tuple) else [h.type]
    return any((fq := prog.resolve_name_expr(fi.module, e)) and prog.is_subclass(BTE_FQ, fq) for e in elts)


def build() -> Check:
    prog = load_program()
    pm = ProtocolModel(prog)
    ck = Check(
        PID, "checkpoint failure is fail-stop",
        "Consumer failure handler interpreted (API call forked into success/failure, both queues modelled): every blocked and parked caller is woken with "
        "the error, the failure flag is raised, no further API call. Handshake rule for the lost-wake-up window: the flag is raised before the main queue is "
        "drained AND the producer re-reads the flag between its put and its unbounded wait. Class discipline: the three control exceptions are BaseException-only "
        "and every handler able to catch BackgroundThreadError re-raises or converts it. Thread roots (branch done-callback, timer resubmission) are interpreted "
        "with every way a branch can end: a BaseException-only failure must reach the completion event. Wrapper outcome table for BackgroundThreadError. "
        "Executor table: a failed checkpoint ends the operation with that failure and nothing follows.",
        ["schedules are not explored; the handshake is the classical store->load / store->load pairing argued over stdlib Event/Queue semantics",
         "promptness in wall-clock terms is not decided"],
        "one obligation per rule and site",
    )
    # ---- R1 / R2a consumer ---------------------------------------------------------------------
    cbf = prog.func("state", "ExecutionState.checkpoint_batches_forever")
    c_cbf = fn_construct(cbf)
    ctr = consumer_traces(pm)
    fails = [t for t in ctr if any(e.kind == "API" and e.data["outcome"] == "fails" for e in t.events)]
    ck.floor("consumer_failure_traces", len(fails), 2)
    b_drain, b_flag, b_order, b_exit = [], [], [], []
    for t in fails:
        i = next(i for i, e in enumerate(t.events) if e.kind == "API" and e.data["outcome"] == "fails")
        after = t.events[i + 1:]
        col_ev = [e for e in t.events[:i] if e.kind == "COLLECT" and e.data["items"]]
        for it_ in (col_ev[-1].data["items_v"] if col_ev else []):
            ev = it_.fields.get("completion_event")
            if isinstance(ev, Obj):
                sets = [s for s in after if s.kind == "EV_SET" and s.data.get("oid") == ev.oid]
                if not sets or sets[0].data["error"] == "None":
                    b_drain.append((f"{it_.key()} of the failed batch is not woken with the failure (its caller blocks for ever or believes the record was accepted)", t))
        for q in ("overflow", "main"):
            drained = [e for e in after if e.kind in ("Q_GET", "Q_EMPTY") and e.data["queue"] == q]
            if not drained:
                b_drain.append((f"the {q} queue is not drained after a failed call: its synchronous callers stay blocked", t))
        # "drained" means read until it is empty: a queue that was just seen NON-empty is read next (or the unrolling bound of the model cut the loop)
        for k_, e in enumerate(after):
            if e.kind == "Q_EMPTY" and e.data.get("result") is False:
                nxt = next((x for x in after[k_ + 1:] if (x.kind == "Q_GET" and x.data["queue"] == e.data["queue"]) or x.kind == "LOOP_CUT"), None)
                if nxt is None:
                    b_drain.append((f"the {e.data['queue']} queue is looked at, found non-empty and not read: the synchronous callers in it stay blocked", t))
        for e in after:
            if e.kind == "Q_GET" and e.data.get("item_v") is not None:
                ev = e.data["item_v"].fields.get("completion_event")
                if isinstance(ev, Obj):
                    sets = [s for s in after if s.kind == "EV_SET" and s.data.get("oid") == ev.oid]
                    if not sets or sets[0].data["error"] == "None":
                        b_drain.append((f"drained caller {e.data['item']} is not woken with the failure", t))
        flag = [e for e in after if e.kind == "EV_SET" and "checkpointing_failed" in e.data["ev"]]
        if not flag or flag[0].data["error"] == "None":
            b_flag.append(("the failure flag is not raised (with the error) after a failed call", t))
        else:
            first_main = [e for e in after if e.kind in ("Q_GET", "Q_EMPTY") and e.data["queue"] == "main"]
            if first_main and after.index(flag[0]) > after.index(first_main[0]):
                b_order.append(("the failure flag is raised only after the main queue was drained: a producer that passed its check and enqueues "
                                "after the drain is never woken", t))
        if [e for e in after if e.kind in ("COLLECT", "API")] or t.outcome != "return":
            b_exit.append(("the consumer keeps collecting / calling after a failed call", t))
    ck.ob("R1.handler-drains-and-wakes", c_cbf, not b_drain, b_drain[0][0] if b_drain else f"{len(fails)} failure paths")
    ck.ob("R1.failure-flag-raised", c_cbf, not b_flag, b_flag[0][0] if b_flag else "")
    ck.ob("R1.consumer-stops", c_cbf, not b_exit, b_exit[0][0] if b_exit else "")
    ck.ob("R2.handshake-consumer-flag-before-drain", c_cbf, not b_order, b_order[0][0] if b_order else "")
    # R1 scope of the failure handler: everything the consumer does with the service between collecting a batch and releasing its waiters
    # (the checkpoint call itself and whatever fetches further pages of its response) sits inside the try whose handler raises the
    # failure flag; an exception outside it kills the consumer thread silently and every blocked or later caller waits forever
    sc6 = prog.cls("state", "ExecutionState")

    def reaches_service(fn_node, seen=None):
        seen = seen if seen is not None else set()
        for c in ast.walk(fn_node):
            if isinstance(c, ast.Call) and isinstance(c.func, ast.Attribute):
                if "_service_client" in ast.unparse(c.func.value):
                    return True
                if isinstance(c.func.value, ast.Name) and c.func.value.id == "self" and c.func.attr in sc6.methods and c.func.attr not in seen:
                    seen.add(c.func.attr)
                    if reaches_service(sc6.methods[c.func.attr].node, seen):
                        return True
        return False

    parents6 = {}
    for n_ in ast.walk(cbf.node):
        for c_ in ast.iter_child_nodes(n_):
            parents6[id(c_)] = n_

    swallowed6: dict[int, str] = {}

    def guarded(node):
        """walks outwards through the enclosing try statements: the FIRST handler that can take an error of the call decides - it raises the failure
        flag (guarded), re-raises (keep walking), or swallows the error (r6_C01: a narrower inner handler that logs and goes on to release the waiters)"""
        cur, child = parents6.get(id(node)), node
        while cur is not None:
            if isinstance(cur, ast.Try) and any(child is x or any(child is y for y in ast.walk(x)) for x in cur.body):
                for h in cur.handlers:
                    catches_all = h.type is None or ast.unparse(h.type) in ("Exception", "BaseException")
                    raises_flag = any(isinstance(x, ast.Call) and isinstance(x.func, ast.Attribute) and x.func.attr == "set"
                                      and "_checkpointing_failed" in ast.unparse(x.func.value) for x in ast.walk(h))
                    if catches_all and raises_flag:
                        return True
                    reraises = bool(h.body) and isinstance(h.body[-1], ast.Raise)
                    if not raises_flag and not reraises:
                        swallowed6[id(node)] = f"`except {ast.unparse(h.type) if h.type else ''}` at line {h.lineno} takes the error, does not raise the failure flag and goes on"
                        return False
            child, cur = cur, parents6.get(id(cur))
        return False

    svc_calls = []
    for c in ast.walk(cbf.node):
        if isinstance(c, ast.Call) and isinstance(c.func, ast.Attribute):
            direct = "_service_client" in ast.unparse(c.func.value)
            via = isinstance(c.func.value, ast.Name) and c.func.value.id == "self" and c.func.attr in sc6.methods and c.func.attr != cbf.name \
                and reaches_service(sc6.methods[c.func.attr].node, {c.func.attr})
            if direct or via:
                svc_calls.append(c)
    ck.floor("consumer_service_calls", len(svc_calls), 2)
    for c in svc_calls:
        g6 = guarded(c)
        ck.ob("R1.handler-covers-every-service-call", c_cbf, g6,
              (f"`{ast.unparse(c.func)}(...)` can raise (it talks to the service) and {swallowed6[id(c)]}: the batch's callers are released as if the call and the "
               "merge of its whole response had succeeded - what was on the unread pages (terminal records of operations of this batch) stays unknown to this "
               "invocation, a branch that is run again re-executes a completed step"
               if id(c) in swallowed6 else
               f"`{ast.unparse(c.func)}(...)` can raise (it talks to the service) but is outside the try whose handler raises the failure flag: the consumer "
               "thread would die silently, no waiter is woken and no later caller is refused"), where=f"line {c.lineno}", cell=ast.unparse(c.func))

    # R2 who may write the failure slot: it keeps the FIRST error handed to it (CompletionEvent.set) and the wrapper's verdict is taken from it after the
    # consumer has ended. Only the consumer knows whether a call is still in flight: a marker written by anybody else ("stopped", written by the thread
    # that asks the consumer to stop) can get in before the error of the consumer's last call, which is then discarded - the invocation answers PENDING /
    # SUCCEEDED although a call failed (r6_C18)
    writers6 = []
    for mname6, m6 in sc6.methods.items():
        for c6 in ast.walk(m6.node):
            if isinstance(c6, ast.Call) and isinstance(c6.func, ast.Attribute) and c6.func.attr == "set" and "_checkpointing_failed" in ast.unparse(c6.func.value):
                writers6.append((mname6, c6.lineno))
    ck.floor("failure_slot_writes", len(writers6), 2)
    foreign6 = [w for w in writers6 if w[0] != cbf.name]
    ck.ob("R2.failure-slot-written-by-the-consumer-only", c_cbf, not foreign6,
          f"`_checkpointing_failed.set(...)` in {[f'{a} (line {b})' for a, b in foreign6]}: the slot keeps the first error; written outside the consumer thread it can precede the "
          "error of the consumer's last call (the batch it had already collected when it was told to stop), which is then lost - the wrapper finds an orderly "
          "stop and answers PENDING / SUCCEEDED after a failed call")

    # ---- R2b producer ---------------------------------------------------------------------------
    cc = create_checkpoint_traces(pm)
    c_cc = fn_construct(pm.ckpt_fn)
    bad = []
    n_sync = 0
    pre = []
    for t in cc:
        puts = [e for e in t.events if e.kind == "EXT" and e.data["method"] in ("put", "put_nowait")]
        if puts:
            reads_before = [e for e in t.events[: t.events.index(puts[0])] if e.kind == "EV_ISSET" and "checkpointing_failed" in e.data["ev"]]
            if not reads_before:
                pre.append(("an update is enqueued without consulting the failure flag first", t))
            elif any(e.data.get("result") for e in reads_before):
                # consulting is not enough: a producer that SAW the flag raised and enqueues all the same hands its update to a consumer that has left its
                # loop - an asynchronous caller is told nothing at all ("every caller subsequently issuing a checkpoint is woken with the failure")
                pre.append(("the failure flag was seen raised before the put and the update is enqueued all the same", t))
        all_waits = [e for e in t.events if e.kind == "EV_WAIT" and "checkpointing_failed" not in e.data["ev"]]
        waits = [e for e in all_waits if not e.data["bounded"]]
        if puts and all_waits:
            n_sync += 1
        if not puts or not waits:
            continue  # (a producer that only polls with bounded waits has no check-then-act window; what it may return on is C03/R2)
        seg = t.events[t.events.index(puts[-1]) + 1: t.events.index(waits[-1])]
        if not any(e.kind == "EV_ISSET" and "checkpointing_failed" in e.data["ev"] for e in seg):
            bad.append(("between enqueueing and the unbounded wait the failure flag is not read again (check-then-act window)", t))
        elif any(e.kind == "EV_ISSET" and "checkpointing_failed" in e.data["ev"] and e.data.get("result") for e in seg):
            # read again, seen raised - and the caller still goes to sleep on its own event, which nobody will ever set
            bad.append(("after enqueueing, the failure flag is seen raised and the caller waits on its own completion event all the same", t))
    ck.floor("sync_producer_paths", n_sync, 2)
    ck.ob("R2.handshake-producer-recheck-after-put", c_cc, not bad, bad[0][0] if bad else "")
    ck.ob("R2.producer-checks-flag-before-put", c_cc, not pre, pre[0][0] if pre else "")

    # ---- R3 class discipline ----------------------------------------------------------------------
    for fq in BASE_ONLY:
        c = prog.classes.get(fq)
        if c is None:
            raise AnalysisError(f"{fq} not found")
        ck.ob("R3.base-exception-only", f"exceptions.py:{c.name}", c.is_subclass_of("builtins.BaseException") and not c.is_subclass_of("builtins.Exception"),
              f"{c.name} must derive from BaseException and not from Exception (bases {c.bases})")
    n_handlers = 0
    allowed_convert = {"execution.py:durable_execution.<locals>.wrapper", "state.py:ExecutionState.create_checkpoint_sync"}
    for fi in prog.functions.values():
        if isinstance(fi.node, ast.Lambda):
            continue
        for node in ast.walk(fi.node):
            if not isinstance(node, ast.ExceptHandler):
                continue
            owner = fi
            n_handlers += 1
            types = []
            if node.type is None:
                types = ["builtins.BaseException"]
            else:
                elts = node.type.elts if isinstance(node.type, ast.Tuple) else [node.type]
                for e in elts:
                    fq = prog.resolve_name_expr(fi.module, e)
                    if fq:
                        types.append(fq)
            covers = [t for t in types if prog.is_subclass(BTE_FQ, t)]
            if not covers:
                continue
            # nested function bodies are reported under the innermost function
            inner = [f for f in prog.functions.values() if f.parent is not None and f.module is fi.module
                     and any(n is node for n in ast.walk(f.node))]
            if inner and fi not in inner:
                continue
            body_raises = any(isinstance(n, ast.Raise) for n in ast.walk(ast.Module(body=node.body, type_ignores=[])))
            routes = "_completion_event.set" in ast.unparse(ast.Module(body=node.body, type_ignores=[]))
            ok = body_raises or routes or fn_construct(fi) in allowed_convert
            ck.ob("R3.no-swallowing-handler", fn_construct(fi), ok,
                  f"`except {ast.unparse(node.type) if node.type else ''}` can catch BackgroundThreadError and neither re-raises nor routes it",
                  where=f"line {node.lineno}")
    ck.floor("except_handlers_scanned", n_handlers, 8)

    # ---- R4 thread roots --------------------------------------------------------------------------
    fn, dtr = done_callback_traces(pm)
    ck.floor("done_callback_traces", len(dtr), 4)
    by_outcome = {}
    for t in dtr:
        res = [e for e in t.events if e.kind == "RESULT"]
        o = res[0].data["outcome"] if res else "cancelled"
        by_outcome.setdefault(o, []).append(t)
    for o, trs in sorted(by_outcome.items()):
        bad = []
        for t in trs:
            if t.outcome == "raise":
                bad.append((f"{t.exc_class()} escapes the done-callback (the pool swallows it): nobody sets the completion event, the caller of map/parallel waits forever", t))
            elif o == "BackgroundThreadError" and not t.kinds("COMPLETION_SET"):
                bad.append(("a checkpoint failure inside a branch does not wake the waiting map/parallel call", t))
            elif o in ("BackgroundThreadError", "OrphanedChildException"):
                # woken WITH the error: the waiter re-raises what was stored for it; an empty slot lets execute() go on to build a result
                # (SUCCEEDED after a failed checkpoint) - and an orphaned nested executor that is not woken at all waits for ever
                cs = t.kinds("COMPLETION_SET")
                st_ = [e for e in t.events if e.kind == "SETATTR" and e.data["attr"] == "_fatal_exception"]
                if not cs:
                    bad.append((f"a branch ending with {o} does not wake the waiting map/parallel call (a nested executor inside an orphaned branch waits for ever)", t))
                elif not st_ or t.events.index(st_[0]) > t.events.index(cs[0]):
                    bad.append((f"a branch ending with {o} wakes the waiting call without having stored the error for it: execute() goes on as if nothing had happened", t))
        ck.ob("R4.done-callback-routes-every-outcome", fn_construct(fn), not bad, bad[0][0] if bad else "", cell=o)
    # the fatal error must surface in execute(): after the wait, a recorded BaseException is re-raised
    cex = prog.cls("concurrency.executor", "ConcurrentExecutor")
    ex = cex.methods["execute"]
    resub = prog.functions.get(f"{ex.module.name}:ConcurrentExecutor.execute.<locals>.resubmitter")
    if resub is None:
        raise AnalysisError("timer resubmission closure not found in ConcurrentExecutor.execute")
    calls = [n for n in ast.walk(resub.node) if isinstance(n, ast.Call) and isinstance(n.func, ast.Attribute) and n.func.attr == "create_checkpoint"]
    ck.floor("timer_resubmit_checkpoints", len(calls), 1)
    for c in calls:
        protected = False
        for tr in [n for n in ast.walk(resub.node) if isinstance(n, ast.Try)]:
            if any(c is x for b in tr.body for x in ast.walk(b)):
                for h in tr.handlers:
                    hs = [h.type] if h.type is not None and not isinstance(h.type, ast.Tuple) else (h.type.elts if h.type is not None else [])
                    fqs = [prog.resolve_name_expr(resub.module, e) for e in hs] if hs else ["builtins.BaseException"]
                    if any(fq and prog.is_subclass(BTE_FQ, fq) for fq in fqs) and "_completion_event.set" in ast.unparse(h):
                        protected = True
        ck.ob("R4.timer-thread-routes-checkpoint-failure", fn_construct(resub), protected,
              "create_checkpoint() in the timer thread can raise BackgroundThreadError; nothing catches it and sets the completion event: the map/parallel call waits forever",
              where=f"line {c.lineno}")

    # ... and wherever one of the two thread roots wakes the waiter from inside an `except` handler, it has stored that handler's exception first
    for f in (fn, resub):
        for h in [n for n in ast.walk(f.node) if isinstance(n, ast.ExceptHandler)]:
            for blk in [h.body] + [x.body for x in ast.walk(ast.Module(body=h.body, type_ignores=[])) if isinstance(x, (ast.If,))] + \
                    [x.orelse for x in ast.walk(ast.Module(body=h.body, type_ignores=[])) if isinstance(x, ast.If)]:
                sets_ = [i for i, st in enumerate(blk) if isinstance(st, ast.Expr) and "_completion_event.set()" in ast.unparse(st)]
                if not sets_:
                    continue
                stores_ = [i for i, st in enumerate(blk) if isinstance(st, ast.Assign) and isinstance(st.targets[0], ast.Attribute) and isinstance(st.value, ast.Name)
                           and h.name is not None and st.value.id == h.name]
                ck.ob("R4.woken-with-the-error", fn_construct(f), bool(stores_) and min(stores_) < min(sets_),
                      f"`except {ast.unparse(h.type) if h.type else ''}` (line {h.lineno}) wakes the thread blocked in execute() without storing the exception for it first: "
                      "execute() finds no fatal error and goes on to suspend or to build a result", where=f"line {h.lineno}", cell=f"{ast.unparse(h.type) if h.type else 'bare'}")

    # ... and the timer thread may DROP an error only when execute() is already on its way out (the completion event is set: the pool was shut down under a
    # resubmission in flight). An arm of a handler that neither re-raises nor wakes the waiter sits under exactly that test, the right way round.
    for h in [n for n in ast.walk(resub.node) if isinstance(n, ast.ExceptHandler)]:
        def arms(body, cond):
            # leaf blocks of the handler with the chain of (test text, polarity) they sit under
            out_ = []
            ifs_here = [st for st in body if isinstance(st, ast.If)]
            if not ifs_here:
                return [(body, cond)]
            for st in ifs_here:
                out_ += arms(st.body, cond + [(ast.unparse(st.test), True)])
                out_ += arms(st.orelse, cond + [(ast.unparse(st.test), False)]) if st.orelse else [([], cond + [(ast.unparse(st.test), False)])]
            return out_
        for blk, cond in arms(h.body, []):
            txt_ = ast.unparse(ast.Module(body=blk, type_ignores=[])) if blk else ""
            routes_ = "_completion_event.set()" in txt_ or any(isinstance(x, ast.Raise) for st in blk for x in ast.walk(st)) or any(isinstance(st, ast.Return) and not blk[:-1] for st in blk[-1:])
            if routes_:
                continue
            justified = any((t_.replace(" ", "") == "self._completion_event.is_set()" and pol) or (t_.replace(" ", "") == "notself._completion_event.is_set()" and not pol)
                            for t_, pol in cond)
            ck.ob("R4.timer-drops-an-error-only-on-the-way-out", fn_construct(resub), justified,
                  f"`except {ast.unparse(h.type) if h.type else ''}` (line {h.lineno}) has an arm (under {cond or 'no test'}) that neither wakes the waiter nor re-raises: the branch "
                  "that could not be resubmitted is silently abandoned while execute() keeps waiting for it", where=f"line {h.lineno}", cell=str(cond)[:60])

    # whatever the two thread roots record must be re-raised by the thread blocked in execute()
    recorded = set()
    for f in (fn, resub):
        # (handlers that can see a failed checkpoint, and every other handler that wakes the waiter - mutscan 5: the `except RuntimeError` arm of the resubmitter
        # stored its error in another attribute of self; "stored before woken" held and nobody asked where)
        for h in [n for n in ast.walk(f.node) if isinstance(n, ast.ExceptHandler) and (h_covers_bte(prog, f, n) or "_completion_event.set()" in ast.unparse(n))]:
            for st in ast.walk(ast.Module(body=h.body, type_ignores=[])):
                if isinstance(st, ast.Assign) and isinstance(st.targets[0], ast.Attribute) and isinstance(st.value, ast.Name) and st.value.id == h.name:
                    recorded.add(st.targets[0].attr)
    ck.analysed["fatal_error_slots"] = sorted(recorded)
    if recorded:
        from sa.cfg import CFG
        g = CFG(ex)
        waits = [n for n in g.find_calls("wait") if "_completion_event" in ast.unparse(g.calls_at(n)[0].func)]
        raises = [n for n in g.nodes if isinstance(n.stmt, ast.Raise) and n.stmt.exc is not None and isinstance(n.stmt.exc, ast.Attribute)
                  and n.stmt.exc.attr in recorded]
        ok = bool(waits) and bool(raises) and all(any(g.dominates(w.idx, r.idx) for w in waits) for r in raises)
        # ... every slot, not just some of them
        ok = ok and {r.stmt.exc.attr for r in raises} >= recorded
        # and the test guarding it must be evaluated before the suspension decision
        guards = [x for x in g.nodes if x.kind == "header" and isinstance(x.stmt, ast.If)
                  and any(r.stmt in x.stmt.body for r in raises)]
        suspends = [n for n in g.nodes if isinstance(n.stmt, ast.Raise) and n.stmt.exc is not None
                    and "suspend" in ast.unparse(n.stmt.exc).lower()]
        if guards:
            ok = ok and all(any(g.dominates(gd.idx, s_.idx) for gd in guards) for s_ in suspends)
        ck.ob("R4.fatal-error-reraised-by-waiter", fn_construct(ex), ok,
              f"errors recorded in {sorted(recorded)} by the thread roots are not re-raised after the completion wait (before the suspend/return decision)")

    # ---- R5 wrapper --------------------------------------------------------------------------------
    wt = wrapper_traces(pm, faults=True)
    wrapper = prog.func("execution", "durable_execution.<locals>.wrapper")
    bad = []
    n_bte = 0
    for t in wt:
        res = [e for e in t.events if e.kind == "RESULT"]
        bte = (res and res[0].data.get("outcome") == BTE_FQ) or any(e.kind == "CKPT" and e.data.get("outcome") == "BackgroundThreadError" for e in t.events)
        if not bte:
            continue
        n_bte += 1
        if t.outcome == "return":
            st = t.value.items.get("Status") if hasattr(t.value, "items") else None
            if not (isinstance(st, Const) and st.value == "FAILED"):
                bad.append((f"after a checkpoint failure the invocation answers {st.key() if st else t.value.key()}", t))
        if t.outcome == "raise" and (t.exc_class() or "").rstrip("*") == BTE_FQ:
            bad.append(("a checkpoint failure leaves the wrapper as the BackgroundThreadError envelope itself: the error's classification (raise for a Lambda retry / "
                        "answer FAILED) is never consulted", t))
        if any(e.kind == "CKPT" for e in t.events[t.events.index(res[0]):]) and res and res[0].data.get("outcome") == BTE_FQ:
            bad.append(("a checkpoint is attempted after the background failure was reported", t))
    ck.floor("wrapper_bte_traces", n_bte, 1)
    ck.ob("R5.wrapper-outcome", fn_construct(wrapper), not bad, (bad[0][0] + ": " + trace_sig(bad[0][1])[-300:]) if bad else f"{n_bte} paths")

    # R5 "according to the error's classification": the envelope's payload is opaque to the trace model (isinstance on it is not explored), so the shape of
    # every place that opens the envelope is judged directly: a CheckpointError goes through handle_checkpoint_error (which raises the retriable ones and
    # answers FAILED for the others), anything else is raised as it is. (mutscan: the isinstance test negated in one of the three places, nothing noticed.)
    n_open = 0
    for h in [n for n in ast.walk(wrapper.node) if isinstance(n, ast.ExceptHandler) and h_covers_bte(prog, wrapper, n) and n.name
              and n.type is not None and "BackgroundThreadError" in ast.unparse(n.type)]:
        n_open += 1

        def opened_by_classification(body, name):
            src = f"{name}.source_exception"
            ifs = [x for x in ast.walk(ast.Module(body=body, type_ignores=[])) if isinstance(x, ast.If)]
            g_if = [x for x in ifs if ast.unparse(x.test).replace(" ", "") == f"isinstance({src},CheckpointError)"
                    and any(isinstance(r, ast.Return) and r.value is not None and f"handle_checkpoint_error({src})" in ast.unparse(r.value) for r in x.body)]
            t_raise = bool(body) and isinstance(body[-1], ast.Raise) and body[-1].exc is not None and ast.unparse(body[-1].exc) == src
            return bool(g_if), t_raise
        good_if, tail_raise = opened_by_classification(h.body, h.name)
        if not (good_if and tail_raise):
            # the same shape behind one helper the handler hands the envelope to (`return self._open(bg_error)` / `return open_envelope(bg_error)`)
            for c_ in ast.walk(ast.Module(body=h.body, type_ignores=[])):
                if isinstance(c_, ast.Call) and any(isinstance(a_, ast.Name) and a_.id == h.name for a_ in c_.args):
                    fname = c_.func.id if isinstance(c_.func, ast.Name) else (c_.func.attr if isinstance(c_.func, ast.Attribute) else None)
                    cand = [f_ for f_ in prog.functions.values() if f_.name == fname and f_.module is wrapper.module and not isinstance(f_.node, ast.Lambda)]
                    for f_ in cand:
                        ps = [a_.arg for a_ in f_.node.args.args if a_.arg != "self"]
                        if ps:
                            g2, t2 = opened_by_classification([st for st in f_.node.body if not (isinstance(st, ast.Expr) and isinstance(st.value, ast.Constant))], ps[0])
                            good_if, tail_raise = good_if or g2, tail_raise or t2
        ck.ob("R5.envelope-opened-by-classification", fn_construct(wrapper), bool(good_if) and tail_raise,
              f"`except BackgroundThreadError as {h.name}` (line {h.lineno}) does not hand a CheckpointError to handle_checkpoint_error and raise everything else as it is: "
              "the invocation is retried / answered FAILED against the error's classification", where=f"line {h.lineno}", cell=f"handler at line-order {n_open}")
    ck.floor("envelope_opening_handlers", n_open, 2)
    hce = prog.functions.get(f"{wrapper.module.name}:handle_checkpoint_error")
    if hce is None:
        raise AnalysisError("handle_checkpoint_error not found")
    ifs_ = [x for x in hce.node.body if isinstance(x, ast.If)]
    ok_hce = len(ifs_) == 1 and ast.unparse(ifs_[0].test) == f"{hce.node.args.args[0].arg}.is_retriable()" and any(isinstance(r, ast.Raise) for r in ifs_[0].body) \
        and isinstance(hce.node.body[-1], ast.Return) and "InvocationStatus.FAILED" in ast.unparse(hce.node.body[-1])
    ck.ob("R5.envelope-opened-by-classification", fn_construct(hce), ok_hce, "handle_checkpoint_error does not raise exactly the retriable errors and answer FAILED for the others", cell="classifier")

    # R5 the look itself (one FAILCHECK event in the wrapper model): seen raised, the stored error is raised - only the marker of an orderly stop is let go
    from sa.protocol import failure_look_traces
    flt = failure_look_traces(pm)
    n_seen = 0
    bad_l = []
    for t in flt:
        seen_ = [e for e in t.events if e.kind == "EV_ISSET" and "checkpointing_failed" in e.data["ev"] and e.data.get("result")]
        if not seen_:
            if t.outcome != "return":
                bad_l.append("raises although the failure flag is not set")
            continue
        n_seen += 1
        if t.outcome != "raise" or not (t.exc_class() or "").endswith("BackgroundThreadError"):
            bad_l.append("the failure flag is seen raised and nothing is raised: the wrapper goes on to answer SUCCEEDED / PENDING after a failed checkpoint call")
    rif = prog.func("state", "ExecutionState.raise_if_checkpointing_failed")
    ck.floor("failure_look_paths_with_the_flag_raised", n_seen, 1)
    let_go = {ast.unparse(n_.args[1]) for n_ in ast.walk(rif.node) if isinstance(n_, ast.Call) and isinstance(n_.func, ast.Name) and n_.func.id == "isinstance" and len(n_.args) == 2}
    ck.ob("R5.failure-look-raises-what-it-finds", fn_construct(rif), not bad_l and let_go <= {"CheckpointingStoppedError"},
          (bad_l[0] if bad_l else f"errors of class {sorted(let_go)} are let go: only the marker of an orderly stop may be"))

    # R5b a failure of a call that carried only fire-and-forget updates (context STARTs, the empty refresh of a resume timer) wakes nobody in the
    # handler's thread: the handler can finish or suspend normally. The verdict SUCCEEDED / PENDING may therefore only be given after the
    # wrapper itself has looked at the failure state (necessary condition: some read of it follows the handler's outcome on every such path)
    bad_v = []
    n_verdicts = 0
    for t in wt:
        if t.outcome != "return" or not hasattr(t.value, "items"):
            continue
        stv = t.value.items.get("Status")
        if not (isinstance(stv, Const) and stv.value in ("SUCCEEDED", "PENDING")):
            continue
        n_verdicts += 1
        res = [i for i, e in enumerate(t.events) if e.kind == "RESULT"]
        after = t.events[res[0]:] if res else t.events
        synced = any(e.kind == "CKPT" and e.data.get("sync") and e.data.get("outcome") == "ok" for e in after)
        looks = [i for i, e in enumerate(after) if e.kind == "FAILCHECK" or (e.kind in ("EXT", "EV_ISSET", "EV_WAIT") and (
            "checkpointing_failed" in str(e.data.get("recv", "")) or "checkpointing_failed" in str(e.data.get("ev", ""))))]
        # what the handler handed over must have been sent (or dropped) before the look: the background loop was told to stop and has ended
        joins = [i for i, e in enumerate(after) if e.kind == "BG_JOIN" and e.data.get("after_stop")]
        if synced:
            continue  # an accepted synchronous record after the handler finished: everything queued before it was delivered (FIFO)
        if not looks:
            bad_v.append((f"the invocation answers {stv.value} without having looked at the checkpoint failure state after the handler finished: a failed call that "
                          "carried only fire-and-forget updates goes unnoticed", t))
        elif not joins or min(joins) > max(looks):
            bad_v.append((f"the invocation answers {stv.value} after looking at the failure state while the background loop may still be sending what the handler "
                          "handed over (no stop + join before the look): a call that fails a moment later goes unnoticed", t))
    ck.floor("wrapper_verdict_paths", n_verdicts, 2)
    ck.ob("R5.verdict-consults-failure-state", fn_construct(wrapper), not bad_v, (bad_v[0][0]) if bad_v else f"{n_verdicts} paths")

    # R5c ... and the same when the handler ends with an error of its own (h2_C06 #1): "raising for Lambda retry or returning FAILED according to the
    # error's classification" is about the CHECKPOINT error. An answer FAILED(<handler's error>) is terminal for the execution although the failed
    # call may be of the class that must be raised for a retry; re-raising the handler's InvocationError retries although the call's class says FAILED.
    bad_e = []
    n_err = 0
    for t in wt:
        res = [i for i, e in enumerate(t.events) if e.kind == "RESULT"]
        if not res:
            continue  # the handler never ran (malformed payload)
        r0 = t.events[res[0]]
        oc = str(r0.data.get("outcome") or "")
        if oc in ("return", "ok", "") or oc == BTE_FQ or oc.endswith("CheckpointError") or oc.endswith("SuspendExecution"):
            continue  # verdict paths are judged above; a failure that reached the handler's thread is judged by R5.wrapper-outcome
        after = t.events[res[0]:]
        if any(e.kind == "CKPT" and e.data.get("outcome") not in ("ok", None) for e in after):
            continue  # the answer is given for a failing call of the wrapper itself
        refined = {k.rsplit(" isa ", 1)[-1] for k, v in t.pc if " isa " in str(k) and v is True}
        if refined & {"BackgroundThreadError", "CheckpointError", "SuspendExecution"}:
            continue  # "some (Base)Exception" refined on this path to the background failure / a checkpoint error / a suspension: judged by the rules above
        raised = (t.exc_class() or "").rstrip("*") if t.outcome == "raise" else ""
        if t.outcome == "raise" and (any(str(k).endswith(" isa Exception") and v is False for k, v in t.pc)
                                     or (raised and raised != "builtins.BaseException" and not prog.is_subclass(raised, "builtins.Exception"))):
            continue  # a BaseException that is no Exception passes through the wrapper untouched (C18's known finding); it is raised, i.e. the invocation is retried
        n_err += 1
        synced = any(e.kind == "CKPT" and e.data.get("sync") and e.data.get("outcome") == "ok" for e in after)
        looks = [i for i, e in enumerate(after) if e.kind == "FAILCHECK"]
        joins = [i for i, e in enumerate(after) if e.kind == "BG_JOIN" and e.data.get("after_stop")]
        if synced:
            continue
        what = (f"returns {t.value.items.get('Status').key() if hasattr(t.value, 'items') and t.value.items.get('Status') is not None else t.value.key()}"
                if t.outcome == "return" else f"raises {t.exc_class()}")
        if not looks:
            bad_e.append((f"the handler ended with {oc.rsplit('.', 1)[-1]} and the invocation {what} without having looked at the checkpoint failure state: a failed "
                          "call that carried only fire-and-forget updates (or the refresh checkpoint of a resume timer) is never classified - the execution is "
                          "FAILED with the handler's error although the checkpoint error demands a Lambda retry (or the other way round)", t))
        elif not joins or min(joins) > max(looks):
            bad_e.append((f"the handler ended with {oc.rsplit('.', 1)[-1]} and the invocation {what} after looking at the failure state while the background loop may "
                          "still be sending (no stop + join before the look)", t))
    ck.floor("wrapper_error_answer_paths", n_err, 3)
    ck.ob("R5.error-answer-consults-failure-state", fn_construct(wrapper), not bad_e, (bad_e[0][0] + ": " + trace_sig(bad_e[0][1])[-260:]) if bad_e else f"{n_err} paths")

    # ---- R6 executors: a failed checkpoint ends the operation with that failure ----------------------
    n = 0
    for name, ci, ot, st in applicable_cells(pm):
        traces = pm.run_cell(ci, st, faults=True)
        bad = []
        for t in traces:
            f = [e for e in t.kinds("CKPT") if e.data.get("outcome") == "BackgroundThreadError"]
            if not f:
                continue
            n += 1
            after = t.events[t.events.index(f[0]) + 1:]
            if t.outcome != "raise" or not (t.exc_class() or "").endswith("BackgroundThreadError"):
                bad.append((f"checkpoint failed but the operation ends with {t.outcome} {t.exc_class() or ''}", t))
            if any(e.kind in ("USER", "CKPT") for e in after):
                bad.append(("user code or another checkpoint after the failed checkpoint", t))
        if bad or any(e.data.get("outcome") == "BackgroundThreadError" for t in traces for e in t.kinds("CKPT")):
            ck.ob("R6.failure-ends-operation", cls_construct(ci), not bad, (bad[0][0] + ": " + trace_sig(bad[0][1])) if bad else "", cell=st)
    ck.floor("failed_checkpoint_paths", n, 10)
    # R2 the mailbox itself: CompletionEvent stores the error before it releases the waiter, and the waiter reads it after it was released (r7_C03 / r7_C06)
    from sa.common import completion_event_publication
    (ce_set, ce_wait), ce_rules, ce_an = completion_event_publication(prog)
    ck.analysed["completion_event"] = ce_an
    for suffix, ok, detail in ce_rules:
        ck.ob(f"R2.completion-event-" + suffix, fn_construct(ce_wait if suffix.startswith(("slot", "wait")) else ce_set), ok, detail + ("" if ok else " - the blocked caller is woken WITHOUT the failure and goes on"))
    return ck


if __name__ == "__main__":
    main(PID, build)
