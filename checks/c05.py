"""C05 - checkpoint stream: nothing lost, duplicated or reordered; limits respected (DESIGN.md section 6)."""

from __future__ import annotations

import ast

from sa.cfg import walk_shallow
from sa.common import fn_construct
from sa.model import AnalysisError, load_program
from sa.protocol import ProtocolModel, collect_batch_traces, consumer_traces
from sa.report import Check, main
from sa.values import Const, Obj, SeqVal, Sym

PID = "C05"


def q_sig(t):
    return " ".join(f"{e.kind[2:]}({e.data.get('queue')}:{e.data.get('item')})" for e in t.events if e.kind in ("Q_GET", "Q_PUT")) + \
        " => " + (t.value.key() if t.outcome == "return" else str(t.exc_class()))


def build() -> Check:
    prog = load_program()
    pm = ProtocolModel(prog)
    ck = Check(
        PID, "checkpoint stream",
        "The batch collector is interpreted abstractly with the two queues modelled as sources of fresh keyed items (every get forks into "
        "'item' / 'Empty', loops unrolled to a fixed bound): on every path each dequeued item is appended to the returned batch exactly once or parked "
        "exactly once, in acquisition order, never overtaken by a later main-queue item once something was parked, never parked while the batch is "
        "empty, and every non-first append is guarded by the count and size limits computed from that item. The consumer loop is interpreted for two "
        "iterations with the API call forked into success/failure: token threading, updates = the batch's non-empty updates in order, release of every "
        "synchronous item on both outcomes. Queue ownership is a who-may-call rule over the whole package.",
        ["producer/consumer interleavings, timing of the batching window and real byte sizes are not explored",
         "loops are unrolled 2-3 times; the rules are per-iteration invariants, so deeper unrolling repeats the same shapes",
         "queue model: at most one update is parked when a collection starts - an inductive invariant that R3.overflow-invariant re-establishes on every path; "
         "max_batch_operations >= 1",
         "queue.Queue is FIFO and thread-safe (stdlib)"],
        "one obligation per rule; traces are the evaluations",
    )
    col = prog.func("state", "ExecutionState._collect_checkpoint_batch")
    c_col = fn_construct(col)
    iters = 3 if ck.tier == "thorough" else 2
    traces = collect_batch_traces(pm, while_iters=iters)
    ck.floor("collector_traces", len(traces), 8)
    ck.analysed["loop_unrolling"] = iters
    lin, order, overtake, starve, limits, ret, inv = [], [], [], [], [], [], []
    n_put = 0
    for t in traces:
        gets = [e for e in t.events if e.kind == "Q_GET" and e.data.get("item")]
        puts = [e for e in t.events if e.kind == "Q_PUT"]
        n_put += len(puts)
        got = [e.data["item"] for e in gets]
        parked = [e.data["item"] for e in puts]
        complete = t.outcome == "return" and not t.kinds("LOOP_CUT")
        # R3b: nothing is dequeued from the main queue after something was parked
        for p in puts:
            later = [e for e in t.events[t.events.index(p) + 1:] if e.kind == "Q_GET" and e.data["queue"] == "main"]
            if later:
                overtake.append((f"{p.data['item']} is parked, then the main queue is read again: a later update overtakes it", t))
        # R3c: progress - an item taken while the batch is empty must be accepted
        batch_so_far: list[str] = []
        for e in t.events:
            if e.kind == "Q_GET" and e.data.get("item"):
                pending = e.data["item"]
            if e.kind == "Q_PUT":
                in_batch = [g for g in got[: got.index(e.data["item"])] if g not in parked] if e.data["item"] in got else []
                if not in_batch:
                    starve.append((f"{e.data['item']} is put back although the batch is empty: it can never be sent", t))
                if e.data["queue"] != "overflow":
                    lin.append((f"{e.data['item']} is put back on the {e.data['queue']} queue (re-ordered behind later updates)", t))
        # inductive invariant used by the queue model: at most one parked update between two collections
        ov_gets = [e for e in t.events if e.kind == "Q_GET" and e.data["queue"] == "overflow"]
        entry = 1 if (not ov_gets or ov_gets[0].data.get("item")) else 0
        taken = sum(1 for e in ov_gets if e.data.get("item"))
        ov_puts = sum(1 for e in puts if e.data["queue"] == "overflow")
        if entry - min(taken, entry) + ov_puts > 1:
            inv.append((f"a collection that starts with {entry} parked update(s) ends with {entry - min(taken, entry) + ov_puts}: parked updates pile up and get re-ordered", t))
        if t.outcome == "raise":
            ret.append((f"collector raises {t.exc_class()}", t))
            continue
        if not isinstance(t.value, SeqVal):
            ret.append((f"collector returns {t.value.key()} instead of the batch it built", t))
            continue
        batch = [x.key() for x in t.value.items]
        if complete:
            # R2 linearity
            for g in got:
                n = batch.count(g) + parked.count(g)
                if n != 1:
                    lin.append((f"{g} is {'lost' if n == 0 else 'duplicated'} (in batch {batch.count(g)}x, parked {parked.count(g)}x)", t))
            for b in batch:
                if b not in got:
                    lin.append((f"{b} in the batch was never dequeued", t))
            # R3a order
            expect = [g for g in got if g not in parked]
            if batch != expect:
                order.append((f"batch order {batch} differs from acquisition order {expect}", t))
            ov = [i for i, b in enumerate(batch) if b.startswith("ov")]
            ma = [i for i, b in enumerate(batch) if b.startswith("ma")]
            if ov and ma and max(ov) > min(ma):
                order.append(("a main-queue item precedes a parked (older) item in the batch", t))
        # R4 limits: every non-first accepted item passed both guards
        d = dict(t.pc)
        for i, b in enumerate(batch):
            if i == 0:
                continue
            cnt_ok = any(("max_batch_operations" in k) and ((k.startswith(f"{i} < ") and v is True) or (k.startswith(f"{i} >= ") and v is False))
                         for k, v in t.pc)
            size_keys = [(k, v) for k, v in t.pc if f"size({b})" in k and "max_batch_size_bytes" in k]
            size_ok = any((" > " in k and v is False) or (" <= " in k and v is True) for k, v in size_keys)
            if not cnt_ok:
                limits.append((f"{b} (item {i + 1}) is accepted without the operation-count guard", t))
            if not size_ok:
                limits.append((f"{b} (item {i + 1}) is accepted without a size guard computed from its own size", t))
            for k, v in size_keys:
                # the running total fed to the guard must include every earlier accepted item
                for prev in batch[:i]:
                    if f"size({prev})" not in k:
                        limits.append((f"size guard of {b} ignores the size of {prev}", t))
    ck.analysed["parking_paths"] = n_put
    for rule, lst in (("R2.linearity", lin), ("R3.order", order), ("R3.no-overtaking-after-park", overtake),
                      ("R3.progress-on-empty-batch", starve), ("R4.limit-guards", limits), ("R2.returns-batch", ret),
                      ("R3.overflow-invariant", inv)):
        ck.ob(rule, c_col, not lst, (f"{len(lst)} path(s): {lst[0][0]}: {q_sig(lst[0][1])}") if lst else f"{len(traces)} paths")
    for t in traces[:3]:
        ck.sample({"collector_path": q_sig(t)})

    # ---- consumer loop ------------------------------------------------------------------------
    cbf = prog.func("state", "ExecutionState.checkpoint_batches_forever")
    c_cbf = fn_construct(cbf)
    ctr = consumer_traces(pm, while_iters=iters)
    ck.floor("consumer_traces", len(ctr), 6)
    tok, upd, rel, after = [], [], [], []
    n_api = 0
    for t in ctr:
        apis = t.kinds("API")
        n_api += len(apis)
        prev_out = None
        for a in apis:
            want = "init.initial_checkpoint_token" if prev_out is None else f"{prev_out}.checkpoint_token"
            if a.data["token"] != want:
                tok.append((f"API call #{a.data['n']} carries token {a.data['token']}, expected {want}", t))
            if a.data["outcome"] == "ok":
                prev_out = f"output#{a.data['n']}"
            # updates are the batch's non-empty updates in order
            col_ev = [e for e in t.events[: t.events.index(a)] if e.kind == "COLLECT" and e.data["items"]]
            if col_ev:
                items = col_ev[-1].data["items"]
                u = a.data["updates"]
                want_u = "list[" + ",".join(f"{i}.update" for i in items if not i.endswith(".empty")) + "]"
                if u != want_u:
                    upd.append((f"API call sends {u}, expected the batch's updates {want_u}", t))
            ka = a.data.get("kwargs", {})
            if ka.get("durable_execution_arn") != "init.durable_execution_arn":
                upd.append((f"API call addresses {ka.get('durable_execution_arn')}", t))
            # release
            evs = t.events[t.events.index(a) + 1:]
            nxt = [e for e in evs if e.kind in ("API", "COLLECT")]
            seg = evs[: evs.index(nxt[0])] if nxt else evs
            sync_items = [i for i in (col_ev[-1].data["items_v"] if col_ev else []) if isinstance(i.fields.get("completion_event"), Obj)]
            for it_ in sync_items:
                sets = [e for e in seg if e.kind == "EV_SET" and e.data.get("oid") == it_.fields["completion_event"].oid]
                if len(sets) < 1:
                    rel.append((f"synchronous caller of {it_.key()} is never released after API call #{a.data['n']} ({a.data['outcome']})", t))
                    continue
                if a.data["outcome"] == "ok" and sets[0].data["error"] != "None":
                    rel.append((f"{it_.key()} released with an error although the call succeeded", t))
                if a.data["outcome"] == "fails" and sets[0].data["error"] == "None":
                    rel.append((f"{it_.key()} released as success although the call failed", t))
                if a.data["outcome"] == "ok":
                    f = [e for e in seg if e.kind == "FETCH"]
                    out_k = f"output#{a.data['n']}"
                    nothing_to_merge = any(out_k in k and k.endswith("operations)") and v is False for k, v in t.pc) and \
                        any(out_k in k and "next_marker" in k and v is False for k, v in t.pc)
                    if (not f or seg.index(f[0]) > seg.index(sets[0])) and not (nothing_to_merge and not f):
                        rel.append((f"{it_.key()} released before the response was merged", t))
            if a.data["outcome"] == "fails" and [e for e in evs if e.kind == "API"]:
                after.append(("another API call is made after a failed one", t))
    ck.floor("api_calls_judged", n_api, 4)
    for rule, lst in (("R5.token-threading", tok), ("R5.updates-are-the-batch", upd), ("R6.release", rel), ("R6.no-call-after-failure", after)):
        ck.ob(rule, c_cbf, not lst, (f"{len(lst)} path(s): {lst[0][0]}") if lst else f"{len(ctr)} paths")

    # ---- R1 ownership --------------------------------------------------------------------------
    owners = {
        ("_checkpoint_queue", "put"): {"state.py:ExecutionState.create_checkpoint"},
        ("_checkpoint_queue", "get"): {c_col, c_cbf},
        ("_overflow_queue", "put"): {c_col},
        ("_overflow_queue", "get"): {c_col, c_cbf},
    }
    # a private helper that is only ever called from an owner belongs to that owner (the consumer may factor its drain loops out)
    from sa.common import self_method_calls
    sc5 = prog.cls("state", "ExecutionState")
    callers5: dict[str, set[str]] = {}
    for mname5, m5 in sc5.methods.items():
        for _, callee in self_method_calls(m5.node):
            callers5.setdefault(callee, set()).add(f"state.py:ExecutionState.{mname5}")
    changed = True
    while changed:
        changed = False
        for key5, allowed5 in owners.items():
            for callee, cs in callers5.items():
                c5 = f"state.py:ExecutionState.{callee}"
                if c5 not in allowed5 and callee.startswith("_") and cs and cs <= allowed5:
                    allowed5.add(c5)
                    changed = True
    n_sites = 0
    for fi in prog.functions.values():
        if isinstance(fi.node, ast.Lambda):
            continue
        for n in walk_shallow(fi.node):
            if isinstance(n, ast.Call) and isinstance(n.func, ast.Attribute) and isinstance(n.func.value, ast.Attribute) \
                    and n.func.value.attr in ("_checkpoint_queue", "_overflow_queue"):
                m = n.func.attr
                kind = "put" if m.startswith("put") else "get" if m.startswith("get") else None
                if kind is None:
                    continue
                n_sites += 1
                allowed = owners[(n.func.value.attr, kind)]
                ck.ob("R1.queue-ownership", fn_construct(fi), fn_construct(fi) in allowed,
                      f"{n.func.value.attr}.{m}() outside its owner(s) {sorted(allowed)}", where=f"line {n.lineno}", cell=f"{n.func.value.attr}.{kind}")
            if isinstance(n, ast.Attribute) and n.attr in ("_checkpoint_queue", "_overflow_queue") and isinstance(n.ctx, ast.Store) \
                    and fn_construct(fi) != "state.py:ExecutionState.__init__":
                ck.ob("R1.queue-ownership", fn_construct(fi), False, f"{n.attr} is re-bound outside __init__", cell=n.attr)
    ck.floor("queue_call_sites", n_sites, 6)
    api_callers = []
    for fi in prog.functions.values():
        if isinstance(fi.node, ast.Lambda) or fi.module.short() == "lambda_service":
            continue
        for n in walk_shallow(fi.node):
            if isinstance(n, ast.Call) and isinstance(n.func, ast.Attribute) and n.func.attr == "checkpoint" \
                    and "service_client" in ast.unparse(n.func.value):
                api_callers.append(fi)
    ck.floor("api_call_sites", len(api_callers), 1)
    for fi in api_callers:
        ck.ob("R1.single-consumer", fn_construct(fi), fn_construct(fi) == c_cbf, "checkpoint API called outside the consumer loop")
    starts = []
    for fi in prog.functions.values():
        if isinstance(fi.node, ast.Lambda):
            continue
        for n in walk_shallow(fi.node):
            if isinstance(n, ast.Attribute) and n.attr == cbf.name and not (isinstance(n.value, ast.Name) and n.value.id == "self" and fi.fq == cbf.fq):
                starts.append(fi)
    ck.ob("R1.single-consumer-thread", c_cbf, len(starts) == 1, f"the consumer loop is started from {len(starts)} site(s): {[fn_construct(f) for f in starts]}")
    # R4 what is compared with the size limit is the byte size of the whole update as it travels in the request: the measure must be the
    # length of the JSON text of the update's complete wire dictionary (ASCII-only by json.dumps' default, or encoded), plus at most a
    # non-negative constant. A cheaper estimate assembled from parts undercounts what JSON escaping adds to an embedded payload.
    from sa.values import NONE, TypeRef
    sc_ = prog.cls("state", "ExecutionState")
    size_fns = [m for n_, m in sc_.methods.items() if "size" in n_ and any(isinstance(x, ast.Call) and ast.unparse(x.func).endswith("dumps") for x in ast.walk(m.node))]
    cands = {m.name for m in size_fns}
    # the function whose result is added to the running total in the collector
    coll = sc_.methods.get("_collect_checkpoint_batch")
    used = {c.func.attr for c in ast.walk(coll.node) if isinstance(c, ast.Call) and isinstance(c.func, ast.Attribute) and "size" in c.func.attr} if coll else set()
    size_fn = next((sc_.methods[n_] for n_ in used if n_ in sc_.methods), None)
    if size_fn is None:
        raise AnalysisError("the size function used by _collect_checkpoint_batch was not found")
    upd_cls = pm.update_cls
    qop_cls = prog.cls("state", "QueuedOperation")

    def h_wire(it, fn, sv, a, k, n):
        return Sym(f"wire({sv.key()})", None, parts=("WIRE", sv))

    def h_dumps(it, a, k, n):
        ea = k.get("ensure_ascii")
        return Sym(f"json({a[0].key() if a else '?'})", TypeRef(prim="str"), parts=("DUMPS", a[0] if a else NONE, ea.key() if ea is not None else None))

    def h_enc(it, recv, a, k, n):
        if isinstance(recv, Sym):
            return Sym(f"{recv.key()}.encode()", TypeRef(prim="bytes"), parts=("ENCODE", recv))
        return NotImplemented

    def kw_sz(it, state):
        q = Obj(qop_cls, label="qop")
        q.fields.update(operation_update=Sym("update", TypeRef(classes=(upd_cls.fq,))), completion_event=NONE)
        pname_ = [p_.arg for p_ in size_fn.node.args.args if p_.arg not in ("self", "cls")][0]
        return {pname_: q}

    trs = pm.run_function(size_fn, (lambda it, state: state) if size_fn.kind not in ("staticmethod", "classmethod") else None, kw_sz, cell=("size", ""),
                          extra_hooks={upd_cls.methods["to_dict"].fq: h_wire}, ext_calls={"json.dumps": h_dumps}, ext_method_hooks={"encode": h_enc})

    def exact(v):
        """True if v is len(<json text of the whole wire dict>) in bytes (possibly + non-negative constants)"""
        if isinstance(v, Sym) and v.parts and v.parts[0] == "BINOP" and v.parts[1] == "Add":
            l_, r_ = v.parts[2], v.parts[3]
            if isinstance(r_, Const) and isinstance(r_.value, (int, float)) and r_.value >= 0:
                return exact(l_)
            if isinstance(l_, Const) and isinstance(l_.value, (int, float)) and l_.value >= 0:
                return exact(r_)
            return False
        if not (isinstance(v, Sym) and v.parts and v.parts[0] == "LEN"):
            return False
        x = v.parts[1]
        encoded = False
        if isinstance(x, Sym) and x.parts and x.parts[0] == "ENCODE":
            x, encoded = x.parts[1], True
        if not (isinstance(x, Sym) and x.parts and x.parts[0] == "DUMPS"):
            return False
        if not encoded and x.parts[2] not in (None, "True"):
            return False  # characters, not bytes
        w = x.parts[1]
        return isinstance(w, Sym) and bool(w.parts) and w.parts[0] == "WIRE" and w.parts[1].key() == "update"

    bad_sz = []
    n_sz = 0
    for t in trs:
        if t.outcome != "return":
            bad_sz.append(f"the size function raises {t.exc_class()}")
            continue
        if isinstance(t.value, Const) and t.value.value == 0 and any("operation_update" in k_ and v_ is True for k_, v_ in t.pc):
            continue  # empty checkpoint
        n_sz += 1
        if not exact(t.value):
            bad_sz.append(f"the size counted for an update is {t.value.key()[:160]}: not the byte length of the JSON text of its complete wire dictionary")
    ck.floor("size_paths", n_sz, 1)
    ck.ob("R4.size-is-serialized-wire-form", fn_construct(size_fn), not bad_sz, bad_sz[0] if bad_sz else f"{n_sz} path(s)")
    # R6 the consumer can leave its loop in two ways: after a failed call (judged above and by C06) and because it was told to stop. In both cases
    # nobody reads the queues any more, so (a) a flag the producers look at must be raised and (b) whoever already waits in a queue must be
    # released - otherwise a thread that outlives the handler (orphaned branch, resume timer) blocks for ever on a checkpoint that is never sent
    loops6 = [n for n in cbf.node.body if isinstance(n, ast.While)]
    if len(loops6) != 1:
        raise AnalysisError("consumer loop of checkpoint_batches_forever not found (expected one top-level while)")
    lp6 = loops6[0]
    after6 = list(lp6.orelse) + cbf.node.body[cbf.node.body.index(lp6) + 1:]
    producer_flags = {n.func.value.attr for n in ast.walk(pm.ckpt_fn.node) if isinstance(n, ast.Call) and isinstance(n.func, ast.Attribute) and n.func.attr == "is_set"
                      and isinstance(n.func.value, ast.Attribute) and isinstance(n.func.value.value, ast.Name) and n.func.value.value.id == "self"}

    def reach6(stmts, depth=0):
        out = []
        for st_ in stmts:
            for c in ast.walk(st_):
                if isinstance(c, ast.Call):
                    out.append(c)
                    if depth < 2 and isinstance(c.func, ast.Attribute) and isinstance(c.func.value, ast.Name) and c.func.value.id == "self" and c.func.attr in sc5.methods:
                        out.extend(reach6(sc5.methods[c.func.attr].node.body, depth + 1))
        return out

    calls6 = reach6(after6)
    raised = {c.func.value.attr for c in calls6 if isinstance(c.func, ast.Attribute) and c.func.attr == "set" and isinstance(c.func.value, ast.Attribute)}
    drained = {c.func.value.attr for c in calls6 if isinstance(c.func, ast.Attribute) and c.func.attr in ("get_nowait", "get") and isinstance(c.func.value, ast.Attribute)}
    # a drain written once over both queues: `for q in (self._overflow_queue, self._checkpoint_queue): ... q.get_nowait()`
    alias6: dict[str, set[str]] = {}
    for st_ in after6:
        for lp_ in ast.walk(st_):
            if isinstance(lp_, ast.For) and isinstance(lp_.target, ast.Name) and isinstance(lp_.iter, (ast.Tuple, ast.List)):
                attrs_ = {e.attr for e in lp_.iter.elts if isinstance(e, ast.Attribute) and isinstance(e.value, ast.Name) and e.value.id == "self"}
                if attrs_ and any(isinstance(c, ast.Call) and isinstance(c.func, ast.Attribute) and c.func.attr in ("get_nowait", "get") and isinstance(c.func.value, ast.Name)
                                  and c.func.value.id == lp_.target.id for c in ast.walk(lp_)):
                    drained |= attrs_
    ck.analysed["producer_observed_flags"] = sorted(producer_flags)
    ck.ob("R6.stop-refuses-later-producers", c_cbf, bool(raised & producer_flags),
          f"when the consumer leaves its loop because it was told to stop it raises none of the flags a producer looks at ({sorted(producer_flags)}): a synchronous "
          "checkpoint requested afterwards is enqueued for nobody and its caller waits for ever")
    ck.ob("R6.stop-releases-queued-waiters", c_cbf, {"_checkpoint_queue", "_overflow_queue"} <= drained,
          f"when the consumer leaves its loop because it was told to stop it drains {sorted(drained) or 'no queue'}: a synchronous caller already queued is never released")
    # ... released WITH the stop marker: every item taken off a queue there has its completion event set with an error (set() without one would tell the
    # caller its record was accepted; no set() at all leaves it blocked for ever)
    par6 = {}
    for st_ in after6:
        for n_ in ast.walk(st_):
            for c_ in ast.iter_child_nodes(n_):
                par6[id(c_)] = n_
    n_taken = 0
    unreleased = []
    for st_ in after6:
        for asg in ast.walk(st_):
            if isinstance(asg, ast.Assign) and isinstance(asg.value, ast.Call) and isinstance(asg.value.func, ast.Attribute) and asg.value.func.attr in ("get_nowait", "get") \
                    and isinstance(asg.targets[0], ast.Name):
                n_taken += 1
                item_ = asg.targets[0].id
                cur = par6.get(id(asg))
                while cur is not None and not isinstance(cur, (ast.While, ast.For)):
                    cur = par6.get(id(cur))
                scope = cur if cur is not None else st_
                sets6 = [c for c in ast.walk(scope) if isinstance(c, ast.Call) and isinstance(c.func, ast.Attribute) and c.func.attr == "set"
                         and ast.unparse(c.func.value) == f"{item_}.completion_event"]
                if not sets6 or not all(c.args or c.keywords for c in sets6):
                    unreleased.append(f"line {asg.lineno}: `{ast.unparse(asg)}`")
                    continue
                # the release happens for every item that HAS a waiter: the test around set() is the presence of that very event, and the loop goes on
                # while the queue is NOT empty (or for ever, left through queue.Empty)
                for c in sets6:
                    g_ = par6.get(id(par6.get(id(c))))
                    if isinstance(g_, ast.If) and ast.unparse(g_.test) not in (f"{item_}.completion_event", f"{item_}.completion_event is not None"):
                        unreleased.append(f"line {c.lineno}: the release is guarded by `{ast.unparse(g_.test)}`")
                if isinstance(scope, ast.While):
                    tst = scope.test
                    is_true = isinstance(tst, ast.Constant) and tst.value is True
                    not_empty = isinstance(tst, ast.UnaryOp) and isinstance(tst.op, ast.Not) and isinstance(tst.operand, ast.Call) and isinstance(tst.operand.func, ast.Attribute) \
                        and tst.operand.func.attr == "empty"
                    has_size = (isinstance(tst, ast.Call) and isinstance(tst.func, ast.Attribute) and tst.func.attr == "qsize") or (
                        isinstance(tst, ast.Compare) and isinstance(tst.left, ast.Call) and isinstance(tst.left.func, ast.Attribute) and tst.left.func.attr == "qsize"
                        and len(tst.ops) == 1 and isinstance(tst.ops[0], ast.Gt) and isinstance(tst.comparators[0], ast.Constant) and tst.comparators[0].value == 0)
                    if not (is_true or not_empty or has_size):
                        unreleased.append(f"line {scope.lineno}: the drain loop runs while `{ast.unparse(scope.test)}`")
    ck.floor("stop_path_items_taken", n_taken, 1)
    ck.ob("R6.stop-releases-queued-waiters", c_cbf, not unreleased,
          "; ".join(unreleased) + ": an item taken off a queue after the consumer was told to stop is not released with the stop marker (its completion event is not set, "
          "or set without an error): the synchronous caller behind it blocks for ever, or believes its record was accepted", cell="with the marker")
    # R5 the last hop: LambdaClient hands the batch to the service API. The batcher rules above end at `self._service_client.checkpoint(...)`; what the client
    # does with its arguments is the same clause (nothing lost, duplicated or reordered; the token of the previous response is presented): every argument of
    # the API call is the corresponding parameter itself, `Updates` is one wire dictionary per update in the order given, and the response is decoded whole.
    lc = prog.cls("lambda_service", "LambdaClient")
    PASS = {"checkpoint": ("checkpoint_durable_execution", {"DurableExecutionArn": "durable_execution_arn", "CheckpointToken": "checkpoint_token"}, "CheckpointOutput"),
            "get_execution_state": ("get_durable_execution_state", {"DurableExecutionArn": "durable_execution_arn", "CheckpointToken": "checkpoint_token",
                                                                    "Marker": "next_marker", "MaxItems": "max_items"}, "StateOutput")}

    def strip_cast(e):
        while isinstance(e, ast.Call) and isinstance(e.func, ast.Name) and e.func.id == "cast" and len(e.args) == 2:
            e = e.args[1]
        return e
    n_api = 0
    for mname, (api, table, out_cls) in PASS.items():
        fi = lc.methods.get(mname)
        if fi is None:
            raise AnalysisError(f"LambdaClient.{mname} not found")
        calls = [c for c in ast.walk(fi.node) if isinstance(c, ast.Call) and isinstance(c.func, ast.Attribute) and c.func.attr == api]
        if len(calls) != 1:
            raise AnalysisError(f"LambdaClient.{mname}: expected one call of {api}, found {len(calls)}")
        n_api += 1
        # ... exactly once: the call is not repeated by the client itself. A response lost on the wire does not say the batch was not applied; the same batch sent
        # again (same token, same updates, no idempotency token) is a duplicate delivery - a second START for an attempt, records after a terminal one (r9_C11).
        # Shape judged: no loop around the call, and no second call of the API from a handler of the first
        par_ = {}
        for n_ in ast.walk(fi.node):
            for c_ in ast.iter_child_nodes(n_):
                par_[id(c_)] = n_
        cur_, loops_ = par_.get(id(calls[0])), []
        while cur_ is not None and cur_ is not fi.node:
            if isinstance(cur_, (ast.For, ast.While, ast.AsyncFor, ast.ListComp, ast.GeneratorExp)):
                loops_.append(f"`{ast.unparse(cur_).splitlines()[0][:60]}` (line {cur_.lineno})")
            cur_ = par_.get(id(cur_))
        recursive_ = [c for c in ast.walk(fi.node) if isinstance(c, ast.Call) and isinstance(c.func, ast.Attribute) and c.func.attr == mname
                      and isinstance(c.func.value, ast.Name) and c.func.value.id == "self"]
        if mname == "checkpoint":
            ck.ob("R5.one-wire-call-per-hand-over", fn_construct(fi), not loops_ and not recursive_,
                  (f"the API call sits inside the loop {loops_[0]}" if loops_ else f"LambdaClient.{mname} calls itself again") +
                  ": one hand-over of a batch can reach the backend more than once (a transport error after the backend applied the batch makes the second send a duplicate)",
                  cell=mname)
        kws = {k.arg: strip_cast(k.value) for k in calls[0].keywords if k.arg}
        badk = [f"{k}={ast.unparse(kws[k]) if k in kws else '<missing>'} (expected the parameter `{pname}`)" for k, pname in table.items()
                if not (k in kws and isinstance(kws[k], ast.Name) and kws[k].id == pname)]
        rebound = sorted({t.id for st in ast.walk(fi.node) if isinstance(st, (ast.Assign, ast.AugAssign, ast.AnnAssign))
                          for t in ast.walk(st.targets[0] if isinstance(st, ast.Assign) else st.target) if isinstance(t, ast.Name) and t.id in set(table.values()) | {"updates"}})
        if mname == "checkpoint":
            u = kws.get("Updates")
            ok_u = (isinstance(u, ast.ListComp) and len(u.generators) == 1 and not u.generators[0].ifs and isinstance(u.generators[0].iter, ast.Name)
                    and u.generators[0].iter.id == "updates" and isinstance(u.generators[0].target, ast.Name) and isinstance(u.elt, ast.Call)
                    and ast.unparse(u.elt) == f"{u.generators[0].target.id}.to_dict()")
            if not ok_u:
                badk.append(f"Updates={ast.unparse(u) if u is not None else '<missing>'} (expected one `.to_dict()` per element of `updates`, all of them, in order)")
        decoded = [c for c in ast.walk(fi.node) if isinstance(c, ast.Call) and ast.unparse(c.func) == f"{out_cls}.from_dict"]
        ck.ob("R5.client-passes-the-call-through", fn_construct(fi), not badk and not rebound and len(decoded) == 1,
              "; ".join(badk) or (f"parameters re-bound before the call: {rebound}" if rebound else f"the response is not decoded through {out_cls}.from_dict"), cell=mname)
    ck.floor("service_api_calls", n_api, 2)
    return ck


if __name__ == "__main__":
    main(PID, build)
