"""C03 - write-ahead: no outcome is visible before the backend accepted its record (DESIGN.md section 4)."""

from __future__ import annotations

import ast

from sa.cfg import CFG
from sa.common import applicable_cells, fn_construct, methods_writing_operations, terminal_statuses, trace_sig
from sa.model import AnalysisError, load_program
from sa.protocol import (
    ABSENT,
    ProtocolModel,
    create_checkpoint_traces,
    is_suspend,
    user_events,
    wrapper_traces,
)
from sa.report import Check, main
from sa.values import Const, Obj, Sym

PID = "C03"
UNRECOVERABLE = "aws_durable_execution_sdk_python.exceptions.UnrecoverableError"
CONTROL = ("BackgroundThreadError", "OrphanedChildException")


def cls_construct(ci):
    return f"{ci.module.relpath.split('aws_durable_execution_sdk_python/')[-1]}:{ci.name}"


def judge_trace(prog, t, st, ot):
    """Returns None if the trace satisfies the write-ahead clause, else a reason."""
    evs = t.events
    idx_user = [i for i, e in enumerate(evs) if e.kind == "USER"]
    last_user = idx_user[-1] if idx_user else -1
    ok_sync = [i for i, e in enumerate(evs) if e.kind == "CKPT" and e.data.get("sync") and e.data.get("outcome") == "ok"]
    failed_ckpt = [e for e in evs if e.kind == "CKPT" and e.data.get("outcome") not in ("ok", None)]
    if failed_ckpt:
        # the record was not accepted: the call must end with that very failure, nothing may follow
        fe = failed_ckpt[0]
        after = evs[evs.index(fe) + 1:]
        if t.outcome != "raise" or (t.exc_class() or "").rsplit(".", 1)[-1] != fe.data["outcome"]:
            return f"checkpoint failed with {fe.data['outcome']} but the call ends with {t.outcome} {t.exc_class()}"
        if any(e.kind in ("USER", "CKPT") for e in after):
            return "user code or further checkpoints after a failed checkpoint"
        return None
    body_control = [e for e in user_events(t, "user") if e.data.get("outcome", "").rsplit(".", 1)[-1] in
                    ("SuspendExecution", "TimedSuspendExecution", *CONTROL)]
    if body_control and t.outcome == "raise":
        return None  # a nested operation's control exception passing through a context body (judged in its own cell)
    # (an earlier version exempted a raising user-supplied retry / wait strategy as "not an operation outcome". It is one: ctx.step() raises to user code,
    # which may catch it and go on, and nothing was recorded - the next invocation shows the same call another outcome: h3_C03 #1. wait_for_condition
    # calls its strategy inside the try that records FAIL; the step did not.)
    if t.outcome == "return":
        if st in ("SUCCEEDED",):
            return None
        if last_user >= 0:
            good = [i for i in ok_sync if i > last_user and evs[i].data.get("action") == "SUCCEED"]
            if not good:
                return "returns a result after user code without an accepted synchronous SUCCEED record"
            return None
        if st == ABSENT and not ok_sync:
            return "returns from a first-time operation without any accepted synchronous record"
        return None
    # raise
    c = (t.exc_class() or "").rstrip("*")
    if is_suspend(prog, t):
        if last_user >= 0 or any(e.kind == "USER" for e in evs):
            good = [i for i in ok_sync if i > last_user and evs[i].data.get("action") in ("RETRY", "START")]
            if not good:
                return "suspends after user/strategy code without an accepted synchronous RETRY/START record"
            return None
        if st == ABSENT and not [i for i in ok_sync if evs[i].data.get("action") in ("START", "RETRY")]:
            return "suspends on a first-time operation without an accepted synchronous START record"
        return None
    if c.rsplit(".", 1)[-1] in CONTROL:
        return None
    if st == "SUCCEEDED":
        return None  # the terminal record exists already (a summarised context traversed again): nothing can or may be recorded (C11), divergence is C02's
    # a final error reaches the caller: if the operation's body ran in this call, the failure must have been recorded first - whatever its
    # class. (SDK-level "fatal" errors are ordinary Exceptions on their way through user code: a caller that catches them runs past the call.)
    if user_events(t, "user"):
        good = [i for i in ok_sync if i > last_user and evs[i].data.get("action") == "FAIL"]
        if not good:
            short = c.rsplit(".", 1)[-1] or "an exception"
            fatal = c in prog.classes and prog.is_subclass(c, UNRECOVERABLE)
            return ("FATAL:" if fatal else "") + f"raises {short} to the caller after the operation's body ran without an accepted synchronous FAIL record"
    return None


def build() -> Check:
    prog = load_program()
    pm = ProtocolModel(prog)
    ck = Check(
        PID, "write-ahead",
        "Producer side: every trace of every non-terminal executor cell is checked for 'accepted synchronous record "
        "precedes return / final raise / suspend' with checkpoint failures injected at every checkpoint. "
        "create_checkpoint is interpreted on a state object built by its own __init__: put -> wait on the same event. "
        "Consumer side: CFG dominance (API call and merge dominate every success set(); handler sets carry the error); "
        "FIFO queues; wrapper: large result is recorded synchronously before SUCCEEDED is returned.",
        ["thread interleavings are not explored: the argument composes R1/R2 (caller blocks on its own event), R3 (the event is set only "
         "after the API returned and the response was merged) and the stdlib Queue/Event happen-before guarantees",
         "a user-supplied retry / wait strategy may raise like any other user code: the operation's failure must be recorded all the same"],
        "one obligation per (rule, executor, cell) and per CFG site",
    )
    term = terminal_statuses(prog)
    n = 0
    ntr = 0
    for name, ci, ot, st in applicable_cells(pm):
        if st in term and st != "SUCCEEDED":
            continue
        if st == "SUCCEEDED" and ot != "CONTEXT":
            continue
        traces = pm.run_cell(ci, st, faults=True)
        n += 1
        ntr += len(traces)
        bad, badf = [], []
        for t in traces:
            if t.kinds("LOOP_CUT"):
                raise AnalysisError(f"loop in executor path {name}/{st}")
            why = judge_trace(prog, t, st, ot)
            if why and why.startswith("FATAL:"):
                badf.append((why[6:], t))
            elif why:
                bad.append((why, t))
        ck.ob("R1.record-before-outcome", cls_construct(ci), not bad,
              (f"{len(bad)}/{len(traces)} traces: {bad[0][0]}: {trace_sig(bad[0][1])}") if bad else f"{len(traces)} traces", cell=st)
        # SDK-level "fatal" errors (UnrecoverableError family) are ordinary Exceptions on their way through user code: same obligation, own rule id
        ck.ob("R1.fatal-error-is-recorded-before-it-is-raised", cls_construct(ci), not badf,
              (f"{len(badf)}/{len(traces)} traces: {badf[0][0]}: {trace_sig(badf[0][1])}") if badf else "", cell=st)
    ck.floor("cells", n, 17)
    ck.floor("traces", ntr, 100)

    # R2 ---------------------------------------------------------------------------------
    cc = create_checkpoint_traces(pm)
    ck.floor("create_checkpoint_traces", len(cc), 4)
    construct = fn_construct(pm.ckpt_fn)
    bad = []
    n_sync_put = 0
    bad_raise = []
    for t in cc:
        sync = dict(t.pc).get("is_sync")
        puts = [e for e in t.events if e.kind == "EXT" and e.data["method"] in ("put", "put_nowait")]
        waits = [e for e in t.events if e.kind == "EV_WAIT" and "checkpointing_failed" not in e.data["ev"]]
        if not puts:
            if t.outcome == "return":
                bad.append(("returns without enqueueing the update", t))
            continue
        qop = puts[-1].data["arg_values"][0] if puts[-1].data.get("arg_values") else None
        ev = qop.fields.get("completion_event") if isinstance(qop, Obj) else None
        upd = qop.fields.get("operation_update") if isinstance(qop, Obj) else None
        want_upd = "update" if dict(t.pc).get("operation_update") == "update" else "None"
        if upd is None or upd.key() != want_upd:
            bad.append((f"enqueued update is {upd.key() if upd else None}, expected the caller's", t))
        if len(puts) != 1:
            bad.append((f"{len(puts)} enqueues for one call", t))
        if t.outcome == "raise":
            # once the update is in the queue it may still be applied: whatever the call raises from here on must end the invocation, i.e. must not
            # be catchable as an ordinary failure of the operation's body (`except Exception` in the step / child / wait-for-condition executors would
            # record RETRY or FAIL behind a SUCCEED that is still in flight - r8_C11: a timeout reported as CheckpointError)
            cls_r = prog.classes.get((t.exc_class() or "").rstrip("*"))
            after_put_r = t.events[t.events.index(puts[-1]) + 1:]
            if cls_r is not None and cls_r.is_subclass_of("builtins.Exception") and not any("pragma" in str(k) for k, _v in t.pc):
                infeasible = isinstance(ev, Obj) and any(str(k).endswith("is None") and v is True and "completion_event" in str(k) for k, v in t.pc)
                if not infeasible:
                    bad_raise.append((f"after the update was enqueued the call raises {cls_r.name}, an ordinary Exception: the executors' `except Exception` takes it for a "
                                      "failure of the operation's body and records RETRY / FAIL while the enqueued record may still be applied", t))
        if sync is True:
            n_sync_put += 1
            if not isinstance(ev, Obj):
                bad.append(("synchronous call enqueues no completion event", t))
            elif t.outcome == "return":
                # a normal return must rest on the caller's own event having been set: an unbounded wait on it, a bounded wait that
                # was released, or a read that saw it set (a polling loop) - never a timeout or somebody else's flag
                after_put = t.events[t.events.index(puts[-1]) + 1:]
                released = any(w.kind == "EV_WAIT" and w.data.get("oid") == ev.oid and w.data.get("outcome") == "released" for w in after_put)
                seen = any(w.kind == "EV_ISSET" and w.data.get("oid") == ev.oid and w.data.get("result") for w in after_put)
                if not (released or seen):
                    bad.append(("synchronous call returns normally although nothing established that the event it enqueued was set "
                                "(no released wait on it, no read that saw it set)", t))
        else:
            if not (isinstance(ev, Const) and ev.value is None):
                bad.append(("asynchronous call enqueues a completion event", t))
            if waits:
                bad.append(("asynchronous call blocks", t))
    ck.floor("sync_put_traces", n_sync_put, 1)
    ck.ob("R2.after-the-enqueue-only-invocation-ending-errors", construct, not bad_raise, (bad_raise[0][0] + ": " + trace_sig(bad_raise[0][1])) if bad_raise else "")
    ck.ob("R2.put-then-wait-same-event", construct, not bad, (bad[0][0] + ": " + trace_sig(bad[0][1])) if bad else f"{len(cc)} traces")
    # default of is_sync is True (call sites that omit it are synchronous)
    a = pm.ckpt_fn.node.args
    dflt = dict(zip([x.arg for x in a.args][-len(a.defaults):], a.defaults)).get("is_sync")
    ck.ob("R2.default-is-sync", construct, isinstance(dflt, ast.Constant) and dflt.value is True, "create_checkpoint(is_sync) must default to True")

    # R3 consumer ----------------------------------------------------------------------------
    cbf = prog.func("state", "ExecutionState.checkpoint_batches_forever")
    g = CFG(cbf)
    api = g.find_calls("checkpoint", "self._service_client")
    mergers = methods_writing_operations(prog)
    fetch = [nd for nd in g.nodes if any(isinstance(c.func, ast.Attribute) and c.func.attr in mergers
                                          and isinstance(c.func.value, ast.Name) and c.func.value.id == "self"
                                          for c in g.calls_at(nd))]
    ck.floor("consumer_api_calls", len(api), 1)
    ck.analysed["consumer_merge_calls"] = len(fetch)
    ck.ob("R3.response-is-merged", fn_construct(cbf), bool(fetch),
          f"the consumer never calls a method that merges the response into self.operations (candidates: {sorted(mergers)})")
    sets = []
    for nd in g.find_calls("set"):
        for c in g.calls_at(nd):
            if isinstance(c.func, ast.Attribute) and c.func.attr == "set" and "completion_event" in ast.unparse(c.func.value):
                sets.append((nd, c))
    ck.floor("consumer_completion_sets", len(sets), 2)
    n_plain = 0
    for nd, c in sets:
        has_arg = bool(c.args or c.keywords)
        if not has_arg:
            n_plain += 1
            ok = all(g.dominates(a_.idx, nd.idx) for a_ in api[:1]) and all(g.dominates(api[0].idx, f.idx) for f in fetch) \
                and not any(g.reachable(nd.idx, f.idx, avoiding={x.idx for x in g.nodes if x.label == "while"}) for f in fetch)
            ck.ob("R3.set-after-api-and-merge", fn_construct(cbf), ok,
                  "a success completion_event.set() is not dominated by the API call, or the merge of the response can still follow it", where=g.loc(nd))
        else:
            ck.ob("R3.handler-set-carries-error", fn_construct(cbf), True, "", where=g.loc(nd))
    ck.floor("consumer_success_sets", n_plain, 1)
    # every set() reachable from an except handler must carry an argument
    handlers = [nd for nd in g.nodes if nd.kind == "handler"]
    for h in handlers:
        reach = g.reachable_set(h.idx, avoiding={x.idx for x in g.nodes if x.label == "while" and x.stmt is not None and g.dominates(x.idx, h.idx)})
        for nd, c in sets:
            if nd.idx in reach and not (c.args or c.keywords):
                inside = any(nd.stmt is s or any(nd.stmt is x for x in ast.walk(s)) for s in h.stmt.body)
                if inside:
                    ck.ob("R3.handler-set-carries-error", fn_construct(cbf), False,
                          "completion_event.set() without the error inside the failure handler", where=g.loc(nd))
    # the merged response is the one just returned
    if not fetch:
        return ck
    fcall = next(c for c in g.calls_at(fetch[0]) if isinstance(c.func, ast.Attribute) and c.func.attr in mergers)
    apistmt = api[0].stmt
    outvar = None
    if isinstance(apistmt, (ast.Assign, ast.AnnAssign)):
        tg = apistmt.targets[0] if isinstance(apistmt, ast.Assign) else apistmt.target
        outvar = tg.id if isinstance(tg, ast.Name) else None
    # local aliases of the response (new_state = output.new_execution_state)
    aliases = {outvar} if outvar else set()
    for st_ in ast.walk(cbf.node):
        if isinstance(st_, (ast.Assign, ast.AnnAssign)) and st_.value is not None:
            tg_ = st_.target if isinstance(st_, ast.AnnAssign) else st_.targets[0]
            if isinstance(tg_, ast.Name) and outvar and any(isinstance(n_, ast.Name) and n_.id == outvar for n_ in ast.walk(st_.value)):
                aliases.add(tg_.id)
    argtxt = [ast.unparse(a_) for a_ in list(fcall.args) + [k_.value for k_ in fcall.keywords]]
    merged_ok = outvar is not None and argtxt and any(n_ in argtxt[0] for n_ in aliases) and any(t_.endswith(".operations") for t_ in argtxt)
    ck.ob("R3.merge-uses-response", fn_construct(cbf), merged_ok, f"fetch_paginated_operations({', '.join(ast.unparse(a_) for a_ in fcall.args)})")

    # the same through interpretation of the consumer (covers helpers the handler delegates to)
    from sa.protocol import consumer_traces
    from sa.values import Obj as _Obj
    bad_c = []
    for t in consumer_traces(pm):
        for i, e in enumerate(t.events):
            if e.kind == "API" and e.data["outcome"] == "fails":
                for s_ in t.events[i + 1:]:
                    if s_.kind == "EV_SET" and s_.data["error"] == "None":
                        bad_c.append((f"after a failed API call {s_.data['ev']} is released as if its record had been accepted", t))
            if e.kind == "API" and e.data["outcome"] == "ok":
                nxt = [x for x in t.events[i + 1:] if x.kind in ("API", "COLLECT")]
                seg = t.events[i + 1: t.events.index(nxt[0])] if nxt else t.events[i + 1:]
                f_ = [x for x in seg if x.kind == "FETCH"]
                out_k = f"output#{e.data['n']}"
                nothing_to_merge = any(out_k in k and k.endswith("operations)") and v is False for k, v in t.pc) and \
                    any(out_k in k and "next_marker" in k and v is False for k, v in t.pc)
                for s_ in seg:
                    if s_.kind == "EV_SET" and (not f_ or seg.index(f_[0]) > seg.index(s_)) and not (nothing_to_merge and not f_):
                        bad_c.append((f"{s_.data['ev']} is released before the response was merged", t))
    ck.ob("R3.release-reflects-api-outcome", fn_construct(cbf), not bad_c, bad_c[0][0] if bad_c else "")

    # R4 FIFO --------------------------------------------------------------------------------
    init = prog.func("state", "ExecutionState.__init__")
    qs = {}
    for st in ast.walk(init.node):
        if isinstance(st, (ast.Assign, ast.AnnAssign)):
            tg = st.targets[0] if isinstance(st, ast.Assign) else st.target
            if isinstance(tg, ast.Attribute) and tg.attr in ("_checkpoint_queue", "_overflow_queue") and st.value is not None:
                qs[tg.attr] = ast.unparse(st.value.func) if isinstance(st.value, ast.Call) else ast.unparse(st.value)
    ck.floor("queues", len(qs), 2)
    for qn, ctor in qs.items():
        ck.ob("R4.fifo-queue", fn_construct(init), ctor in ("queue.Queue", "Queue", "queue.SimpleQueue"), f"{qn} is constructed as {ctor}", cell=qn)
    col = prog.func("state", "ExecutionState._collect_checkpoint_batch")
    g2 = CFG(col)
    ov = [nd for nd in g2.find_calls("get_nowait") + g2.find_calls("get") if "_overflow_queue" in ast.unparse(g2.calls_at(nd)[0].func)]
    mq = [nd for nd in g2.find_calls("get") + g2.find_calls("get_nowait") if "_checkpoint_queue" in ast.unparse(g2.calls_at(nd)[0].func)]
    ck.floor("overflow_gets", len(ov), 1)
    ck.floor("main_queue_gets", len(mq), 2)
    # the drain may run zero times (nothing parked): what must dominate is the drain loop itself
    from sa.cfg import enclosing_loops
    loops = enclosing_loops(col.node)
    ov_heads = []
    for o in ov:
        chain = loops.get(id(o.stmt), [])
        head = chain[0] if chain else o.stmt
        ov_heads += [nd for nd in g2.nodes if nd.stmt is head and nd.kind in ("header", "stmt")]
    for m in mq:
        ck.ob("R4.overflow-drained-first", fn_construct(col), any(g2.dominates(o.idx, m.idx) for o in ov_heads),
              "a main-queue get is not dominated by the overflow drain", where=g2.loc(m))

    # R5 wrapper -----------------------------------------------------------------------------
    wt = wrapper_traces(pm, faults=True)
    ck.floor("wrapper_traces", len(wt), 20)
    wrapper = prog.func("execution", "durable_execution.<locals>.wrapper")
    bad = []
    n_succ = 0
    for t in wt:
        if t.outcome != "return" or not hasattr(t.value, "items"):
            continue
        status = t.value.items.get("Status")
        if not (isinstance(status, Const) and status.value == "SUCCEEDED"):
            continue
        n_succ += 1
        res = [e for e in t.events if e.kind == "RESULT"]
        if not res or res[0].data.get("outcome") != "return":
            bad.append(("SUCCEEDED without the handler having returned", t))
            continue
        payload = t.value.items.get("Result")
        if isinstance(payload, Const) and payload.value == "":
            cks = [e for e in t.events if e.kind == "CKPT" and e.data.get("type") == "EXECUTION" and e.data.get("action") == "SUCCEED"
                   and e.data.get("sync") and e.data.get("outcome") == "ok"]
            if not cks:
                bad.append(("SUCCEEDED with empty payload without an accepted synchronous EXECUTION SUCCEED record", t))
            elif not (isinstance(cks[-1].data.get("payload_v"), Sym) and cks[-1].data["payload_v"].k.startswith("json.dumps")):
                bad.append(("the EXECUTION SUCCEED record does not carry the serialised result", t))
    ck.floor("wrapper_succeeded_traces", n_succ, 2)
    ck.ob("R5.wrapper-success-after-record", fn_construct(wrapper), not bad, (bad[0][0] + ": " + trace_sig(bad[0][1])[-600:]) if bad else "")
    # R1 what a user strategy RETURNED is user data: reading it and computing with it can fail like the call itself (None for a forgotten return, a decision whose
    # delay is not a number, a Mock). Every such use - attribute access, comparison, arithmetic, subscript, call - lies inside the guard that records the
    # operation's failure; a use outside it leaves ctx.step() raising with nothing recorded (g2_steps2 #1: the reads; g3_late2 #1: `delay_seconds < 1`).
    # Bare truth tests of such values are not counted (a __bool__ that raises is not a forgotten return).
    n_uses = 0
    for cls_mod, cls_name, meth in (("operation.step", "StepOperationExecutor", "retry_handler"), ("operation.wait_for_condition", "WaitForConditionOperationExecutor", "execute")):
        fi_ = prog.cls(cls_mod, cls_name).methods.get(meth)
        if fi_ is None:
            raise AnalysisError(f"{cls_name}.{meth} not found")
        derived = set()
        assigns = [n for n in ast.walk(fi_.node) if isinstance(n, (ast.Assign, ast.AnnAssign)) and getattr(n, "value", None) is not None]

        def targets_of(n):
            tg = n.targets if isinstance(n, ast.Assign) else [n.target]
            return {x.id for t in tg for x in ast.walk(t) if isinstance(x, ast.Name)}
        for n in assigns:
            if any(isinstance(c, ast.Call) and "strategy" in ast.unparse(c.func) and "config" not in ast.unparse(c.func).split("strategy")[-1] and c.args for c in ast.walk(n.value)
                   if isinstance(c, ast.Call)):
                derived |= targets_of(n)
        if not derived:
            raise AnalysisError(f"{cls_name}.{meth}: no call of the user strategy found")
        changed = True
        while changed:
            changed = False
            for n in assigns:
                if any(isinstance(x, ast.Name) and x.id in derived for x in ast.walk(n.value)) and not targets_of(n) <= derived:
                    # a constant re-initialisation in the fallback arm (`x = False, 0`) derives nothing
                    derived |= targets_of(n)
                    changed = True
        par_ = {}
        for n in ast.walk(fi_.node):
            for c in ast.iter_child_nodes(n):
                par_[id(c)] = n

        def guarded_(n):
            cur = par_.get(id(n))
            while cur is not None:
                if isinstance(cur, ast.Try) and any(n is x for b in cur.body for x in ast.walk(b)) and any(
                        h.type is None or any(isinstance(x, ast.Name) and x.id in ("Exception", "BaseException") for x in ast.walk(h.type)) for h in cur.handlers):
                    return True
                cur = par_.get(id(cur))
            return False

        def is_d(e):
            return isinstance(e, ast.Name) and e.id in derived
        bad_u = []
        for n in ast.walk(fi_.node):
            use = None
            if isinstance(n, ast.Attribute) and is_d(n.value) and isinstance(n.ctx, ast.Load):
                use = f"{ast.unparse(n)}"
            elif isinstance(n, ast.Compare) and (is_d(n.left) or any(is_d(c) for c in n.comparators)) and not all(isinstance(o, (ast.Is, ast.IsNot)) for o in n.ops):
                use = ast.unparse(n)
            elif isinstance(n, ast.BinOp) and (is_d(n.left) or is_d(n.right)):
                use = ast.unparse(n)
            elif isinstance(n, ast.Subscript) and is_d(n.value):
                use = ast.unparse(n)
            elif isinstance(n, ast.Call) and is_d(n.func):
                use = ast.unparse(n)
            if use is None:
                continue
            n_uses += 1
            if not guarded_(n):
                bad_u.append(f"line {n.lineno}: `{use}`")
        ck.ob("R1.strategy-decision-is-used-inside-the-guard", fn_construct(fi_), not bad_u,
              "; ".join(bad_u[:3]) + ": computed from what the user's strategy returned, outside the try that records the operation's failure - a decision that cannot be "
              "read or compared (None, a non-numeric delay) makes the call raise with no RETRY / FAIL record; the next invocation shows the same call another outcome" if bad_u
              else f"values derived from the decision: {sorted(derived)}")
    ck.floor("strategy_decision_uses", n_uses, 4)
    # R2 the mailbox itself: CompletionEvent stores the error before it releases the waiter, and the waiter reads it after it was released (r7_C03 / r7_C06)
    from sa.common import completion_event_publication
    (ce_set, ce_wait), ce_rules, ce_an = completion_event_publication(prog)
    ck.analysed["completion_event"] = ce_an
    for suffix, ok, detail in ce_rules:
        ck.ob(f"R2.completion-event-" + suffix, fn_construct(ce_wait if suffix.startswith(("slot", "wait")) else ce_set), ok, detail + ("" if ok else " - the producer returns to user code as if the record had been accepted"))
    return ck


if __name__ == "__main__":
    main(PID, build)
