"""C19 - ordered lock and counter: monitor-discipline clauses (DESIGN.md section 20)."""

from __future__ import annotations

import ast

from sa.common import fn_construct
from sa.model import AnalysisError, load_program
from sa.protocol import ProtocolModel
from sa.report import Check, main
from sa.values import NONE, Const, Obj, Sym, TypeRef

PID = "C19"
GUARDED = ("_waiters", "_is_broken", "_exception")


def sig(t):
    return " ; ".join(e.brief()[:60] for e in t.events if e.kind in ("WITH_ENTER", "WITH_EXIT", "EXT", "SETATTR", "LOOP_CUT")) + \
        f" => {t.outcome} {t.exc_class() or (t.value.key() if t.value else '')}"


def build() -> Check:
    prog = load_program()
    pm = ProtocolModel(prog)
    ck = Check(
        PID, "ordered lock and counter",
        "acquire / release / __exit__ of OrderedLock and increment / decrement of OrderedCounter are interpreted with the waiter queue, the inner lock and the "
        "per-caller events as keyed external objects (knowledge about a queue is dropped after every mutation): lock discipline of every access to the shared "
        "fields, enqueue-before-wait on the same sticky event, self-wake exactly when the queue was empty, FIFO discipline (append / popleft / wake index 0), "
        "wake-the-head on release, break-and-wake-all on an exceptional exit, re-test of the broken flag after waking, and the counter's read-modify-return "
        "inside one hold of the ordered lock.",
        ["FIFO / exclusion / gap-freedom under all interleavings are not decided: these clauses are necessary conditions of them",
         "threading.Event is sticky and threading.Lock is a mutex (stdlib)"],
        "one obligation per rule and method",
    )
    ol = prog.cls("threading", "OrderedLock")
    oc = prog.cls("threading", "OrderedCounter")
    for m in ("__init__", "acquire", "release", "__exit__", "__enter__"):
        if m not in ol.methods:
            raise AnalysisError(f"OrderedLock.{m} not found")

    def lock_factory(it, state):
        o = Obj(ol, label="lock")
        it.call_function(ol.methods["__init__"], o, [], {}, None, None, None)
        for a, v in list(o.fields.items()):
            if isinstance(v, Sym) and v.parts and v.parts[0] == "EXTCALL":
                o.fields[a] = Sym(f"lock.{a}", v.typ, parts=v.parts)
        o.fields["_is_broken"] = Sym("lock._is_broken", TypeRef(prim="bool"))
        o.fields["_exception"] = Sym("lock._exception", TypeRef(prim="ext:builtins.Exception", optional=True))
        it.events.clear()
        return o

    init = ol.methods["__init__"]
    init_src = ast.unparse(init.node)
    ck.ob("R3.queue-is-a-deque", fn_construct(init), "deque()" in init_src and "_waiters" in init_src, "the waiter queue must be a collections.deque")
    ck.ob("R1.inner-lock-is-a-mutex", fn_construct(init), "Lock()" in init_src, "the inner lock must be a threading.Lock")

    def under_lock(t, ev) -> bool:
        depth = 0
        for e in t.events:
            if e is ev:
                return depth > 0
            if e.kind == "WITH_ENTER" and e.data["ctx"] == "lock._lock":
                depth += 1
            if e.kind == "WITH_EXIT" and e.data["ctx"] == "lock._lock":
                depth -= 1
        return False

    traces = {}
    for m in ("acquire", "release", "__exit__", "reset", "is_broken"):
        fn = ol.methods.get(m)
        if fn is None:
            continue
        kw = (lambda it, state: {"exc_type": Sym("exc_type"), "exc_val": Sym("exc_val"), "exc_tb": Sym("tb")}) if m == "__exit__" else None
        traces[m] = pm.run_function(fn, lock_factory, kw, cell=(m, ""), loop_iters=2)
        bad = []
        for t in traces[m]:
            for e in t.events:
                shared = (e.kind == "EXT" and e.data["recv"].startswith("lock._waiters")) or (e.kind == "SETATTR" and e.data["recv"] == "lock" and e.data["attr"] in GUARDED) \
                    or (e.kind == "EXT" and e.data["recv"].startswith("elem") and "lock._waiters" in e.data["recv"])
                if shared and not under_lock(t, e):
                    bad.append((f"{e.brief()[:70]} outside `with self._lock`", t))
        ck.ob("R1.lock-discipline", fn_construct(fn), not bad, (bad[0][0] + ": " + sig(bad[0][1])) if bad else f"{len(traces[m])} paths", cell=m)

    # ---- reset: un-breaking is only sound when nobody is queued -------------------------------------
    # a waiter woken by the break re-reads the broken flag *after* its wait and outside the inner lock; while any entry is queued such
    # a waiter may exist, and clearing the flag then lets it (and its fellow waiters) proceed as owners at the same time
    badr = []
    n_unbreak = 0
    for m, trs in traces.items():
        for t in trs:
            for e in t.events:
                if e.kind == "SETATTR" and e.data["recv"] == "lock" and e.data["attr"] == "_is_broken" and e.data.get("value") in ("False", "Const(False)", False):
                    n_unbreak += 1
                    empty = any((k in ("truthy(lock._waiters)", "len(lock._waiters) > 0", "len(lock._waiters) != 0") and v is False)
                                or (k in ("len(lock._waiters) == 0",) and v is True) for k, v in t.pc)
                    cleared_before = any(x.kind == "EXT" and x.data["recv"] == "lock._waiters" and x.data["method"] in ("clear", "pop", "popleft") for x in t.events[: t.events.index(e)])
                    if not empty:
                        badr.append((f"{m}() clears the broken flag on a path that has not established an empty waiter queue "
                                     f"({'it discards the queued entries itself' if cleared_before else 'queue may be non-empty'}): a waiter woken by the break "
                                     "then passes its post-wait check and owns the lock together with the others", t))
    ck.floor("unbreak_paths", n_unbreak, 1)
    ck.ob("R4.unbreak-only-with-empty-queue", fn_construct(ol.methods["reset"]) if "reset" in ol.methods else "threading.py:OrderedLock", not badr,
          (badr[0][0] + ": " + sig(badr[0][1])) if badr else f"{n_unbreak} path(s)")

    # ---- acquire ---------------------------------------------------------------------------------
    acq = ol.methods["acquire"]
    bad = []
    n_ok = 0
    for t in traces["acquire"]:
        evs = t.events
        app = [e for e in evs if e.kind == "EXT" and e.data["recv"] == "lock._waiters" and e.data["method"] in ("append", "appendleft", "insert")]
        waits = [e for e in evs if e.kind == "EXT" and e.data["method"] == "wait"]
        sets = [e for e in evs if e.kind == "EXT" and e.data["method"] == "set"]
        d = dict(t.pc)
        broken0 = next((v for k, v in t.pc if k == "truthy(lock._is_broken)"), None)
        if broken0 is True and not app:
            if not (t.outcome == "raise" and (t.exc_class() or "").endswith("OrderedLockError")):
                bad.append(("a broken lock must refuse new acquirers with OrderedLockError", t))
            if app:
                bad.append(("a broken lock still enqueues the caller", t))
            continue
        # the entry test of the broken flag and the enqueue form one atomic step (same hold of the inner lock)
        entry_tests = [e for e in evs if e.kind == "DECIDE" and e.data["key"] == "truthy(lock._is_broken)"]
        if entry_tests and app and not (under_lock(t, entry_tests[0]) and evs.index(entry_tests[0]) < evs.index(app[0])):
            bad.append(("the broken flag is tested outside the lock hold that enqueues the caller: a lock broken in between leaves the caller "
                        "queued behind dead waiters for ever", t))
        if not entry_tests and app:
            bad.append(("acquire enqueues without testing the broken flag", t))
        if len(app) != 1 or app[0].data["method"] != "append":
            bad.append((f"the caller is enqueued {len(app)}x via {[a.data['method'] for a in app]} (must be exactly one append at the tail)", t))
            continue
        ev_key = app[0].data["args"][0] if app[0].data["args"] else None
        if not waits or waits[-1].data["recv"] != ev_key or waits[-1].data["args"] or waits[-1].data["kwargs"]:
            bad.append(("the caller does not block (unbounded) on the very event it enqueued", t))
            continue
        if evs.index(app[0]) > evs.index(waits[-1]):
            bad.append(("the event is enqueued after waiting on it: the release that should wake it cannot find it", t))
        if under_lock(t, waits[-1]):
            bad.append(("the caller blocks while holding the inner lock", t))
        self_sets = [e for e in sets if e.data["recv"] == ev_key]
        empty_before = any(("len(lock._waiters)" in k and ("1 ==" in k or "== 1" in k) and v is True) for k, v in t.pc)
        nonempty_before = any(("len(lock._waiters)" in k and ("1 ==" in k or "== 1" in k) and v is False) for k, v in t.pc)
        if not (empty_before or nonempty_before):
            bad.append(("acquire does not test whether the queue was empty when it enqueued", t))
        if empty_before and (len(self_sets) != 1 or not under_lock(t, self_sets[0]) or evs.index(self_sets[0]) < evs.index(app[0])):
            bad.append(("first waiter of an empty queue is not woken (under the same lock hold as its enqueue): it would wait forever", t))
        if nonempty_before and self_sets:
            bad.append(("a caller that is not at the head wakes itself: mutual exclusion is lost", t))
        # after waking the broken flag is tested again
        after = [(k, v) for k, v in t.pc if k == "truthy(lock._is_broken)"]
        if len(after) < 2:
            bad.append(("the broken flag is not re-tested after waking up", t))
        elif after[-1][1] is True and not (t.outcome == "raise" and (t.exc_class() or "").endswith("OrderedLockError")):
            bad.append(("woken on a broken lock but acquire does not raise OrderedLockError", t))
        elif after[-1][1] is False and not (t.outcome == "return" and isinstance(t.value, Const) and t.value.value is True):
            bad.append((f"acquire ends with {t.outcome}", t))
        n_ok += 1
    ck.floor("acquire_paths", len(traces["acquire"]), 2)
    ck.ob("R2.enqueue-before-wait", fn_construct(acq), not bad, (bad[0][0] + ": " + sig(bad[0][1])) if bad else f"{n_ok} enqueuing paths")

    # ---- release -----------------------------------------------------------------------------------
    rel = ol.methods["release"]
    bad = []
    for t in traces["release"]:
        evs = t.events
        pops = [e for e in evs if e.kind == "EXT" and e.data["recv"] == "lock._waiters" and e.data["method"] in ("popleft", "pop", "remove", "clear")]
        sets = [e for e in evs if e.kind == "EXT" and e.data["method"] == "set"]
        first_truthy = next((v for k, v in t.pc if k == "truthy(lock._waiters)"), None)
        if first_truthy is False and not pops:
            if not (t.outcome == "raise" and (t.exc_class() or "").endswith("OrderedLockError")):
                bad.append(("release without a holder must raise OrderedLockError", t))
            continue
        if len(pops) != 1 or pops[0].data["method"] != "popleft":
            bad.append((f"the holder is removed via {[p.data['method'] for p in pops]} (must be exactly one popleft: the head owns the lock)", t))
            continue
        # what the path examined *after* the hand-over (decisions are events, so their position relative to the pop is known)
        d2 = {}
        for e in evs[evs.index(pops[0]) + 1:]:
            if e.kind != "DECIDE":
                continue
            k_, o_ = e.data["key"], e.data["outcome"]
            if k_ == "truthy(lock._waiters)":
                d2["truthy(lock._waiters)"] = o_ is True
            elif k_ in ("len(lock._waiters) > 0", "len(lock._waiters) != 0", "len(lock._waiters) >= 1"):
                d2["truthy(lock._waiters)"] = o_ is True
            elif k_ == "len(lock._waiters) == 0":
                d2["truthy(lock._waiters)"] = o_ is False
            elif k_ == "truthy(lock._is_broken)":
                d2[k_] = o_ is True
        if "truthy(lock._is_broken)" not in d2 and "truthy(lock._is_broken)" in dict(t.pc):
            d2["truthy(lock._is_broken)"] = dict(t.pc)["truthy(lock._is_broken)"]
        should_wake = d2.get("truthy(lock._waiters)") is True and d2.get("truthy(lock._is_broken)") is False
        head_sets = [e for e in sets if e.data["recv"] == "lock._waiters[0]"]
        if should_wake and (len(head_sets) != 1 or evs.index(head_sets[0]) < evs.index(pops[0])):
            bad.append(("the queue is non-empty and intact but the new head is not woken after the hand-over", t))
        if not should_wake and sets:
            bad.append(("a waiter is woken although the queue is empty or the lock is broken", t))
        if [e for e in sets if e.data["recv"] != "lock._waiters[0]"]:
            bad.append((f"release wakes {[e.data['recv'] for e in sets]} instead of the head (index 0)", t))
        if d2.get("truthy(lock._waiters)") is None:
            bad.append(("after removing the holder the queue is not examined for a successor", t))
    ck.floor("release_paths", len(traces["release"]), 2)
    ck.ob("R4.release-wakes-head", fn_construct(rel), not bad, (bad[0][0] + ": " + sig(bad[0][1])) if bad else "")

    # ---- no user code under the internal mutex (h3_C19 #1) -------------------------------------------
    # OrderedLockError(msg, source_exception) formats the stored exception: str() / truth value of a USER object, which may consult this very lock
    # (an error message that reports lock.is_broken(), a repr that reads state under the lock). Built while the non-reentrant internal mutex is held,
    # the thread deadlocks on itself and every later caller of the lock hangs behind it - "future acquirers get an error instead of blocking".
    exc_attrs = {"_exception", "exc_val", "exc_type", "source_exception"}
    n_regions = 0
    under = []
    for mname, m in ol.methods.items():
        for w in [x for x in ast.walk(m.node) if isinstance(x, ast.With) and any("self._lock" == ast.unparse(i.context_expr) for i in x.items)]:
            n_regions += 1
            for c in [x for b in w.body for x in ast.walk(b)]:
                touches_user_obj = lambda e: any((isinstance(a, ast.Attribute) and a.attr in exc_attrs) or (isinstance(a, ast.Name) and a.id in exc_attrs) for a in ast.walk(e))
                if isinstance(c, ast.Call) and ((isinstance(c.func, ast.Name) and c.func.id in ("str", "repr", "format", "bool", "len")) or
                                                (isinstance(c.func, ast.Name) and c.func.id.endswith("Error"))) and any(touches_user_obj(a) for a in list(c.args) + [k.value for k in c.keywords]):
                    under.append(f"{mname} line {c.lineno}: `{ast.unparse(c)[:70]}`")
                if isinstance(c, ast.JoinedStr) and touches_user_obj(c):
                    under.append(f"{mname} line {c.lineno}: f-string over the stored exception")
    ck.floor("mutex_regions", n_regions, 4)
    ck.ob("R1.no-user-code-under-the-mutex", "threading.py:OrderedLock", not under,
          "; ".join(under[:2]) + ": the stored exception is formatted (its __str__ / __bool__ / __len__ run) while the internal non-reentrant mutex is held - an exception "
          "whose text consults the lock deadlocks the acquirer and wedges the lock for every thread" if under else f"{n_regions} regions")

    # ---- the error itself is built without unprotected user code (g2_serdes2 #2) -----------------------------------
    # "current and future acquirers get an error": OrderedLockError. Its constructor puts the text of the holder's exception - arbitrary user code - into
    # its message; a __str__ that returns None or raises would hand the acquirers a TypeError / whatever it raised instead
    ole = prog.cls("exceptions", "OrderedLockError")
    ole_init = ole.methods.get("__init__")
    if ole_init is None:
        raise AnalysisError("OrderedLockError.__init__ not found")
    from sa.common import unguarded_text_conversions
    src_params = {a.arg for a in ole_init.node.args.args[1:] if a.annotation is not None and "Exception" in ast.unparse(a.annotation)}
    n_txt, bad_txt = unguarded_text_conversions(ole_init.node, src_params, truthiness=True)
    ck.analysed["broken_lock_error_text_sites"] = n_txt
    ck.ob("R4.broken-lock-error-built-without-unprotected-user-code", fn_construct(ole_init), not bad_txt,
          "; ".join(f"line {ln}: {w}" for ln, w in bad_txt[:3]) + ": runs the holder's exception's own __str__ / __bool__ / __len__ unprotected while the error for the acquirers is "
          "being built - if that fails, they get its TypeError / its own error instead of OrderedLockError" if bad_txt else f"{n_txt} conversion(s), {sorted(src_params)}")

    # ---- __exit__ -----------------------------------------------------------------------------------
    # judged on two scenarios with the arguments the interpreter protocol really passes - (None, None, None) after a normal body, and
    # (type, instance, traceback) of SOME BaseException after a body that raised. (An earlier version read "exceptional" off the path condition
    # `exc_type is None`, which made the rule blind - exit 2 - as soon as the test was written differently: r6_C19 used isinstance(exc_val, Exception),
    # which lets SuspendExecution / OrphanedChildException / KeyboardInterrupt leave a critical section without breaking the lock.)
    from sa.values import ExtRef
    ex = ol.methods["__exit__"]
    scen = {
        True: pm.run_function(ex, lock_factory, lambda it, state: {"exc_type": ExtRef("builtins.BaseException"), "exc_val": it.make_exc("builtins.BaseException*", "holder"),
                                                                   "exc_tb": Sym("tb")}, cell=("__exit__", "raised"), loop_iters=2),
        False: pm.run_function(ex, lock_factory, lambda it, state: {"exc_type": NONE, "exc_val": NONE, "exc_tb": NONE}, cell=("__exit__", "normal"), loop_iters=2),
    }
    bad = []
    n_exc = 0
    for exceptional, t in [(k, t) for k, ts in scen.items() for t in ts]:
        evs = t.events
        sa = {e.data["attr"]: e for e in evs if e.kind == "SETATTR" and e.data["recv"] == "lock"}
        pops = [e for e in evs if e.kind == "EXT" and e.data["recv"] == "lock._waiters" and e.data["method"] == "popleft"]
        if exceptional:
            n_exc += 1
            if "_is_broken" not in sa or sa["_is_broken"].data["value"] != "True":
                bad.append(("an exceptional exit does not mark the lock broken", t))
            if "_exception" not in sa or "holder" not in str(sa["_exception"].data["value"]):
                bad.append(("the causing exception is not stored for later acquirers", t))
            iters = next((v for k, v in t.pc if k.startswith("iterations(lock._waiters)")), None)
            wakes = [e for e in evs if e.kind == "EXT" and e.data["method"] == "set" and e.data["recv"].startswith("elem")]
            if iters is None:
                bad.append(("an exceptional exit does not walk the waiter queue to wake everybody", t))
            elif len(wakes) != iters:
                bad.append((f"{iters} waiter(s) in the queue but {len(wakes)} woken", t))
            if wakes and "_is_broken" in sa and evs.index(wakes[0]) < evs.index(sa["_is_broken"]):
                bad.append(("waiters are woken before the lock is marked broken: they would proceed as owners", t))
        else:
            if sa:
                bad.append(("a normal exit changes the broken state", t))
        first_truthy = [v for k, v in t.pc if k == "truthy(lock._waiters)"]
        if not pops and not (t.outcome == "raise"):
            bad.append(("__exit__ does not release the lock", t))
    # "that holder sees its own exception": the interpreter re-raises the body's exception only when __exit__ hands back a false value. Judged on the value of
    # every returning path of the raised scenario (through the calls it makes - `return self.release()` is as good as release()'s own value)
    swallow = []
    n_ret = 0
    for t in scen[True]:
        if t.outcome == "return":
            n_ret += 1
            v = t.value
            falsy = v is None or v is NONE or (isinstance(v, Const) and not v.value)
            if not falsy:
                swallow.append((f"after a body that raised, __exit__ returns {v.key() if v is not None else v}, which is not a constant false value: a true result makes "
                                "the interpreter swallow the holder's exception - the holder never sees it", t))
    ck.floor("exceptional_exit_returns", n_ret, 1)
    ck.ob("R4.exit-hands-the-holder-its-exception", fn_construct(ex), not swallow, (swallow[0][0] + ": " + sig(swallow[0][1])) if swallow else f"{n_ret} returning path(s)")
    ck.floor("exceptional_exit_paths", n_exc, 1)
    ck.ob("R4.exceptional-exit-breaks-and-wakes-all", fn_construct(ex), not bad, (bad[0][0] + ": " + sig(bad[0][1])) if bad else "")
    ent = ol.methods["__enter__"]
    ck.ob("R2.enter-acquires", fn_construct(ent), "self.acquire()" in ast.unparse(ent.node), "__enter__ must acquire")

    # ---- counter --------------------------------------------------------------------------------------
    for m in ("increment", "decrement"):
        fn = oc.methods.get(m)
        if fn is None:
            raise AnalysisError(f"OrderedCounter.{m} not found")

        def h_acq(it, f, sv, a, k, n):
            it.emit("LOCK", n, op="acquire")
            return Const(True)

        def h_rel(it, f, sv, a, k, n):
            it.emit("LOCK", n, op="release")
            return NONE

        def cf(it, state):
            o = Obj(oc, label="counter")
            lk = Obj(ol, label="counter._lock")
            o.fields.update(_lock=lk, _counter=Sym("counter._counter", TypeRef(prim="int")))
            return o

        trs = pm.run_function(fn, cf, None, cell=(m, ""), extra_hooks={ol.methods["acquire"].fq: h_acq, ol.methods["release"].fq: h_rel})
        bad = []
        for t in trs:
            evs = t.events
            locks = [e for e in evs if e.kind == "LOCK"]
            sets = [e for e in evs if e.kind == "SETATTR" and e.data["attr"] == "_counter"]
            if [e.data["op"] for e in locks] != ["acquire", "release"]:
                bad.append((f"lock usage {[e.data['op'] for e in locks]}", t))
                continue
            if len(sets) != 1 or not (evs.index(locks[0]) < evs.index(sets[0]) < evs.index(locks[1])):
                bad.append(("the counter is not modified exactly once inside the lock hold", t))
                continue
            want = "(counter._counter + 1)" if m == "increment" else "(counter._counter - 1)"
            if sets[0].data["value"] != want:
                bad.append((f"counter becomes {sets[0].data['value']}", t))
            if t.outcome != "return" or t.value.key() != want:
                bad.append((f"returns {t.value.key() if t.outcome == 'return' else t.exc_class()} instead of the value written under the lock", t))
        # the return statement itself must be inside the with block (a read after release could observe another thread's increment)
        withs = [w for w in ast.walk(fn.node) if isinstance(w, ast.With)]
        rets = [r for r in ast.walk(fn.node) if isinstance(r, ast.Return)]
        inside = all(any(any(r is x for x in ast.walk(w)) for w in withs) for r in rets) and bool(rets) and bool(withs)
        if not inside:
            bad.append(("the value is read for the return after the lock was released", trs[0] if trs else None))
        ck.ob("R5.counter-read-modify-return-under-lock", fn_construct(fn), not bad and trs, bad[0][0] if bad else "", cell=m)
    return ck


if __name__ == "__main__":
    main(PID, build)
