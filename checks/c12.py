"""C12 - step retries: attempts counted exactly, bounded and durably scheduled (DESIGN.md section 13)."""

from __future__ import annotations

import ast

from sa.common import APPLICABLE, at_least_one, attempt_expr_ok, fn_construct, trace_sig
from sa.interp import Chooser, Config, Frame, Interp, _Raise, enumerate_paths
from sa.model import AnalysisError, load_program
from sa.protocol import ABSENT, ProtocolModel, Trace, is_suspend, is_timed_suspend, user_events
from sa.report import Check, main
from sa.values import Const, EnumVal, FuncVal, Obj, Sym, TypeRef, parse_annotation

PID = "C12"


def strategy_traces(pm, module: str, factory: str, cfg_cls_name: str):
    """Interpret the closure returned by create_retry_strategy / create_wait_strategy."""
    prog = pm.prog
    fac = prog.func(module, factory)
    cfg_cls = prog.cls(module, cfg_cls_name)
    jitter = prog.cls("config", "JitterStrategy").methods.get("apply_jitter")

    def h_jitter(it, fn, sv, a, k, n):
        it.emit("JITTER", n, arg=a[0].key() if a else "?", arg_v=a[0] if a else None)
        return Sym(f"jitter({a[0].key() if a else '?'})", TypeRef(prim="float"))

    base = pm.make_config(faults=False, user_raises={})
    hooks = dict(base.hooks)
    hooks.pop(fac.fq, None)
    if jitter is not None:
        hooks[jitter.fq] = h_jitter
    cfg = Config(hooks=hooks, opaque_modules=("logger",), user_raises={}, default_user_raises=(), ext_calls=base.ext_calls)

    def run(ch: Chooser):
        it = Interp(prog, ch, cfg)
        it.site_stack.append("<driver>")
        try:
            closure_v = it.call_function(fac, None, [], {"config": Sym("config", TypeRef(classes=(cfg_cls.fq,)))}, None, None, None)
            if not isinstance(closure_v, FuncVal):
                raise AnalysisError(f"{factory} does not return a nested function")
            it.events.clear()
            params = [p.arg for p in closure_v.fn.node.args.args]
            kw = {params[0]: Sym(params[0]), params[1]: Sym("attempts_made", TypeRef(prim="int"))}
            v = it.call_function(closure_v.fn, None, [], kw, closure_v.closure, None, None)
            return Trace((factory, ""), it.events, "return", v, pc=it.pc)
        except _Raise as r:
            return Trace((factory, ""), it.events, "raise", r.exc, r.origin, r.site, pc=it.pc)

    return enumerate_paths(run), fac


def build() -> Check:
    prog = load_program()
    pm = ProtocolModel(prog)
    ci = pm.executors.get("StepOperationExecutor")
    if ci is None:
        raise AnalysisError("StepOperationExecutor not found")
    construct = "operation/step.py:StepOperationExecutor"
    ck = Check(
        PID, "step retries",
        "From the step executor's trace table: the attempt number handed to the retry strategy (and to the step logger) is the recorded "
        "attempt + 1 (1 when nothing is recorded); a retry decision leads to an accepted synchronous RETRY record whose delay has abstract "
        "lower bound >= 1 followed by a timed suspension and no further user code, a decline leads to an accepted synchronous FAIL record and a raise; "
        "PENDING suspends without running anything. The packaged strategies are interpreted symbolically: the max-attempts cut-off guards every "
        "retry decision, the returned delay has lower bound 1 and the pre-jitter delay is capped by the configured maximum.",
        ["numeric backoff/jitter values and total execution counts across invocations are runtime quantities (not decided)",
         "crash points between attempts are covered only through the per-cell rules of C04/C11"],
        "one obligation per (rule, cell) / strategy",
    )
    n_strat = 0
    for st in [ABSENT, "STARTED", "READY", "PENDING"]:
        traces = pm.run_cell(ci, st, faults=True)
        bad1, bad2, bad3 = [], [], []
        for t in traces:
            evs = t.events
            for e in user_events(t, "strategy"):
                n_strat += 1
                av = e.data.get("arg_values") or []
                if len(av) < 2 or not attempt_expr_ok(av[1], t.pc, st == ABSENT):
                    bad1.append((f"retry strategy called with attempt={av[1].key() if len(av) > 1 else None}", t))
                if e.data.get("outcome") != "return":
                    continue
                i = evs.index(e)
                after = evs[i + 1:]
                if any(x in user_events(t, "user") for x in after):
                    bad2.append(("user function runs again after the retry decision in the same call", t))
                decision = None
                for k, v in t.pc:
                    if k.startswith("truthy(ret:") and k.endswith(".should_retry)"):
                        decision = v
                cks = [x for x in after if x.kind == "CKPT"]
                failed = [x for x in cks if x.data.get("outcome") != "ok"]
                if decision is None:
                    bad2.append(("retry decision not consulted", t))
                    continue
                if failed:
                    continue  # judged by C03/C06
                if decision is True:
                    r = [x for x in cks if x.data.get("action") == "RETRY" and x.data.get("sync")]
                    if not r:
                        bad2.append(("retry decided but no synchronous RETRY record", t))
                        continue
                    so = r[-1].data.get("options", {}).get("step_options")
                    d = so.fields.get("next_attempt_delay_seconds") if isinstance(so, Obj) else None
                    if d is None or not at_least_one(d, t.pc):
                        bad2.append((f"RETRY delay {d.key() if d else None} is not bounded below by 1 second", t))
                    elif not ("delay" in d.key() and "ret:" in d.key()):
                        # ... and it is the delay the strategy decided: a constant is acceptable only as the clamp of a decided delay below one second
                        clamp = isinstance(d, Const) and any(str(k).startswith("ret:") and "delay" in str(k) and str(k).endswith("< 1") and v is True for k, v in t.pc)
                        if not clamp:
                            bad2.append((f"the RETRY record carries the delay {d.key()}, not the one the strategy decided (a constant is only the clamp of a decided delay "
                                         "below one second): the configured backoff is ignored", t))
                    if not is_timed_suspend(prog, t):
                        bad2.append(("retry recorded but the call does not end in a timed suspension", t))
                    err = r[-1].data.get("error_v")
                    if not isinstance(err, Obj):
                        bad2.append(("RETRY record carries no error object", t))
                else:
                    f = [x for x in cks if x.data.get("action") == "FAIL" and x.data.get("sync")]
                    if not f:
                        bad2.append(("retry declined but no synchronous FAIL record", t))
                    if t.outcome != "raise" or is_suspend(prog, t):
                        bad2.append(("retry declined but the error is not raised", t))
                    if any(x.data.get("action") == "RETRY" for x in cks):
                        bad2.append(("retry declined but a RETRY record is sent", t))
            # logger attempt
            for e in t.kinds("OPAQUE"):
                if e.data["fn"].endswith("from_operation_identifier") and "attempt" in e.data["kwargs"]:
                    pass
            if st == "READY" and not [x for x in evs if x.kind == "CKPT" and x.data.get("outcome") != "ok"]:
                # READY is the backend saying "the retry timer has fired": this call runs the next attempt. A call that only suspends (READY taken for
                # PENDING) parks a step nobody will wake again
                if not user_events(t, "user") and is_suspend(prog, t):
                    bad3.append(("a step found READY (its retry timer has fired) suspends without running the attempt", t))
            if st == "PENDING":
                if user_events(t, "user") or user_events(t, "strategy") or t.kinds("CKPT") or not is_suspend(prog, t):
                    bad3.append(("a step waiting for its retry timer must only suspend", t))
                elif is_timed_suspend(prog, t):
                    ts = t.value.fields.get("scheduled_timestamp") if isinstance(t.value, Obj) else None
                    if ts is None or not ("next_attempt_timestamp" in ts.key() or "datetime.now()" in ts.key()):
                        bad3.append((f"suspension target {ts.key() if ts else None} is not the recorded NextAttemptTimestamp", t))
        ck.ob("R1.attempt-number", construct, not bad1, (bad1[0][0] + ": " + trace_sig(bad1[0][1])) if bad1 else "", cell=st)
        ck.ob("R2.decision-implies-effect", construct, not bad2, (bad2[0][0] + ": " + trace_sig(bad2[0][1])) if bad2 else "", cell=st)
        if st == "PENDING":
            ck.ob("R3.pending-suspends", construct, not bad3, (bad3[0][0] + ": " + trace_sig(bad3[0][1])) if bad3 else "", cell=st)
        if st == "READY":
            ck.ob("R3.ready-runs-the-attempt", construct, not bad3, (bad3[0][0] + ": " + trace_sig(bad3[0][1])) if bad3 else "", cell=st)
    ck.floor("strategy_consultations", n_strat, 8)

    # R1 every failure of the step function reaches the retry strategy. One family is let through on purpose: ExecutionError ("fatal - e.g. checkpoint
    # exception", the SDK's own verdict that the execution as a whole has failed). Anything wider - the whole UnrecoverableError / InvocationError family,
    # which the wrapper re-raises for a Lambda retry - re-runs the function on every Lambda retry with no record, no delay and no attempt count (r7_C12)
    BYPASS_ACCEPTED = {"aws_durable_execution_sdk_python.exceptions.ExecutionError": "the SDK's 'the execution has failed' verdict; the wrapper answers FAILED, nothing is re-run"}
    n_fail = 0
    for st in [ABSENT, "STARTED", "READY"]:
        badb = []
        for t in pm.run_cell(ci, st, faults=False):
            raised = [e for e in user_events(t, "user") if e.data.get("outcome") != "return"]
            if not raised:
                continue
            n_fail += 1
            if user_events(t, "strategy"):
                continue
            cls_ = (t.exc_class() or "").rstrip("*")
            c_ = prog.classes.get(cls_)
            ok_ = t.outcome == "raise" and c_ is not None and any(c_.fq == a or c_.is_subclass_of(a) for a in BYPASS_ACCEPTED)
            if not ok_:
                badb.append((f"a failure of the step function that is a {cls_.split('.')[-1] or t.outcome} leaves the step without the retry strategy being consulted and without a "
                             "RETRY / FAIL record", t))
        ck.ob("R1.every-step-failure-reaches-the-strategy", construct, not badb, (badb[0][0] + ": " + trace_sig(badb[0][1])) if badb else "", cell=st)
    ck.floor("step_function_failure_paths", n_fail, 6)

    # step logger attempt == strategy attempt (same def-use): execute() computes attempt once
    ex = ci.methods.get("execute")
    if ex is None:
        raise AnalysisError("StepOperationExecutor.execute not found")
    traces = pm.run_cell(ci, "READY", faults=False)
    badl = []
    nlog = 0
    for t in traces:
        for e in t.kinds("OPAQUE"):
            if e.data["fn"].endswith("from_operation_identifier"):
                nlog += 1
                a = e.data["kwargs"].get("attempt")
                if a not in ("1", "(op@0.0.step_details.attempt + 1)", "(op@1.0.step_details.attempt + 1)", "(op@0.1.step_details.attempt + 1)"):
                    badl.append((f"step logger attempt = {a}", t))
    ck.floor("logger_attempt_sites", nlog, 1)
    ck.ob("R1.logger-attempt", fn_construct(ex), not badl, (badl[0][0] + ": " + trace_sig(badl[0][1])) if badl else "")

    # R4 packaged strategies ----------------------------------------------------------------------
    for module, factory, cfgname, dec_field in (("retries", "create_retry_strategy", "RetryStrategyConfig", "should_retry"),
                                                ("waits", "create_wait_strategy", "WaitStrategyConfig", "should_wait")):
        trs, fac = strategy_traces(pm, module, factory, cfgname)
        c = fn_construct(fac)
        n_retry = 0
        bad = []
        for t in trs:
            if t.outcome != "return" or not isinstance(t.value, Obj):
                continue
            dec = t.value.fields.get(dec_field)
            if not (isinstance(dec, Const) and dec.value is True):
                continue
            n_retry += 1
            d = dict(t.pc)
            cut = [k for k in d if "attempts_made" in k and "max_attempts" in k]
            guarded = any((">=" in k and d[k] is False) or ("<" in k and "<=" not in k and d[k] is True) for k in cut)
            if not guarded:
                bad.append(("a retry/wait decision is reachable without the max-attempts cut-off having been passed", t))
            delay = t.value.fields.get("delay")
            secs = delay.fields.get("seconds") if isinstance(delay, Obj) else None
            if secs is None or not at_least_one(secs, t.pc):
                bad.append((f"returned delay {secs.key() if secs else None} has no lower bound of 1 second", t))
            jit = t.kinds("JITTER")
            if jit:
                a = jit[-1].data.get("arg_v")
                def capped_by_max(v_):
                    # min(.., <max delay>, ..); or max(<capped>, c) with a constant c <= 1 (a floor at 0 / at the 1 s minimum does not lift the cap)
                    if not (isinstance(v_, Sym) and v_.parts):
                        return False
                    if v_.parts[0] == "MIN":
                        return any("max_delay" in x.key() or capped_by_max(x) for x in v_.parts[1])
                    if v_.parts[0] == "MAX":
                        rest = [x for x in v_.parts[1] if not (isinstance(x, Const) and isinstance(x.value, (int, float)) and x.value <= 1)]
                        return bool(rest) and all(capped_by_max(x) for x in rest)
                    return False
                capped = capped_by_max(a)

                def floored(v_):
                    # a finite lower bound: max(.., c, ..) with a constant; min(..) of floored values; a constant. `initial * rate ** n` alone has none:
                    # for a negative float rate one step below the overflow it is -inf WITHOUT an exception, and math.ceil(-inf) raises (g3_late2 #2)
                    if isinstance(v_, Const):
                        return isinstance(v_.value, (int, float))
                    if not (isinstance(v_, Sym) and v_.parts):
                        return False
                    if v_.parts[0] == "MAX":
                        return any(floored(x) for x in v_.parts[1])
                    if v_.parts[0] == "MIN":
                        return all(floored(x) or "max_delay" in x.key() for x in v_.parts[1]) and any(floored(x) for x in v_.parts[1])
                    return False
                if a is not None and not floored(a) and not any("OverflowError" in str(k) for k, _v in t.pc):
                    bad.append((f"pre-jitter delay {a.key()} has no finite lower bound: a negative backoff rate can make the product -inf without raising, and the rounding "
                                "that follows (math.ceil) raises OverflowError - the strategy fails at one attempt number and works at its neighbours", t))
                if not capped:
                    bad.append((f"pre-jitter delay {a.key() if a else None} is not capped by the configured maximum", t))
                if isinstance(a, Sym) and "attempts_made" not in a.key():
                    bad.append(("backoff does not depend on the attempt number", t))
                # "follow the configured backoff": the delay before the cap is initial * rate ** (attempts made - 1) - an exponent that is clamped, scaled or
                # shifted changes the configured curve for slowly growing rates long before the cap is reached (r6_C12: exponent limited to 32)
                elif isinstance(a, Sym) and "** (attempts_made - 1)" not in a.key().replace("((attempts_made - 1))", "(attempts_made - 1)"):
                    bad.append((f"the backoff power in the pre-jitter delay {a.key()[:160]} does not have the exponent (attempts_made - 1)", t))
        ck.floor(f"{factory}_retry_paths", n_retry, 1)
        ck.ob("R4.packaged-strategy-shape", c, not bad, (bad[0][0] + ": " + "; ".join(f"{k}->{v}" for k, v in bad[0][1].pc)) if bad else f"{n_retry} retry paths")
    # R4 the message filters of the packaged strategy: a plain string is a literal substring, a compiled pattern is a pattern. Handing a string that came
    # from the configuration to the regex engine without re.escape changes what it matches ("[Errno 104]" becomes a character class, "(30s)" a group)
    RE_FUNCS = {"compile", "search", "match", "fullmatch", "findall", "finditer", "sub", "split"}

    def unescaped_regex_calls(tree):
        out = []
        for c in ast.walk(tree):
            if isinstance(c, ast.Call) and isinstance(c.func, ast.Attribute) and c.func.attr in RE_FUNCS and isinstance(c.func.value, ast.Name) and c.func.value.id == "re" and c.args:
                a0 = c.args[0]
                literal = isinstance(a0, ast.Constant) or (isinstance(a0, ast.JoinedStr) and all(isinstance(v, ast.Constant) for v in a0.values))
                escaped = isinstance(a0, ast.Call) and isinstance(a0.func, ast.Attribute) and a0.func.attr == "escape"
                if not literal and not escaped:
                    out.append(c)
        return out

    fixture = ast.parse("import re\ndef f(cfg):\n    return [p if isinstance(p, re.Pattern) else re.compile(p) for p in cfg.retryable_errors]\n")
    if not unescaped_regex_calls(fixture):
        raise AnalysisError("regex-misuse rule does not fire on its positive example")
    for modname in ("retries", "waits"):
        m_ = prog.module(modname)
        calls_ = unescaped_regex_calls(m_.tree)
        ck.ob("R4.string-filters-match-literally", f"{modname}.py", not calls_,
              "; ".join(f"line {c.lineno}: `{ast.unparse(c)[:70]}` feeds a non-literal to the regex engine without re.escape" for c in calls_) or "no regex built from configuration strings")
    # R4 the backoff is a power of the configured rate with an exponent that grows with the attempt number: for a float rate (the dataclass default is 2.0)
    # it raises OverflowError long before the max-delay cap is applied (2.0 ** 1024). The power must be guarded (try / bounded exponent) or capped in the
    # exponent - otherwise a strategy with many attempts fails the step with an unrecorded OverflowError.
    def unguarded_powers(fn_node):
        out = []
        parents_ = {}
        for n_ in ast.walk(fn_node):
            for c_ in ast.iter_child_nodes(n_):
                parents_[id(c_)] = n_
        for n_ in ast.walk(fn_node):
            if isinstance(n_, ast.BinOp) and isinstance(n_.op, ast.Pow) and not isinstance(n_.right, ast.Constant):
                bounded = any(isinstance(c_, ast.Call) and isinstance(c_.func, ast.Name) and c_.func.id == "min" for c_ in ast.walk(n_.right))
                cur, guarded = parents_.get(id(n_)), False
                while cur is not None:
                    if isinstance(cur, ast.Try) and any(h.type is None or any(nm in ast.unparse(h.type) for nm in ("OverflowError", "ArithmeticError", "Exception")) for h in cur.handlers):
                        guarded = True
                    cur = parents_.get(id(cur))
                if not (bounded or guarded):
                    out.append(n_)
        return out

    if not unguarded_powers(ast.parse("def f(c, n):\n    return min(c.d * c.rate ** (n - 1), c.m)\n")):
        raise AnalysisError("overflow rule does not fire on its positive example")
    for modname, fname in (("retries", "create_retry_strategy"), ("waits", "create_wait_strategy")):
        f_ = prog.module(modname).functions.get(fname)
        if f_ is None:
            raise AnalysisError(f"{modname}.{fname} not found")
        pw = unguarded_powers(f_.node)
        ck.ob("R4.backoff-power-cannot-overflow", fn_construct(f_), not pw,
              "; ".join(f"line {n_.lineno}: `{ast.unparse(n_)[:70]}` overflows for a float rate once the attempt number is large (2.0 ** 1024) - before the cap is applied" for n_ in pw))
        # ... and where the overflow is caught, the substitute has to be what the PRODUCT would have been (h2_C12 #1, a regression of my own repair
        # b8887bb): the power overflowing says nothing about `initial * power` when the other factor is zero - Duration() / from_seconds(0.5) are legal
        # initial delays and mean "always the 1 s minimum", not "the cap from attempt 1025 on". Necessary: the handler looks at every other factor.
        par_ = {}
        for n_ in ast.walk(f_.node):
            for c_ in ast.iter_child_nodes(n_):
                par_[id(c_)] = n_
        n_guarded = 0
        for n_ in ast.walk(f_.node):
            if not (isinstance(n_, ast.BinOp) and isinstance(n_.op, ast.Pow) and not isinstance(n_.right, ast.Constant)):
                continue
            cof, cur = [], n_
            while isinstance(par_.get(id(cur)), ast.BinOp) and isinstance(par_[id(cur)].op, ast.Mult):
                up = par_[id(cur)]
                cof.append(up.left if up.right is cur else up.right)
                cur = up
            tr = cur
            while tr is not None and not isinstance(tr, ast.Try):
                tr = par_.get(id(tr))
            hs = [h for h in (tr.handlers if tr is not None else []) if h.type is not None and "OverflowError" in ast.unparse(h.type)]
            if not hs or not cof:
                continue
            n_guarded += 1
            body_txt = "\n".join(ast.unparse(b_) for b_ in hs[0].body)
            unseen = [ast.unparse(c_) for c_ in cof if ast.unparse(c_) not in body_txt]
            # ... and what it substitutes is what the product would have been, on the sign table of the factors: a zero factor gives zero, a negative
            # rate with an odd exponent a negative product (floored to the minimum), everything else lies beyond the cap (mutscan: condition negated, parity
            # inverted - nothing noticed)
            from sa.common import MiniEvalUnknown, mini_eval
            fb = [st for b_ in hs[0].body for st in ast.walk(b_) if isinstance(st, ast.Assign) and isinstance(st.targets[0], ast.Name)]
            if len(fb) == 1:
                wrong_ = []
                try:
                    for init_, rate_, att_ in ((5, 2.0, 1030), (0, 2.0, 1030), (5, -2.0, 1025), (5, -2.0, 1026), (0, -2.0, 1025)):
                        env_ = {"config.initial_delay_seconds": init_, "config.backoff_rate": rate_, "attempts_made": att_, "config.max_delay_seconds": 300}
                        got_ = mini_eval(fb[0].value, env_)
                        exp_even = (att_ - 1) % 2 == 0
                        want_cap = init_ > 0 and (rate_ > 0 or exp_even)
                        if (got_ == 300) != want_cap or (not want_cap and got_ > 0):
                            wrong_.append(f"initial={init_}, rate={rate_}, exponent {'even' if exp_even else 'odd'}: fallback {got_} (the product would be {'beyond the cap' if want_cap else 'zero or negative'})")
                    ck.ob("R4.overflow-fallback-follows-the-product", fn_construct(f_), not wrong_, "; ".join(wrong_[:2]) or "sign table of 5 factor combinations", cell="sign table")
                except MiniEvalUnknown as u_:
                    ck.undecided_rule(f"R4.overflow-fallback-follows-the-product: `{u_}` in the fallback of {f_.name} is not understood")
            ck.ob("R4.overflow-fallback-follows-the-product", fn_construct(f_), not unseen,
                  f"the OverflowError handler (line {hs[0].lineno}) substitutes a value without looking at {unseen}: with a zero initial delay the product is 0 for every "
                  "attempt (delay = the 1 s minimum) but from the first attempt whose power overflows (1025 with the default rate 2.0, 32 with 1e10) the cap - 300 s - is "
                  "returned and recorded as NextAttemptDelaySeconds")
        ck.analysed.setdefault("guarded_backoff_powers", 0)
        ck.analysed["guarded_backoff_powers"] += n_guarded
    return ck


if __name__ == "__main__":
    main(PID, build)
