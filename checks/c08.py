"""C08 - operation identity is deterministic, schedule-independent and collision-free (DESIGN.md section 9)."""

from __future__ import annotations

import ast

from sa.cfg import walk_shallow
from sa.common import fn_construct, trace_sig
from sa.model import AnalysisError, load_program
from sa.protocol import ProtocolModel, context_method_traces, user_events
from sa.report import Check, main
from sa.values import NONE, Obj, Sym, TypeRef

PID = "C08"
IMPURE = {"time", "random", "uuid", "os", "threading", "datetime", "secrets", "socket", "id", "hash", "getpid", "object"}


def build() -> Check:
    prog = load_program()
    pm = ProtocolModel(prog)
    ck = Check(
        PID, "operation identity",
        "Purity of the id function (effect rule over names/attributes it may touch; both inputs reach the hash in both format variants); counter discipline "
        "(who-may-touch _step_counter); every DurableContext operation draws exactly one id before building its executor and uses it for the identifier and - "
        "for context-like operations - as parent of the child context (abstract interpretation of the context methods with their bodies probed); branch ids derive "
        "from the branch index through the side-effect-free id function and the owning context is only used through a whitelist of attributes; every "
        "update factory copies id and parent id from the identifier.",
        ["blake2b truncated to 64 hex digits is collision-free", "user code does not call operations on one context from several threads"],
        "one obligation per rule and site",
    )
    ctx = prog.cls("context", "DurableContext")
    idf = ctx.methods.get("_create_step_id_for_logical_step")
    cid = ctx.methods.get("_create_step_id")
    if idf is None or cid is None:
        raise AnalysisError("id functions of DurableContext not found")
    # R1 purity ------------------------------------------------------------------------------------
    param = idf.node.args.args[1].arg
    names = {n.id for n in ast.walk(idf.node) if isinstance(n, ast.Name) and isinstance(n.ctx, ast.Load)}
    self_attrs = {n.attr for n in ast.walk(idf.node) if isinstance(n, ast.Attribute) and isinstance(n.value, ast.Name) and n.value.id == "self"}
    locals_ = {t.id for st in ast.walk(idf.node) if isinstance(st, (ast.Assign, ast.AnnAssign))
               for t in ([st.target] if isinstance(st, ast.AnnAssign) else st.targets) if isinstance(t, ast.Name)}
    foreign = names - {"self", param, "hashlib", "str", "int", "bytes"} - locals_
    ck.ob("R1.id-function-pure", fn_construct(idf), not (foreign & IMPURE) and not foreign and self_attrs <= {"_parent_id"},
          f"the id function reads names {sorted(foreign)} and self attributes {sorted(self_attrs)} (allowed: its argument, self._parent_id, hashlib)")
    calls = {ast.unparse(c.func) for c in ast.walk(idf.node) if isinstance(c, ast.Call)}
    ck.ob("R1.id-function-calls", fn_construct(idf), all(c.startswith("hashlib.") or c in ("str",) or c.endswith((".encode", ".hexdigest", ".digest")) for c in calls),
          f"calls made by the id function: {sorted(calls)}")
    hashed = [c for c in ast.walk(idf.node) if isinstance(c, ast.Call) and isinstance(c.func, ast.Attribute)
              and isinstance(c.func.value, ast.Name) and c.func.value.id == "hashlib" and c.args]

    def both_separated(e) -> bool:
        if not isinstance(e, ast.JoinedStr):
            return False
        kinds = []
        for v in e.values:
            if isinstance(v, ast.FormattedValue):
                t = ast.unparse(v.value)
                kinds.append("P" if t == "self._parent_id" else "S" if t == param else "?")
            elif isinstance(v, ast.Constant) and v.value:
                kinds.append("-")
        txt_ = "".join(kinds)
        return "P-S" in txt_ or "S-P" in txt_

    ok_inputs = False
    detail = "no hashlib call"
    if hashed:
        src = hashed[0].args[0]
        expr = src
        names_in_src = {n.id for n in ast.walk(src) if isinstance(n, ast.Name)}
        for st in ast.walk(idf.node):
            if isinstance(st, (ast.Assign, ast.AnnAssign)) and st.value is not None:
                tg = st.target if isinstance(st, ast.AnnAssign) else st.targets[0]
                if isinstance(tg, ast.Name) and tg.id in names_in_src:
                    expr = st.value
        detail = f"hashed text: {ast.unparse(expr)}"
        if isinstance(expr, ast.IfExp):
            ok_inputs = both_separated(expr.body) and "self._parent_id" in ast.unparse(expr.test) \
                and param in {n.id for n in ast.walk(expr.orelse) if isinstance(n, ast.Name)}
        else:
            ok_inputs = both_separated(expr)
    ck.ob("R1.both-inputs-hashed", fn_construct(idf), ok_inputs, detail + " (parent id and position must both reach the hash, separated)")

    # R2 counter discipline ---------------------------------------------------------------------------
    n_uses = 0
    for fi in prog.functions.values():
        if isinstance(fi.node, ast.Lambda):
            continue
        for n in walk_shallow(fi.node):
            if isinstance(n, ast.Attribute) and n.attr == "_step_counter":
                n_uses += 1
                c = fn_construct(fi)
                if isinstance(n.ctx, ast.Store):
                    st = next((s for s in ast.walk(fi.node) if isinstance(s, (ast.Assign, ast.AnnAssign)) and
                               (s.target if isinstance(s, ast.AnnAssign) else s.targets[0]) is n), None)
                    fresh = st is not None and isinstance(st.value, ast.Call) and ast.unparse(st.value) == "OrderedCounter()"
                    ck.ob("R2.fresh-counter-per-context", c, fi.name == "__init__" and fi.cls is ctx and fresh,
                          f"_step_counter assigned from {ast.unparse(st.value) if st is not None and st.value is not None else '?'} in {fi.qualname}", where=f"line {n.lineno}")
                else:
                    parent_call = next((x for x in walk_shallow(fi.node) if isinstance(x, ast.Call) and isinstance(x.func, ast.Attribute) and x.func.value is n), None)
                    ck.ob("R2.counter-only-incremented-by-id-draw", c, fi.fq == cid.fq and parent_call is not None and parent_call.func.attr == "increment",
                          f"_step_counter used as {ast.unparse(parent_call.func) if parent_call else 'a value'} in {fi.qualname}", where=f"line {n.lineno}")
    ck.floor("counter_uses", n_uses, 2)
    ck.ob("R2.id-draw-uses-id-function", fn_construct(cid),
          any(isinstance(c, ast.Call) and isinstance(c.func, ast.Attribute) and c.func.attr == idf.name for c in ast.walk(cid.node)),
          "_create_step_id does not derive the id through the pure id function")

    # R3 one id per call, used for identifier and child context ------------------------------------------
    traces = context_method_traces(pm, probe_bodies=True)
    ck.floor("context_operations", len(traces), 8)
    n_proc = 0
    for mname, trs in traces.items():
        if mname == "wait_for_callback":
            bad = [t for t in trs if t.kinds("NEWID")[1:] and False]
            continue
        bad = []
        for t in trs:
            procs, ids = t.kinds("PROCESS"), t.kinds("NEWID")
            if t.outcome == "raise" and not procs and (t.exc_class() or "").endswith("ValidationError"):
                if ids:
                    bad.append(("an id is drawn although the call is rejected (shifts every later id)", t))
                continue
            n_proc += len(procs)
            if len(ids) != 1:
                bad.append((f"{len(ids)} ids drawn by one call", t))
                continue
            if any(e.data["ctx"] != "ctx" for e in ids):
                bad.append(("the id is drawn from another context's counter", t))
            for p in procs:
                if t.events.index(ids[0]) > t.events.index(p):
                    bad.append(("the id is drawn after the executor ran", t))
                if p.data.get("operation_id") != "id#1":
                    bad.append((f"identifier.operation_id = {p.data.get('operation_id')}", t))
                if p.data.get("parent_id") != "ctx._parent_id":
                    bad.append((f"identifier.parent_id = {p.data.get('parent_id')} (must name the enclosing context)", t))
            for e in t.kinds("BATCH_HANDLER"):
                if e.data["context_parent"] != "id#1" or e.data["operation_id"] != "id#1":
                    bad.append((f"the branch-owning context is not a context freshly built for this call with the call's id as parent "
                                f"(parent {e.data['context_parent']}, operation id {e.data['operation_id']}): cached/shared contexts share the call counter", t))
            for e in user_events(t, "user"):
                for a in e.data.get("arg_values") or []:
                    if isinstance(a, Obj) and a.cls_name == "DurableContext":
                        if a.fields.get("_parent_id", NONE).key() != "id#1":
                            bad.append((f"child context handed to user code has parent {a.fields.get('_parent_id', NONE).key()}", t))
                        cnt = a.fields.get("_step_counter")
                        if not (isinstance(cnt, Obj) and cnt.cls_name == "OrderedCounter"):
                            bad.append(("child context does not own a fresh counter", t))
        ck.ob("R3.one-id-per-call", f"context.py:DurableContext.{mname}", not bad, (bad[0][0] + ": " + trace_sig(bad[0][1])[:300]) if bad else "")
    ck.floor("process_calls", n_proc, 8)
    ccc = ctx.methods.get("create_child_context")
    ck.ob("R3.child-context-fresh-counter", fn_construct(ccc) if ccc else "context.py:DurableContext.create_child_context",
          ccc is not None and "_step_counter" not in ast.unparse(ccc.node) and "DurableContext(" in ast.unparse(ccc.node),
          "create_child_context must build a new DurableContext (which creates its own counter) and not pass a counter along")

    # R4 branch ids -------------------------------------------------------------------------------------
    cex = prog.cls("concurrency.executor", "ConcurrentExecutor")
    WL = {"_create_step_id_for_logical_step", "create_child_context", "_parent_id", "state"}
    n_ctx_uses = 0
    for fi in list(cex.methods.values()) + [f for f in prog.functions.values() if f.module.short() in ("operation.map", "operation.parallel", "concurrency.executor") and f.cls is None]:
        if isinstance(fi.node, ast.Lambda):
            continue
        params = {a.arg for a in fi.node.args.args + fi.node.args.kwonlyargs if a.arg in ("executor_context", "map_context", "parallel_context")}
        for n in walk_shallow(fi.node):
            if isinstance(n, ast.Attribute) and isinstance(n.value, ast.Name) and n.value.id in params:
                n_ctx_uses += 1
                ck.ob("R4.owner-context-whitelist", fn_construct(fi), n.attr in WL,
                      f"the branch-owning context is used through .{n.attr} (allowed: {sorted(WL)}): its counter must never be advanced", where=f"line {n.lineno}", cell=n.attr)
    ck.floor("owner_context_uses", n_ctx_uses, 4)
    for mname in ("_execute_item_in_child_context", "replay"):
        m = cex.methods.get(mname)
        if m is None:
            raise AnalysisError(f"ConcurrentExecutor.{mname} not found")
        calls = [c for c in ast.walk(m.node) if isinstance(c, ast.Call) and isinstance(c.func, ast.Attribute) and c.func.attr == idf.name]
        ok = bool(calls) and all(len(c.args) == 1 and ast.unparse(c.args[0]) == "executable.index" for c in calls)
        ck.ob("R4.branch-id-from-index", fn_construct(m), ok, f"branch id computed from {[ast.unparse(c.args[0]) if c.args else None for c in calls]}")
    for mod, cls, meth in (("operation.map", "MapExecutor", "from_items"), ("operation.parallel", "ParallelExecutor", "from_callables")):
        f = prog.cls(mod, cls).methods.get(meth)
        if f is None:
            raise AnalysisError(f"{cls}.{meth} not found")
        comp = [c for c in ast.walk(f.node) if isinstance(c, ast.ListComp) and "Executable(" in ast.unparse(c.elt)]
        ok = False
        for c in comp:
            idx = next((k.value for k in c.elt.keywords if k.arg == "index"), c.elt.args[0] if c.elt.args else None)
            it_ = ast.unparse(c.generators[0].iter)
            tgt = c.generators[0].target
            first = tgt.elts[0] if isinstance(tgt, ast.Tuple) else tgt
            ok = isinstance(idx, ast.Name) and isinstance(first, ast.Name) and idx.id == first.id and (it_.startswith("range(len(") or it_.startswith("enumerate("))
        ck.ob("R4.distinct-indices", fn_construct(f), ok, "Executable.index must be the position produced by range(len(..)) / enumerate(..)")

    # R5 factories ------------------------------------------------------------------------------------
    upd = pm.update_cls
    n_f = 0
    for n, f in upd.methods.items():
        if not n.startswith("create_") or "execution" in n:
            continue
        n_f += 1
        kws = {}
        for x in ast.walk(f.node):
            if isinstance(x, ast.Call) and isinstance(x.func, ast.Name) and x.func.id == "cls":
                kws = {k.arg: ast.unparse(k.value) for k in x.keywords}
        ck.ob("R5.factory-copies-identity", f"lambda_service.py:OperationUpdate.{n}",
              kws.get("operation_id") == "identifier.operation_id" and kws.get("parent_id") == "identifier.parent_id",
              f"operation_id={kws.get('operation_id')} parent_id={kws.get('parent_id')}")
    ck.floor("identified_factories", n_f, 14)
    return ck


if __name__ == "__main__":
    main(PID, build)
