"""C08 - operation identity is deterministic, schedule-independent and collision-free (DESIGN.md section 9)."""

from __future__ import annotations

import ast

from sa.cfg import walk_shallow
from sa.common import fn_construct, trace_sig
from sa.model import AnalysisError, load_program
from sa.protocol import ProtocolModel, context_method_traces, user_events
from sa.report import Check, main
from sa.values import NONE, Obj, Sym, TypeRef

PID = "C08"
IMPURE = {"time", "random", "uuid", "os", "threading", "datetime", "secrets", "socket", "id", "hash", "getpid", "object"}


def build() -> Check:
    prog = load_program()
    pm = ProtocolModel(prog)
    ck = Check(
        PID, "operation identity",
        "Purity of the id function (effect rule over names/attributes it may touch; both inputs reach the hash in both format variants); counter discipline "
        "(who-may-touch _step_counter); every DurableContext operation draws exactly one id before building its executor and uses it for the identifier and - "
        "for context-like operations - as parent of the child context (abstract interpretation of the context methods with their bodies probed); branch ids derive "
        "from the branch index through the side-effect-free id function and the owning context is only used through a whitelist of attributes; every "
        "update factory copies id and parent id from the identifier.",
        ["blake2b truncated to 64 hex digits is collision-free", "user code does not call operations on one context from several threads"],
        "one obligation per rule and site",
    )
    ctx = prog.cls("context", "DurableContext")
    idf = ctx.methods.get("_create_step_id_for_logical_step")
    cid = ctx.methods.get("_create_step_id")
    if idf is None or cid is None:
        raise AnalysisError("id functions of DurableContext not found")
    # R1 purity ------------------------------------------------------------------------------------
    param = idf.node.args.args[1].arg
    names = {n.id for n in ast.walk(idf.node) if isinstance(n, ast.Name) and isinstance(n.ctx, ast.Load)}
    self_attrs = {n.attr for n in ast.walk(idf.node) if isinstance(n, ast.Attribute) and isinstance(n.value, ast.Name) and n.value.id == "self"}
    locals_ = {t.id for st in ast.walk(idf.node) if isinstance(st, (ast.Assign, ast.AnnAssign))
               for t in ([st.target] if isinstance(st, ast.AnnAssign) else st.targets) if isinstance(t, ast.Name)}
    foreign = names - {"self", param, "hashlib", "str", "int", "bytes"} - locals_
    # attributes of the context that are bound once, in __init__, are part of the context's identity; anything assigned elsewhere is mutable state
    mutable_attrs = {t.attr for mname, m in ctx.methods.items() if mname != "__init__" for st in ast.walk(m.node)
                     if isinstance(st, (ast.Assign, ast.AnnAssign, ast.AugAssign)) for t in ([st.target] if not isinstance(st, ast.Assign) else st.targets)
                     if isinstance(t, ast.Attribute) and isinstance(t.value, ast.Name) and t.value.id == "self"}
    stores = sorted({ast.unparse(t) for st in ast.walk(idf.node) if isinstance(st, (ast.Assign, ast.AnnAssign, ast.AugAssign))
                     for t in ([st.target] if not isinstance(st, ast.Assign) else st.targets) if not isinstance(t, ast.Name)})
    ck.ob("R1.id-function-pure", fn_construct(idf), not foreign and not (self_attrs & mutable_attrs) and not stores,
          f"the id function reads names {sorted(foreign)}, mutable context attributes {sorted(self_attrs & mutable_attrs)} and writes {stores}: ids must be a function of "
          "(parent id, position) alone - branch threads derive ids from one shared context concurrently")
    # R1 value flow: the id is the digest of <parent id><separator><position> (or of the position alone at the root), decided by
    # interpreting the id function with a small abstract domain for text and hash objects (f-strings, str(), +, encode, update, copy)
    from sa.values import NONE, Const, Obj, SeqVal, Sym, TypeRef, Unknown

    from sa.interp import SpecialObj

    def make_hash(it, alg, data):
        data = list(data)
        methods = {
            "update": lambda it_, a, k, n: (data.extend(a[:1]), NONE)[1],
            "copy": lambda it_, a, k, n: make_hash(it_, alg, data),
            "hexdigest": lambda it_, a, k, n: Sym(it_.fresh("digest"), TypeRef(prim="str"), parts=("DIGEST", alg, tuple(data))),
            "digest": lambda it_, a, k, n: Sym(it_.fresh("digest"), TypeRef(prim="bytes"), parts=("DIGEST", alg, tuple(data))),
        }
        return SpecialObj(it.fresh(f"hash:{alg}"), methods)

    def h_new_hash(alg):
        return lambda it, a, k, n: make_hash(it, alg, a[:1])

    def h_encode(it, recv, a, k, n):
        if isinstance(recv, (Sym, Const)):
            return Sym(f"{recv.key()}.encode()", TypeRef(prim="bytes"), parts=("ENCODE", recv))
        return NotImplemented

    def atoms(v):
        """flatten an abstract text into atoms 'P' (parent id), 'S' (position), ('lit', text); None if something else flows in"""
        if isinstance(v, Const) and isinstance(v.value, (str, bytes)):
            return [("lit", v.value if isinstance(v.value, str) else v.value.decode("latin1"))] if v.value else []
        if isinstance(v, Sym):
            if v.k == "P":
                return ["P"]
            if v.k == "S":
                return ["S"]
            if v.parts and v.parts[0] in ("ENCODE", "STR"):
                return atoms(v.parts[1])
            if v.parts and v.parts[0] == "CONCAT":
                out = []
                for seg in v.parts[1]:
                    a_ = atoms(seg)
                    if a_ is None:
                        return None
                    out.extend(a_)
                return out
            if v.parts and v.parts[0] == "BINOP" and v.parts[1] == "Add":
                l_, r_ = atoms(v.parts[2]), atoms(v.parts[3])
                return None if l_ is None or r_ is None else l_ + r_
        return None

    def digest_of(v):
        while isinstance(v, Sym) and v.parts and v.parts[0] == "SUBSCRIPT":
            v = v.parts[1]
        if isinstance(v, Sym) and v.parts and v.parts[0] == "DIGEST":
            return v.parts
        return None

    algs = {f"hashlib.{a_}": h_new_hash(a_) for a_ in ("blake2b", "blake2s", "sha256", "sha1", "sha512", "md5", "sha3_256")}
    badv = []
    shapes = {}
    for label, parent in (("nested", Sym("P", TypeRef(prim="str"))), ("root", NONE)):
        def sf(it, state, parent=parent):
            # the context is built by its own __init__ (so whatever __init__ precomputes from the parent id is there); the argument that
            # ends up in self._parent_id is the parameter the id function's `self._parent_id` is assigned from
            init = ctx.methods["__init__"]
            pid_param = next((ast.unparse(st.value) for st in ast.walk(init.node) if isinstance(st, (ast.Assign, ast.AnnAssign)) and st.value is not None
                              and any(isinstance(t_, ast.Attribute) and t_.attr == "_parent_id" for t_ in ([st.target] if isinstance(st, ast.AnnAssign) else st.targets))), "parent_id")
            from sa.values import parse_annotation
            kwargs = {}
            for p_ in init.node.args.args[1:]:
                kwargs[p_.arg] = parent if p_.arg == pid_param else (state if p_.arg == "state" else Sym(f"init.{p_.arg}", parse_annotation(prog, init.module, p_.annotation)))
            o = Obj(ctx, label="ctx")
            it.nofork += 1
            try:
                it.call_function(init, o, [], kwargs, None, None, None)
            except Exception:  # noqa: BLE001 - fall back to a partially built context
                o = Obj(ctx, label="ctx")
            finally:
                it.nofork -= 1
            o.fields["_parent_id"] = parent
            return o

        trs = pm.run_function(idf, sf, lambda it, state: {param: Sym("S", TypeRef(prim="int"))}, cell=("id-function", label),
                              ext_calls=algs, ext_method_hooks={"encode": h_encode},
                              cfg_attrs={"structured_fstrings": True})
        for t in trs:
            if label == "nested" and dict(t.pc).get("truthy(P)") is False:
                continue  # an empty-string parent id is not produced by the SDK (ids are digests)
            d = digest_of(t.value) if t.outcome == "return" else None
            if d is None:
                badv.append(f"{label}: the id is {t.value.key() if t.outcome == 'return' else t.exc_class()}, not the digest of a hash object")
                continue
            parts_ = []
            for x in d[2]:
                a_ = atoms(x)
                if a_ is None:
                    parts_ = None
                    break
                parts_.extend(a_)
            shapes[label] = (d[1], parts_)
            if parts_ is None:
                badv.append(f"{label}: something other than the parent id / the position / constants is hashed ({[x.key() for x in d[2]]})")
            elif label == "root":
                if parts_ != ["S"]:
                    badv.append(f"root context: hashed text is {parts_}, expected the position alone")
            else:
                lits = [x for x in parts_ if isinstance(x, tuple)]
                core = [x for x in parts_ if not isinstance(x, tuple)]
                sep_ok = False
                if core in (["P", "S"], ["S", "P"]):
                    i0, i1 = parts_.index(core[0]), parts_.index(core[1])
                    between = "".join(x[1] for x in parts_[i0 + 1:i1] if isinstance(x, tuple))
                    sep_ok = bool(between) and not any(ch.isdigit() or ch in "abcdef" for ch in between.lower())
                if core not in (["P", "S"], ["S", "P"]):
                    badv.append(f"nested context: hashed text is {parts_}: parent id and position must both reach the hash exactly once")
                elif not sep_ok:
                    badv.append(f"nested context: hashed text is {parts_}: no separator that cannot occur in an id or a number sits between parent id and position "
                                "(('1', 23) and ('12', 3) would collide)")
    ck.analysed["id_shapes"] = {k: [v[0], [x if isinstance(x, str) else f"'{x[1]}'" for x in (v[1] or [])]] for k, v in shapes.items()}
    if not shapes:
        raise AnalysisError("id function not understood: " + "; ".join(badv[:3]))
    ck.floor("id_shapes", len(shapes), 2)
    ck.ob("R1.both-inputs-hashed", fn_construct(idf), not badv, "; ".join(badv[:2]) or str(ck.analysed["id_shapes"]))
    if len({v[0] for v in shapes.values()}) > 1:
        ck.ob("R1.both-inputs-hashed", fn_construct(idf), False, f"root and nested ids use different hash functions {sorted({v[0] for v in shapes.values()})}", cell="alg")

    # R2 counter discipline ---------------------------------------------------------------------------
    n_uses = 0
    for fi in prog.functions.values():
        if isinstance(fi.node, ast.Lambda):
            continue
        for n in walk_shallow(fi.node):
            if isinstance(n, ast.Attribute) and n.attr == "_step_counter":
                n_uses += 1
                c = fn_construct(fi)
                if isinstance(n.ctx, ast.Store):
                    st = next((s for s in ast.walk(fi.node) if isinstance(s, (ast.Assign, ast.AnnAssign)) and
                               (s.target if isinstance(s, ast.AnnAssign) else s.targets[0]) is n), None)
                    fresh = st is not None and isinstance(st.value, ast.Call) and ast.unparse(st.value) == "OrderedCounter()"
                    ck.ob("R2.fresh-counter-per-context", c, fi.name == "__init__" and fi.cls is ctx and fresh,
                          f"_step_counter assigned from {ast.unparse(st.value) if st is not None and st.value is not None else '?'} in {fi.qualname}", where=f"line {n.lineno}")
                else:
                    parent_call = next((x for x in walk_shallow(fi.node) if isinstance(x, ast.Call) and isinstance(x.func, ast.Attribute) and x.func.value is n), None)
                    ck.ob("R2.counter-only-incremented-by-id-draw", c, fi.fq == cid.fq and parent_call is not None and parent_call.func.attr == "increment",
                          f"_step_counter used as {ast.unparse(parent_call.func) if parent_call else 'a value'} in {fi.qualname}", where=f"line {n.lineno}")
    ck.floor("counter_uses", n_uses, 2)
    ck.ob("R2.id-draw-uses-id-function", fn_construct(cid),
          any(isinstance(c, ast.Call) and isinstance(c.func, ast.Attribute) and c.func.attr == idf.name for c in ast.walk(cid.node)),
          "_create_step_id does not derive the id through the pure id function")

    # R3 one id per call, used for identifier and child context ------------------------------------------
    traces = context_method_traces(pm, probe_bodies=True)
    ck.floor("context_operations", len(traces), 8)
    n_proc = 0
    for mname, trs in traces.items():
        if mname == "wait_for_callback":
            bad = [t for t in trs if t.kinds("NEWID")[1:] and False]
            continue
        bad = []
        for t in trs:
            procs, ids = t.kinds("PROCESS"), t.kinds("NEWID")
            if t.outcome == "raise" and not procs and (t.exc_class() or "").endswith("ValidationError"):
                if ids:
                    bad.append(("an id is drawn although the call is rejected (shifts every later id)", t))
                continue
            n_proc += len(procs)
            if len(ids) != 1:
                bad.append((f"{len(ids)} ids drawn by one call", t))
                continue
            if any(e.data["ctx"] != "ctx" for e in ids):
                bad.append(("the id is drawn from another context's counter", t))
            for p in procs:
                if t.events.index(ids[0]) > t.events.index(p):
                    bad.append(("the id is drawn after the executor ran", t))
                if p.data.get("operation_id") != "id#1":
                    bad.append((f"identifier.operation_id = {p.data.get('operation_id')}", t))
                if p.data.get("parent_id") != "ctx._parent_id":
                    bad.append((f"identifier.parent_id = {p.data.get('parent_id')} (must name the enclosing context)", t))
            for e in t.kinds("BATCH_HANDLER"):
                if e.data["context_parent"] != "id#1" or e.data["operation_id"] != "id#1":
                    bad.append((f"the branch-owning context is not a context freshly built for this call with the call's id as parent "
                                f"(parent {e.data['context_parent']}, operation id {e.data['operation_id']}): cached/shared contexts share the call counter", t))
            for e in user_events(t, "user"):
                for a in e.data.get("arg_values") or []:
                    if isinstance(a, Obj) and a.cls_name == "DurableContext":
                        if a.fields.get("_parent_id", NONE).key() != "id#1":
                            bad.append((f"child context handed to user code has parent {a.fields.get('_parent_id', NONE).key()}", t))
                        cnt = a.fields.get("_step_counter")
                        if not (isinstance(cnt, Obj) and cnt.cls_name == "OrderedCounter"):
                            bad.append(("child context does not own a fresh counter", t))
        ck.ob("R3.one-id-per-call", f"context.py:DurableContext.{mname}", not bad, (bad[0][0] + ": " + trace_sig(bad[0][1])[:300]) if bad else "")
    ck.floor("process_calls", n_proc, 8)
    ccc = ctx.methods.get("create_child_context")
    ck.ob("R3.child-context-fresh-counter", fn_construct(ccc) if ccc else "context.py:DurableContext.create_child_context",
          ccc is not None and "_step_counter" not in ast.unparse(ccc.node) and "DurableContext(" in ast.unparse(ccc.node),
          "create_child_context must build a new DurableContext (which creates its own counter) and not pass a counter along")

    # every run of a body gets a context created for that run (a reused context continues its counter: the same logical operation
    # would draw a different id on the timer re-submission / next run of the branch)
    from sa.common import child_context_escapes
    sites_cc, esc = child_context_escapes(prog)
    ck.floor("child_context_creation_sites", len(sites_cc), 4)
    for fi_, c_ in sites_cc:
        mine = [why for f2, n2, why in esc if f2 is fi_]
        ck.ob("R3.fresh-context-per-body-run", fn_construct(fi_), not mine, "; ".join(mine), where=f"line {c_.lineno}")

    # R4 branch ids -------------------------------------------------------------------------------------
    cex = prog.cls("concurrency.executor", "ConcurrentExecutor")
    WL = {"_create_step_id_for_logical_step", "create_child_context", "_parent_id", "state"}
    n_ctx_uses = 0
    for fi in list(cex.methods.values()) + [f for f in prog.functions.values() if f.module.short() in ("operation.map", "operation.parallel", "concurrency.executor") and f.cls is None]:
        if isinstance(fi.node, ast.Lambda):
            continue
        params = {a.arg for a in fi.node.args.args + fi.node.args.kwonlyargs if a.arg in ("executor_context", "map_context", "parallel_context")}
        for n in walk_shallow(fi.node):
            if isinstance(n, ast.Attribute) and isinstance(n.value, ast.Name) and n.value.id in params:
                n_ctx_uses += 1
                ck.ob("R4.owner-context-whitelist", fn_construct(fi), n.attr in WL,
                      f"the branch-owning context is used through .{n.attr} (allowed: {sorted(WL)}): its counter must never be advanced", where=f"line {n.lineno}", cell=n.attr)
    ck.floor("owner_context_uses", n_ctx_uses, 4)
    for mname in ("_execute_item_in_child_context", "replay"):
        m = cex.methods.get(mname)
        if m is None:
            raise AnalysisError(f"ConcurrentExecutor.{mname} not found")
        calls = [c for c in ast.walk(m.node) if isinstance(c, ast.Call) and isinstance(c.func, ast.Attribute) and c.func.attr == idf.name]
        ok = bool(calls) and all(len(c.args) == 1 and ast.unparse(c.args[0]) == "executable.index" for c in calls)
        ck.ob("R4.branch-id-from-index", fn_construct(m), ok, f"branch id computed from {[ast.unparse(c.args[0]) if c.args else None for c in calls]}")
    for mod, cls, meth in (("operation.map", "MapExecutor", "from_items"), ("operation.parallel", "ParallelExecutor", "from_callables")):
        f = prog.cls(mod, cls).methods.get(meth)
        if f is None:
            raise AnalysisError(f"{cls}.{meth} not found")
        comp = [c for c in ast.walk(f.node) if isinstance(c, ast.ListComp) and "Executable(" in ast.unparse(c.elt)]
        ok = False
        for c in comp:
            idx = next((k.value for k in c.elt.keywords if k.arg == "index"), c.elt.args[0] if c.elt.args else None)
            it_ = ast.unparse(c.generators[0].iter)
            tgt = c.generators[0].target
            first = tgt.elts[0] if isinstance(tgt, ast.Tuple) else tgt
            ok = isinstance(idx, ast.Name) and isinstance(first, ast.Name) and idx.id == first.id and (it_.startswith("range(len(") or it_.startswith("enumerate("))
        ck.ob("R4.distinct-indices", fn_construct(f), ok, "Executable.index must be the position produced by range(len(..)) / enumerate(..)")

    # R5 factories ------------------------------------------------------------------------------------
    upd = pm.update_cls
    n_f = 0
    for n, f in upd.methods.items():
        if not n.startswith("create_") or "execution" in n:
            continue
        n_f += 1
        kws = {}
        for x in ast.walk(f.node):
            if isinstance(x, ast.Call) and isinstance(x.func, ast.Name) and x.func.id == "cls":
                kws = {k.arg: ast.unparse(k.value) for k in x.keywords}
        ck.ob("R5.factory-copies-identity", f"lambda_service.py:OperationUpdate.{n}",
              kws.get("operation_id") == "identifier.operation_id" and kws.get("parent_id") == "identifier.parent_id",
              f"operation_id={kws.get('operation_id')} parent_id={kws.get('parent_id')}")
    ck.floor("identified_factories", n_f, 14)
    # ... and the identifier of EVERY record (the factories above copy the structural identifier; the EXECUTION result records build their own) is a
    # function of constants and parameters only: no clock, no random source, no counter - "the same in every invocation" (h2_C08 #1; these two
    # factories had been skipped by name)
    n_e = 0
    for n, f in upd.methods.items():
        if not n.startswith("create_"):
            continue
        for x in ast.walk(f.node):
            if isinstance(x, ast.Call) and isinstance(x.func, ast.Name) and x.func.id == "cls":
                idv = next((k.value for k in x.keywords if k.arg == "operation_id"), None)
                if idv is None:
                    raise AnalysisError(f"OperationUpdate.{n}: record built without operation_id keyword")
                n_e += 1
                params = {a.arg for a in f.node.args.args + f.node.args.kwonlyargs}
                impure = [ast.unparse(c)[:80] for c in ast.walk(idv) if isinstance(c, ast.Call)
                          and not (isinstance(c.func, ast.Name) and c.func.id in ("str", "int", "repr"))]
                foreign = sorted({v.id for v in ast.walk(idv) if isinstance(v, ast.Name) and v.id not in params
                                  and not any(isinstance(c, ast.Call) and v in ast.walk(c.func) for c in ast.walk(idv))})
                ck.ob("R5.recorded-id-is-invocation-independent", f"lambda_service.py:OperationUpdate.{n}", not impure and not foreign,
                      f"the identifier under which the record is sent is `{ast.unparse(idv)[:120]}`: it calls {impure or foreign} - a different identifier in every "
                      "invocation (and a shared one for two executions finishing in the same millisecond); a re-delivered invocation that reaches the end of the "
                      "handler again records the same logical result under a second id")
    ck.floor("record_identifier_expressions", n_e, 16)
    return ck


if __name__ == "__main__":
    main(PID, build)
