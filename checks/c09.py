"""C09 - map/parallel honour the completion policy and report branches faithfully (DESIGN.md section 10)."""

from __future__ import annotations

import ast
import re

from sa.cfg import CFG, walk_shallow
from sa.common import fn_construct, trace_sig
from sa.model import AnalysisError, load_program
from sa.protocol import ProtocolModel
from sa.report import Check, main
from sa.values import NONE, Const, EnumVal, Obj, SeqVal, Sym, TypeRef

PID = "C09"


def norm_atom(txt: str) -> str:
    txt = re.sub(r"\b(self|completion_config)\.", "", txt)
    txt = txt.replace("total_tasks", "total").replace("total_count", "total")
    return txt


def comparisons(fn_node) -> set[str]:
    out = set()
    for n in ast.walk(fn_node):
        if isinstance(n, ast.Compare) and len(n.ops) == 1 and isinstance(n.ops[0], (ast.Gt, ast.GtE, ast.Lt, ast.LtE, ast.Eq)):
            r = n.comparators[0]
            if isinstance(r, ast.Constant) and r.value in (0, None):
                continue
            out.add(norm_atom(ast.unparse(n)))
    return out


def none_guard_fields(test: ast.expr, negated: bool) -> set[str] | None:
    """fields f such that the expression is a conjunction of `f is None` (or, negated, a disjunction of `f is not None`)."""
    parts = test.values if isinstance(test, ast.BoolOp) else [test]
    want_op = ast.IsNot if negated else ast.Is
    if isinstance(test, ast.BoolOp) and not isinstance(test.op, ast.Or if negated else ast.And):
        return None
    fields = set()
    for p in parts:
        if not (isinstance(p, ast.Compare) and len(p.ops) == 1 and isinstance(p.ops[0], want_op)
                and isinstance(p.comparators[0], ast.Constant) and p.comparators[0].value is None and isinstance(p.left, ast.Attribute)):
            return None
        fields.add(p.left.attr)
    return fields


def build() -> Check:
    prog = load_program()
    pm = ProtocolModel(prog)
    ck = Check(
        PID, "map/parallel completion policy and faithful reporting",
        "_create_result is interpreted for every BranchStatus (exhaustiveness, one item per branch carrying that branch's index/result/error); the stop "
        "decision (ExecutionCounters) and the completion-reason classifier (BatchResult) are compared as sets of normalised comparison atoms and of the "
        "configuration fields whose absence triggers fail-fast; execute() is interpreted with zero executables (the wait must be unreachable and no pool "
        "of size 0 may be created); branch bodies are only reachable through the bounded pool.",
        ["when the call returns relative to running branches, actual parallelism and per-branch ground truth are runtime facts",
         "replay equality of the batch value is C15/C20 (codec tables)"],
        "one obligation per rule / status",
    )
    cex = prog.cls("concurrency.executor", "ConcurrentExecutor")
    models = prog.module("concurrency.models")
    bstat = models.classes["BranchStatus"]
    ews = models.classes["ExecutableWithState"]
    exe_cls = models.classes["Executable"]
    cr = cex.methods.get("_create_result")
    if cr is None:
        raise AnalysisError("ConcurrentExecutor._create_result not found")
    from_items = models.classes["BatchResult"].methods["from_items"]
    expected = {"COMPLETED": "SUCCEEDED", "FAILED": "FAILED"}
    ck.floor("branch_statuses", len(bstat.enum_members), 6)
    for sname in bstat.enum_members:
        def self_factory(it, state, sname=sname):
            o = Obj(cex, label="cexec")
            e = Obj(exe_cls, label="exe0")
            e.fields.update(index=Sym("exe0.index", TypeRef(prim="int")), func=Sym("exe0.func"))
            w = Obj(ews, label="ews0")
            w.fields.update(executable=e, _status=EnumVal(bstat.fq, sname, bstat.enum_members[sname]), _result=Sym("ews0._result"),
                            _is_result_set=Const(True), _error=Sym("ews0._error", TypeRef(prim="ext:builtins.Exception")))
            o.fields.update(executables_with_state=SeqVal("list", [w]), completion_config=Sym("cc"))
            return o

        def h_from_items(it, f, sv, a, k, n):
            it.emit("FROM_ITEMS", n, items_v=a[0] if a else None, config=(a[1].key() if len(a) > 1 else None))
            return Sym("batch")

        trs = pm.run_function(cr, self_factory, None, cell=("_create_result", sname), extra_hooks={from_items.fq: h_from_items})
        bad = []
        want = expected.get(sname, "STARTED")
        for t in trs:
            fi = t.kinds("FROM_ITEMS")
            items = fi[0].data["items_v"] if fi else None
            if not (isinstance(items, SeqVal) and len(items.items) == 1 and isinstance(items.items[0], Obj)):
                bad.append((f"branch in status {sname} yields {len(items.items) if isinstance(items, SeqVal) else None} item(s) (expected exactly one)", t))
                continue
            b = items.items[0]
            st = b.fields.get("status")
            if not (isinstance(st, EnumVal) and st.name == want):
                bad.append((f"branch in status {sname} is reported as {st.key() if st else None}, expected {want}", t))
            if b.fields.get("index", NONE).key() != "exe0.index":
                bad.append((f"reported index is {b.fields.get('index', NONE).key()}", t))
            if want == "SUCCEEDED" and b.fields.get("result", NONE).key() != "ews0._result":
                bad.append((f"succeeded item carries {b.fields.get('result', NONE).key()} instead of the branch's result", t))
            if want == "FAILED":
                err = b.fields.get("error")
                if not (isinstance(err, Obj) and "ews0._error" in err.fields.get("message", NONE).key()):
                    bad.append(("failed item does not carry the branch's error", t))
            if want == "STARTED" and (not _is_none(b.fields.get("result")) or not _is_none(b.fields.get("error"))):
                bad.append(("an unfinished branch is reported with a result/error", t))
            if fi[0].data.get("config") != "cc":
                bad.append(("the completion reason is classified without the operation's completion config", t))
        ck.ob("R1.faithful-item-per-branch", fn_construct(cr), not bad and trs, (bad[0][0]) if bad else "", cell=sname)

    # the error of a failed item: a branch fails by raising the CallableRuntimeError that its child context built from the error it recorded
    # (type / message / data / stack trace); the item must carry those very fields - it is what replay() reads back from the record
    cre = prog.cls("exceptions", "CallableRuntimeError")

    def self_factory_err(it, state):
        o = Obj(cex, label="cexec")
        e = Obj(exe_cls, label="exe0")
        e.fields.update(index=Sym("exe0.index", TypeRef(prim="int")), func=Sym("exe0.func"))
        w = Obj(ews, label="ews0")
        err = Obj(cre, label="branch_error")
        err.fields.update(message=Sym("rec.message", TypeRef(prim="str")), error_type=Sym("rec.type", TypeRef(prim="str")),
                          data=Sym("rec.data", TypeRef(prim="str")), stack_trace=Sym("rec.stack_trace"))
        err.args = [Sym("rec.message", TypeRef(prim="str"))]
        w.fields.update(executable=e, _status=EnumVal(bstat.fq, "FAILED", bstat.enum_members["FAILED"]), _result=NONE, _is_result_set=Const(False), _error=err)
        o.fields.update(executables_with_state=SeqVal("list", [w]), completion_config=Sym("cc"))
        return o

    def h_from_items2(it, f, sv, a, k, n):
        it.emit("FROM_ITEMS", n, items_v=a[0] if a else None)
        return Sym("batch")

    trs = pm.run_function(cr, self_factory_err, None, cell=("_create_result", "FAILED/recorded-error"), extra_hooks={from_items.fq: h_from_items2})
    bade = []
    for t in trs:
        fi = t.kinds("FROM_ITEMS")
        items = fi[0].data["items_v"] if fi else None
        err = items.items[0].fields.get("error") if isinstance(items, SeqVal) and items.items and isinstance(items.items[0], Obj) else None
        got = {k_: (err.fields.get(k_, NONE).key() if isinstance(err, Obj) else None) for k_ in ("type", "message", "data", "stack_trace")}
        want_e = {"type": "rec.type", "message": "rec.message", "data": "rec.data", "stack_trace": "rec.stack_trace"}
        diff = {k_: got[k_] for k_ in want_e if got[k_] != want_e[k_] and not (k_ == "message" and got[k_] and "rec.message" in got[k_])}
        if diff:
            bade.append(f"a branch that failed with the recorded error (type rec.type, ...) is reported with {diff}: not the branch's actual error, and not what replay() "
                        "rebuilds from the record")
    ck.ob("R1.failed-item-carries-recorded-error", fn_construct(cr), not bade and trs, bade[0] if bade else f"{len(trs)} path(s)")

    # order: executables_with_state is built by one comprehension over self.executables
    ex = cex.methods["execute"]
    built = [st for st in ast.walk(ex.node) if isinstance(st, ast.Assign) and isinstance(st.targets[0], ast.Attribute)
             and st.targets[0].attr == "executables_with_state"]
    ok = any(isinstance(st.value, ast.ListComp) and ast.unparse(st.value.generators[0].iter) == "self.executables" and len(st.value.generators) == 1
             and not st.value.generators[0].ifs for st in built)
    ck.ob("R1.input-order", fn_construct(ex), ok, "executables_with_state is not an order-preserving comprehension over self.executables")

    # R2 concurrency bound ---------------------------------------------------------------------
    item_fn = cex.methods["_execute_item_in_child_context"]
    sites = []
    for fi in prog.functions.values():
        if isinstance(fi.node, ast.Lambda):
            continue
        for n in walk_shallow(fi.node):
            if isinstance(n, ast.Attribute) and n.attr == item_fn.name:
                sites.append((fi, n))
    ck.floor("branch_body_references", len(sites), 2)
    for fi, n in sites:
        txt = None
        for c in walk_shallow(fi.node):
            if isinstance(c, ast.Call) and any(n is a for a in c.args):
                txt = ast.unparse(c.func)
            if isinstance(c, ast.Call) and c.func is n:
                txt = "direct-call"
        ok = (txt is not None and txt.endswith(".submit")) or (txt == "direct-call" and fi.name == "replay")
        ck.ob("R2.branches-only-through-pool", fn_construct(fi), ok, f"branch body referenced via {txt}", where=f"line {n.lineno}")
    pools = [c for c in ast.walk(ex.node) if isinstance(c, ast.Call) and ast.unparse(c.func).endswith("ThreadPoolExecutor")]
    ck.floor("pools_in_execute", len(pools), 1)
    for c in pools:
        mw = next((k.value for k in c.keywords if k.arg == "max_workers"), c.args[0] if c.args else None)
        dep = False
        if isinstance(mw, ast.Name):
            for st in ast.walk(ex.node):
                if isinstance(st, ast.Assign) and isinstance(st.targets[0], ast.Name) and st.targets[0].id == mw.id:
                    dep = "max_concurrency" in ast.unparse(st.value)
        elif mw is not None:
            dep = "max_concurrency" in ast.unparse(mw)
        # ... and bounded the right way: with a limit of 2 and 5 inputs the pool has 2 workers; without a limit, at most one per input
        sized = True
        if dep and isinstance(mw, ast.Name):
            from sa.common import MiniEvalUnknown, mini_eval
            defs_mw = [st.value for st in ast.walk(ex.node) if isinstance(st, ast.Assign) and isinstance(st.targets[0], ast.Name) and st.targets[0].id == mw.id]
            try:
                v1 = mini_eval(defs_mw[0], {"self.max_concurrency": 2, "len(self.executables)": 5})
                v2 = mini_eval(defs_mw[0], {"self.max_concurrency": None, "len(self.executables)": 5})
                sized = v1 == 2 and isinstance(v2, int) and 1 <= v2 <= 5
                if not sized:
                    ck.ob("R2.pool-bounded-by-max-concurrency", fn_construct(ex), False,
                          f"max_workers = {ast.unparse(defs_mw[0])} gives {v1} workers for max_concurrency=2 over 5 inputs and {v2} without a limit", cell="evaluated")
            except (MiniEvalUnknown, IndexError) as u_:
                ck.undecided_rule(f"R2.pool-bounded-by-max-concurrency: `{u_}` in the pool size is not understood")
        ck.ob("R2.pool-bounded-by-max-concurrency", fn_construct(ex), dep and len(pools) == 1,
              f"{len(pools)} pool(s); max_workers={ast.unparse(mw) if mw is not None else None}")

    # R2 "... without waiting for branches that are still running": execute() leaves the pool behind without joining it. `shutdown(wait=True)` - or the pool used
    # as a context manager, whose exit is shutdown(wait=True) - makes a decided call wait for the slowest branch (mutscan: `wait=False` -> `True` survived everything)
    joins = []
    for c in ast.walk(ex.node):
        if isinstance(c, ast.Call) and isinstance(c.func, ast.Attribute) and c.func.attr == "shutdown" and "executor" in ast.unparse(c.func.value).lower():
            w_ = next((k.value for k in c.keywords if k.arg == "wait"), c.args[0] if c.args else None)
            if not (isinstance(w_, ast.Constant) and w_.value is False):
                joins.append(f"line {c.lineno}: `{ast.unparse(c)}`")
    for w in ast.walk(ex.node):
        if isinstance(w, ast.With) and any("ThreadPoolExecutor" in ast.unparse(i.context_expr) for i in w.items):
            joins.append(f"line {w.lineno}: the pool is a context manager (its exit joins every worker)")
    n_shut = sum(1 for c in ast.walk(ex.node) if isinstance(c, ast.Call) and isinstance(c.func, ast.Attribute) and c.func.attr == "shutdown" and "executor" in ast.unparse(c.func.value).lower())
    ck.floor("pool_shutdowns_in_execute", n_shut, 1)
    ck.ob("R2.decided-call-does-not-join-the-pool", fn_construct(ex), not joins,
          "; ".join(joins) + ": a map/parallel whose policy is decided (min_successful reached, tolerance exceeded) returns only when its slowest branch has finished")

    # R3 decision vs classifier ---------------------------------------------------------------------
    counters = models.classes["ExecutionCounters"]
    # R3 the thresholds the decision works with are the configured ones: where the counters are built, each parameter receives the quantity of its own name -
    # the number of inputs as the total, `completion_config.<name>` (or a local bound from it) for the three thresholds - and each stores it in the field the
    # decision reads (mutscan 4: the first two arguments exchanged - with the default policy both equal the number of inputs and nothing differs; with
    # min_successful=1 of 3 the call waits for three successes among one task)
    ci_init = counters.methods.get("__init__")
    if ci_init is None:
        raise AnalysisError("ExecutionCounters.__init__ not found")
    cparams = [a.arg for a in ci_init.node.args.args[1:]]
    stores = {}
    for st_ in ast.walk(ci_init.node):
        if isinstance(st_, (ast.Assign, ast.AnnAssign)):
            tg_ = st_.targets[0] if isinstance(st_, ast.Assign) else st_.target
            if isinstance(tg_, ast.Attribute) and isinstance(tg_.value, ast.Name) and tg_.value.id == "self" and isinstance(st_.value, ast.Name) and st_.value.id in cparams:
                stores[tg_.attr] = st_.value.id
    crossed = [f"self.{a_} = {p_}" for a_, p_ in stores.items() if a_ in cparams and a_ != p_]
    ck.ob("R3.counters-receive-the-configured-thresholds", fn_construct(ci_init), not crossed and set(cparams) <= set(stores),
          (f"{crossed[0]}: the field the decision reads holds another parameter" if crossed else f"parameters never stored: {sorted(set(cparams) - set(stores))}"), cell="stores")
    n_cc = 0
    for fi_ in [f for c_ in prog.classes.values() for f in c_.methods.values() if f.cls is c_]:
        for call_ in [c for c in ast.walk(fi_.node) if isinstance(c, ast.Call) and isinstance(c.func, ast.Name) and c.func.id == "ExecutionCounters"]:
            n_cc += 1
            bound = dict(zip(cparams, call_.args))
            bound.update({k.arg: k.value for k in call_.keywords if k.arg})
            local_defs = {}
            for st_ in ast.walk(fi_.node):
                if isinstance(st_, (ast.Assign, ast.AnnAssign)):
                    tg_ = st_.targets[0] if isinstance(st_, ast.Assign) else st_.target
                    if isinstance(tg_, ast.Name) and st_.value is not None:
                        local_defs.setdefault(tg_.id, []).append(st_.value)

            def sources(e_, depth=0):
                out_ = set()
                for x in ast.walk(e_):
                    if isinstance(x, ast.Attribute) and "completion_config" in ast.unparse(x.value):
                        out_.add(x.attr)
                    if isinstance(x, ast.Name) and x.id in local_defs and depth < 3:
                        for d_ in local_defs[x.id]:
                            out_ |= sources(d_, depth + 1)
                return out_
            wrongb = []
            for p_ in cparams:
                e_ = bound.get(p_)
                if e_ is None:
                    wrongb.append(f"`{p_}` is not passed")
                    continue
                src_ = sources(e_)
                if p_ == "total_tasks":
                    is_len = isinstance(e_, ast.Call) and isinstance(e_.func, ast.Name) and e_.func.id == "len" and "executables" in ast.unparse(e_)
                    if not is_len or src_:
                        wrongb.append(f"`total_tasks` receives `{ast.unparse(e_)[:50]}` - not the number of inputs")
                elif p_ not in src_ or (src_ - {p_}):
                    wrongb.append(f"`{p_}` receives `{ast.unparse(e_)[:50]}`, which comes from {sorted(src_) or 'no configured threshold'}")
            ck.ob("R3.counters-receive-the-configured-thresholds", fn_construct(fi_), not wrongb,
                  "; ".join(wrongb[:2]) + ": the completion decision compares the branch counts with the wrong quantity", cell="call")
    ck.floor("execution_counters_constructions", n_cc, 1)
    sc, ic = counters.methods["should_continue"], counters.methods["is_complete"]
    gr = models.classes["BatchResult"].methods["_get_completion_reason"]
    a_dec = comparisons(sc.node) | comparisons(ic.node)
    a_cls = comparisons(gr.node)
    ck.analysed["decision_atoms"] = sorted(a_dec)
    ck.analysed["classifier_atoms"] = sorted(a_cls)
    ck.floor("decision_atoms", len(a_dec), 3)
    ck.ob("R3.same-threshold-atoms", fn_construct(gr), a_dec == a_cls,
          f"only in the stop decision: {sorted(a_dec - a_cls)}; only in the classifier: {sorted(a_cls - a_dec)}")
    # the fail-fast comparisons (against the constant 0, left out of the atoms above): the stop decision goes on exactly while there is NO failure, the
    # classifier reports the tolerance exceeded exactly when there IS one (mutscan: `failure_count > 0` -> `>= 0` survived the suite and this check)
    def zero_cmps(fn_nodes):
        out = set()
        for fn_node in fn_nodes:
            for n in ast.walk(fn_node):
                if isinstance(n, ast.Compare) and len(n.ops) == 1 and isinstance(n.comparators[0], ast.Constant) and n.comparators[0].value in (0, 1) \
                        and "failure_count" in ast.unparse(n.left):
                    out.add(norm_atom(ast.unparse(n)))
        return out
    NO_FAILURE = {"failure_count == 0", "failure_count < 1", "failure_count <= 0"}
    SOME_FAILURE = {"failure_count > 0", "failure_count >= 1", "failure_count != 0"}
    z_dec, z_cls = zero_cmps([sc.node, ic.node]), zero_cmps([gr.node])
    ck.floor("fail_fast_comparisons", len(z_dec) + len(z_cls), 2)
    ck.ob("R3.fail-fast-means-any-failure", fn_construct(gr), bool(z_cls) and z_cls <= SOME_FAILURE and bool(z_dec) and z_dec <= NO_FAILURE,
          f"stop decision compares {sorted(z_dec)} (expected one of {sorted(NO_FAILURE)}), classifier compares {sorted(z_cls)} (expected one of {sorted(SOME_FAILURE)}): "
          "without a configured tolerance the call must stop on, and report, the first failure - not on none")
    # every division by a count happens where that count is known to be positive ("for all item counts, including zero": an empty map with a tolerated
    # failure percentage must not die of ZeroDivisionError while its result is classified)
    for fn_x in (sc, ic, gr):
        par_x = {}
        for n in ast.walk(fn_x.node):
            for c in ast.iter_child_nodes(n):
                par_x[id(c)] = n
        for n in ast.walk(fn_x.node):
            if isinstance(n, ast.BinOp) and isinstance(n.op, (ast.Div, ast.FloorDiv, ast.Mod)) and not isinstance(n.right, ast.Constant):
                den = norm_atom(ast.unparse(n.right))
                cur, ok_div = par_x.get(id(n)), False
                while cur is not None:
                    if isinstance(cur, ast.If) and any(n is x for b in cur.body for x in ast.walk(b)):
                        tests = cur.test.values if isinstance(cur.test, ast.BoolOp) and isinstance(cur.test.op, ast.And) else [cur.test]
                        if any(norm_atom(ast.unparse(t_)) in (f"{den} > 0", f"{den} >= 1", f"{den} != 0") for t_ in tests):
                            ok_div = True
                    cur = par_x.get(id(cur))
                ck.ob("R3.division-by-a-count-is-guarded", fn_construct(fn_x), ok_div,
                      f"`{ast.unparse(n)}` is computed where `{den} > 0` is not established: with zero inputs the call dies of ZeroDivisionError instead of returning an empty batch",
                      cell=den)
    # a quantity derived locally on both sides (failure_percentage) is derived from the same counters: the atoms above compare names only
    def local_defs(fn_nodes):
        d = {}
        for fn_node in fn_nodes:
            for st in ast.walk(fn_node):
                if isinstance(st, ast.Assign) and len(st.targets) == 1 and isinstance(st.targets[0], ast.Name):
                    d.setdefault(st.targets[0].id, set()).add(norm_atom(ast.unparse(st.value)))
                elif isinstance(st, ast.AnnAssign) and st.value is not None and isinstance(st.target, ast.Name):
                    d.setdefault(st.target.id, set()).add(norm_atom(ast.unparse(st.value)))
        return d
    d_dec, d_cls = local_defs([sc.node, ic.node]), local_defs([gr.node])
    atom_names = {w for a in a_dec | a_cls for w in re.findall(r"[A-Za-z_]\w*", a)}
    shared = sorted(n_ for n_ in atom_names if n_ in d_dec and n_ in d_cls)
    ck.analysed["derived_quantities_compared"] = shared
    ck.floor("derived_quantities_compared", len(shared), 1)
    for n_ in shared:
        ck.ob("R3.same-derived-quantity", fn_construct(gr), d_dec[n_] == d_cls[n_],
              f"`{n_}` is compared with the same threshold on both sides but means different things: the stop decision computes {sorted(d_dec[n_])}, the classifier "
              f"{sorted(d_cls[n_])}; a call ended by one policy is then reported with the reason of another", cell=n_)
    # the counters the classifier is called with are what their names say (per status of the reported items)
    WANT_STATUSES = {"failure_count": {"FAILED"}, "success_count": {"SUCCEEDED"}, "completed_count": {"SUCCEEDED", "FAILED"},
                     "total_count": {"SUCCEEDED", "FAILED", "STARTED"}}
    n_bind = 0
    for fi in models.classes["BatchResult"].methods.values():
        if isinstance(fi.node, ast.Lambda):
            continue
        defs = {}
        for st in ast.walk(fi.node):
            if isinstance(st, ast.Assign) and len(st.targets) == 1 and isinstance(st.targets[0], ast.Name):
                defs.setdefault(st.targets[0].id, []).append(st.value)
        def statuses_of(e, depth=0):
            out, whole = set(), False
            for n in ast.walk(e):
                if isinstance(n, ast.Attribute) and isinstance(n.value, ast.Name) and n.value.id == "BatchItemStatus":
                    out.add(n.attr)
                elif isinstance(n, ast.Call) and isinstance(n.func, ast.Name) and n.func.id == "len":
                    whole = True
                elif isinstance(n, ast.Name) and n.id in defs and depth < 6 and n.id not in ("counts", "statuses"):
                    for d_ in defs[n.id]:
                        o2, w2 = statuses_of(d_, depth + 1)
                        out |= o2
                        whole = whole or w2
            return out, whole
        for c in ast.walk(fi.node):
            if isinstance(c, ast.Call) and isinstance(c.func, ast.Attribute) and c.func.attr == "_get_completion_reason":
                for kw in c.keywords:
                    if kw.arg in WANT_STATUSES:
                        n_bind += 1
                        got, whole = statuses_of(kw.value)
                        ok = got == WANT_STATUSES[kw.arg] or (kw.arg == "total_count" and whole and not got)
                        ck.ob("R3.classifier-counters-bound-to-their-statuses", fn_construct(fi), ok,
                              f"`{kw.arg}={ast.unparse(kw.value)}` counts the items of status {sorted(got)}{' / all items' if whole else ''}; the classifier reads it as {sorted(WANT_STATUSES[kw.arg])}",
                              cell=kw.arg)
                if c.args:
                    ck.ob("R3.classifier-counters-bound-to-their-statuses", fn_construct(fi), False, "positional arguments: the binding cannot be read off the call", cell="positional")
    ck.floor("classifier_counter_bindings", n_bind, 4)
    # the counters the decision reads are written by the two booking methods (events of the done-callback model, never looked into): complete_task adds one
    # to the success counter, fail_task one to the failure counter, each under the counters' lock, and nothing else writes them after __init__
    for mname_, field_ in (("complete_task", "success_count"), ("fail_task", "failure_count")):
        fi_ = counters.methods.get(mname_)
        if fi_ is None:
            raise AnalysisError(f"ExecutionCounters.{mname_} not found")
        augs = [n for n in ast.walk(fi_.node) if isinstance(n, (ast.AugAssign, ast.Assign))]
        good = [n for n in augs if isinstance(n, ast.AugAssign) and isinstance(n.op, ast.Add) and isinstance(n.value, ast.Constant) and n.value.value == 1
                and isinstance(n.target, ast.Attribute) and n.target.attr == field_]
        locked = all(any(any(n is x for b in w.body for x in ast.walk(b)) for w in ast.walk(fi_.node) if isinstance(w, ast.With) and "_lock" in ast.unparse(w.items[0].context_expr)) for n in good)
        ck.ob("R3.booking-method-writes-its-own-counter", fn_construct(fi_), len(augs) == 1 and len(good) == 1 and locked,
              f"{mname_}() writes {[ast.unparse(n) for n in augs]}: expected exactly `self.{field_} += 1` under the lock - the stop decision and the delivered items disagree otherwise",
              cell=mname_)
    other_writers = sorted(f"{fi_.name} line {n.lineno}" for fi_ in counters.methods.values() if fi_.name not in ("__init__", "complete_task", "fail_task") and not isinstance(fi_.node, ast.Lambda)
                           for n in ast.walk(fi_.node) if isinstance(n, (ast.AugAssign, ast.Assign))
                           for t_ in ([n.target] if isinstance(n, ast.AugAssign) else n.targets) if isinstance(t_, ast.Attribute) and t_.attr in ("success_count", "failure_count"))
    ck.ob("R3.booking-method-writes-its-own-counter", fn_construct(counters.methods["complete_task"]), not other_writers,
          f"the counters are also written in {other_writers}", cell="other writers")
    # fail-fast guard: which fields must be None
    g_dec = None
    for st in ast.walk(sc.node):
        if isinstance(st, ast.If):
            f = none_guard_fields(st.test, negated=False)
            if f:
                g_dec = f
                break
    g_cls = None
    for st in ast.walk(gr.node):
        if isinstance(st, (ast.Assign, ast.AnnAssign)) and st.value is not None:
            f = none_guard_fields(st.value, negated=True)
            if f and len(f) >= 2:
                g_cls = f
        if isinstance(st, ast.If):
            f = none_guard_fields(st.test, negated=False)
            if f and len(f) >= 2:
                g_cls = f
    ck.analysed["failfast_fields_decision"] = sorted(g_dec or [])
    ck.analysed["failfast_fields_classifier"] = sorted(g_cls or [])
    ck.ob("R3.same-fail-fast-guard", fn_construct(gr), g_dec is not None and g_dec == g_cls,
          f"the executor stops on the first failure when {sorted(g_dec or [])} are unset, the classifier reports FAILURE_TOLERANCE_EXCEEDED only when "
          f"{sorted(g_cls or [])} are unset: with only min_successful configured a failed branch stops the operation and the result "
          "[FAILED, STARTED, ...] is classified ALL_COMPLETED")

    # R3 a threshold of 0 is a policy ("tolerate no failure"), None is "not configured": optional numeric thresholds are compared, never
    # tested by truthiness (0 and None would be conflated and the branch failure would no longer decide the operation)
    cc_cls = prog.cls("config", "CompletionConfig")
    opt_numeric = {f.name for f in cc_cls.all_fields() if f.annotation is not None and "None" in ast.unparse(f.annotation)
                   and any(t_ in ast.unparse(f.annotation) for t_ in ("int", "float"))}
    ck.floor("optional_thresholds", len(opt_numeric), 3)
    ACCEPTED_TRUTHINESS = {("concurrency/executor.py:ConcurrentExecutor.__init__", "min_successful"):
                           "`min_successful or len(executables)`: 0 and None both mean 'all inputs' (at least one success is needed to decide anyway)"}

    def bool_positions(fn_node):
        for n in ast.walk(fn_node):
            if isinstance(n, (ast.If, ast.While, ast.IfExp, ast.Assert)):
                yield n.test
            elif isinstance(n, ast.BoolOp):
                yield from n.values
            elif isinstance(n, ast.UnaryOp) and isinstance(n.op, ast.Not):
                yield n.operand

    n_fns = 0
    for fi in [*counters.methods.values(), *models.classes["BatchResult"].methods.values(), *cex.methods.values()]:
        if isinstance(fi.node, ast.Lambda):
            continue
        n_fns += 1
        for e in bool_positions(fi.node):
            nm = e.attr if isinstance(e, ast.Attribute) else (e.id if isinstance(e, ast.Name) else None)
            if nm in opt_numeric and (fn_construct(fi), nm) not in ACCEPTED_TRUTHINESS:
                ck.ob("R3.threshold-zero-is-not-unset", fn_construct(fi), False,
                      f"`{ast.unparse(e)}` is tested by truthiness: a configured threshold of 0 is treated like an unconfigured one", where=f"line {e.lineno}", cell=nm)
    ck.ob("R3.threshold-zero-is-not-unset", fn_construct(sc), True, f"{n_fns} policy functions scanned for {sorted(opt_numeric)}")

    # R5 the policy decision has priority over suspension ----------------------------------------------
    from sa.protocol import done_callback_traces
    fn_dc, dtr = done_callback_traces(pm)
    bad = []
    # (two facts about execute() decide how strict the done-callback has to be: when execute() looks at the policy again before it honours a recorded
    # suspension, the ORDER in which the callback asks "suspend?" and "complete?" cannot change the outcome; when both writes of an outcome and the decision
    # share one critical section, the order of the two writes cannot be observed by a decider)
    facts = _round_h3_rules(ck, prog)
    n_dec = 0
    for t in dtr:
        d = dict(t.pc)
        sc_dec = d.get("counters.should_complete()")
        susp = [e for e in t.events if e.kind == "SETATTR" and e.data["attr"] == "_suspend_exception"]
        done_set = t.kinds("COMPLETION_SET")
        res = [e for e in t.events if e.kind == "RESULT"]
        oc = res[0].data["outcome"] if res else "cancelled"
        if oc in ("BackgroundThreadError", "OrphanedChildException", "cancelled") or t.outcome == "raise":
            continue  # not branch outcomes: fatal error, orphan, or a future cancelled after the operation was already decided
        n_dec += 1
        if sc_dec is None:
            if not (susp and done_set and facts["second_look"]):
                bad.append((f"a branch ends ({oc}) and the completion policy is not consulted", t))
        elif sc_dec is True:
            if not done_set:
                bad.append((f"the policy is decided when a branch ends ({oc}) but the waiting call is not released", t))
            if susp and not facts["second_look"]:
                bad.append((f"the policy is decided when a branch ends ({oc}) yet a suspension is raised instead of returning the batch result", t))
        else:
            if susp and d.get("should_execution_suspend()") is not True:
                bad.append(("a suspension is recorded although the suspend decision said no", t))
            if done_set and not susp:
                bad.append(("the waiting call is released although the policy is undecided and nothing suspends", t))
    # every way a branch can end is booked on the right counter and branch state
    want = {"return": ("complete", "complete_task"), "Exception*": ("fail", "fail_task"),
            "SuspendExecution": ("suspend", None), "TimedSuspendExecution": ("suspend_with_timeout", None)}
    badb = []
    for t in dtr:
        res = [e for e in t.events if e.kind == "RESULT"]
        oc = res[0].data["outcome"] if res else "cancelled"
        if oc not in want or t.outcome == "raise":
            continue
        st_calls = [e.data["method"] for e in t.events if e.kind == "BRANCH"]
        cnt_calls = [e.data["method"] for e in t.events if e.kind == "COUNTER"]
        ws, wc = want[oc]
        if st_calls[:1] != [ws]:
            badb.append((f"a branch ending with {oc} is booked as {st_calls[:1]} (expected {ws})", t))
        if cnt_calls != ([wc] if wc else []):
            badb.append((f"a branch ending with {oc} updates the counters via {cnt_calls} (expected {[wc] if wc else []})", t))
        # ... and in this order: the policy is decided from the counters by whichever done-callback runs next, and the waiting call builds the result from
        # the branch states - a counted outcome whose branch state still says RUNNING is reported STARTED although it decided the policy (r6_C09)
        bi = next((i for i, e in enumerate(t.events) if e.kind == "BRANCH"), None)
        ci_ = next((i for i, e in enumerate(t.events) if e.kind == "COUNTER"), None)
        if bi is not None and ci_ is not None and ci_ < bi and not facts["one_section"]:
            badb.append((f"a branch ending with {oc} is counted ({cnt_calls[0]}) BEFORE its state is published ({st_calls[0]}): a sibling's done-callback running in "
                         "between sees the policy decided and releases the caller, which reports this branch STARTED - without its result / error - although its "
                         "outcome is what decided the policy (ALL_COMPLETED with a STARTED item; a fail-fast batch without a failure)", t))
        if oc == "return":
            e0 = next((e for e in t.events if e.kind == "BRANCH"), None)
            if e0 is None or e0.data["args"][:1] != ["branch_result"]:
                badb.append(("the branch's result is not what is stored for it", t))
    ck.ob("R1.branch-outcome-bookkeeping", fn_construct(fn_dc), not badb, badb[0][0] if badb else "")
    ck.floor("branch_end_decisions", n_dec, 6)
    ck.ob("R5.policy-decision-before-suspension", fn_construct(fn_dc), not bad,
          (bad[0][0] + " | " + "; ".join(f"{k}->{v}" for k, v in bad[0][1].pc)) if bad else f"{n_dec} branch-end paths")

    # R4 the wait can end ----------------------------------------------------------------------------
    def self_factory(it, state):
        o = Obj(cex, label="cexec")
        o.fields.update(executables=SeqVal("list", []), max_concurrency=Sym("cexec.max_concurrency", TypeRef(prim="int", optional=True)),
                        completion_config=Sym("cc"), _completion_event=Sym("cexec._completion_event", TypeRef(prim="ext:threading.Event")),
                        counters=Sym("cexec.counters", TypeRef(classes=(counters.fq,))))
        return o

    def kw(it, state):
        return {"execution_state": state, "executor_context": Sym("executor_context", TypeRef(classes=(prog.cls("context", "DurableContext").fq,)))}

    def h_pool(it, a, k, n):
        mw = k.get("max_workers", a[0] if a else NONE)
        it.emit("POOL", n, max_workers=mw.key(), zero=isinstance(mw, Const) and mw.value == 0)
        return Sym("pool", TypeRef(prim="ext:ThreadPoolExecutor"))

    def h_wait(it, recv, a, k, n):
        if "_completion_event" in recv.key():
            it.emit("COMPLETION_WAIT", n, bounded=bool(a) or "timeout" in k)
            return Const(True)
        return NotImplemented

    ts = prog.cls("concurrency.executor", "TimerScheduler")
    hooks = {ts.methods["__init__"].fq: (lambda it, f, sv, a, k, n: NONE)}
    trs = pm.run_function(ex, self_factory, kw, cell=("execute", "empty"), extra_hooks=hooks,
                          ext_calls={"concurrent.futures.ThreadPoolExecutor": h_pool}, ext_method_hooks={"wait": h_wait})
    bad = []
    for t in trs:
        if any(e.data["zero"] for e in t.kinds("POOL")):
            bad.append(("with no items a thread pool of size 0 is requested (ValueError: max_workers must be greater than 0)", t))
        if any(not e.data["bounded"] for e in t.kinds("COMPLETION_WAIT")):
            bad.append(("with no items execute() blocks on the completion event although no task exists that could set it", t))
    ck.floor("empty_input_traces", len(trs), 1)
    ck.ob("R4.empty-input-terminates", fn_construct(ex), not bad, bad[0][0] if bad else f"{len(trs)} paths")

    # R1 on replay: the rebuilt batch has exactly one item per input, in input order, whatever the children's recorded status
    from sa.protocol import ABSENT
    f_replay, f_item = cex.methods.get("replay"), cex.methods.get("_execute_item_in_child_context")
    if not (f_replay and f_item):
        raise AnalysisError("ConcurrentExecutor.replay/_execute_item_in_child_context not found")
    n_rp = 0
    for st in (ABSENT, *[s_ for s_ in pm.statuses if s_ != ABSENT]):
        def h_item(it, fn, sv, a, k, n):
            return Sym("item_result")

        def self_factory_r(it, state):
            o = Obj(cex, label="cexec")
            exs = []
            for i in range(2):
                e = Obj(exe_cls, label=f"exe{i}")
                e.fields.update(index=Sym(f"exe{i}.index", TypeRef(prim="int")), func=Sym(f"exe{i}.func"))
                exs.append(e)
            o.fields.update(executables=SeqVal("list", exs), completion_config=Sym("cc"))
            return o

        def kw_r(it, state):
            return {"execution_state": state, "executor_context": Sym("executor_context", TypeRef(classes=(prog.cls("context", "DurableContext").fq,)))}

        trs = pm.run_function(f_replay, self_factory_r, kw_r, cell=("replay2", st), status=st, optype="CONTEXT", extra_hooks={f_item.fq: h_item})
        badr = []
        for t in trs:
            n_rp += 1
            v = t.value if t.outcome == "return" else None
            items = v.fields.get("all") if isinstance(v, Obj) else None
            idx = [bi.fields.get("index", NONE).key() if isinstance(bi, Obj) else "?" for bi in items.items] if isinstance(items, SeqVal) else None
            if idx != ["exe0.index", "exe1.index"]:
                badr.append((f"two inputs whose children are recorded as {st}: the replayed batch has items {idx if idx is not None else (v.key() if v else t.exc_class())} "
                             "(expected one per input, in input order)", t))
        ck.ob("R1.replay-item-per-input", fn_construct(f_replay), not badr and trs, (badr[0][0] + ": " + trace_sig(badr[0][1])[-300:]) if badr else "", cell=st)
    ck.floor("replay_paths", n_rp, 7)
    # The first delivery reports the branch states *at decision time*; replay() reads the children's records, which can still advance after the
    # decision (a branch that finishes while the parent's completion record is in flight passes the orphan guard and is recorded as finished).
    # For "the same batch result is delivered when the call is replayed" one of two things is necessary: the executor fences its descendants
    # before it takes the snapshot, or replay() bounds what it reads by something recorded with the parent (the decision-time statuses).
    sc9 = prog.cls("state", "ExecutionState")

    def reaches_marking(mname, seen=None):
        seen = seen or set()
        if mname in seen or mname not in sc9.methods:
            return False
        seen.add(mname)
        if mname in ("create_checkpoint", "create_checkpoint_sync"):
            return False  # marks only when it is handed the completion record itself - that is the record whose acceptance comes too late
        from sa.common import self_method_calls as _smc
        callees = {c_ for _, c_ in _smc(sc9.methods[mname].node)}
        if "_mark_orphans" in callees:
            return True
        return any(reaches_marking(c_, seen) for c_ in callees)

    ex_fn = cex.methods["execute"]
    fenced = False
    seen_wait = False
    for n_ in ast.walk(ex_fn.node):
        if isinstance(n_, ast.Call) and isinstance(n_.func, ast.Attribute):
            if n_.func.attr == "wait" and "_completion_event" in ast.unparse(n_.func.value):
                seen_wait = True
            if isinstance(n_.func.value, ast.Name) and n_.func.value.id == "execution_state" and reaches_marking(n_.func.attr):
                fenced = True
    reads_parent = any(isinstance(n_, ast.Call) and isinstance(n_.func, ast.Attribute) and n_.func.attr == "get_checkpoint_result"
                       and n_.args and "_parent_id" in ast.unparse(n_.args[0]) for n_ in ast.walk(f_replay.node))
    ck.ob("R1.replay-bounded-by-decision-snapshot", fn_construct(f_replay), fenced or reads_parent,
          "execute() takes its snapshot of the branch states without fencing the branches first, and replay() rebuilds the items from the children's records alone: a "
          "branch that finishes after the decision but before the parent's completion record is accepted is STARTED in the first delivery and SUCCEEDED/FAILED in "
          "every replay (ReplayChildren mode)")

    # mixed histories: every item carries what was recorded for *its own* child (nothing carries over from a neighbour)
    from sa.interp import SpecialObj
    import itertools as _it
    n_mixed = 0
    badm = []
    for combo in _it.product(("SUCCEEDED", "FAILED", "STARTED", ABSENT), repeat=2):
        def kw_m(it, state, combo=combo):
            calls = []

            def ops_get(interp, args, kwargs, node):
                i = len(calls)
                calls.append(args[0].key() if args else "?")
                stn = combo[i] if i < len(combo) else ABSENT
                interp.emit("READ", node, gen="0.0", status=stn, id=calls[-1])
                if stn == ABSENT:
                    return NONE
                op = Obj(pm.op_cls, label=f"rec{i}")
                op.fields["status"] = EnumVal(pm.status_cls.fq, stn, pm.status_cls.enum_members[stn])
                op.fields["operation_type"] = EnumVal(pm.optype_cls.fq, "CONTEXT", pm.optype_cls.enum_members["CONTEXT"])
                return op

            state.fields["operations"] = SpecialObj("state.operations", {"get": ops_get})
            return {"execution_state": state, "executor_context": Sym("executor_context", TypeRef(classes=(prog.cls("context", "DurableContext").fq,)))}

        def h_item_m(it, fn, sv, a, k, n):
            ex_ = a[1] if len(a) > 1 else k.get("executable")
            return Sym(f"value_of<{ex_.key() if ex_ is not None else '?'}>")

        trs = pm.run_function(f_replay, self_factory_r, kw_m, cell=("replay-mixed", "/".join(combo)), status=ABSENT, optype="CONTEXT",
                              extra_hooks={f_item.fq: h_item_m}, loop_iters=2)
        for t in trs:
            n_mixed += 1
            v = t.value if t.outcome == "return" else None
            items = v.fields.get("all") if isinstance(v, Obj) else None
            if not (isinstance(items, SeqVal) and len(items.items) == 2 and all(isinstance(x, Obj) for x in items.items)):
                continue  # judged by R1.replay-item-per-input
            for i, (bi, stn) in enumerate(zip(items.items, combo)):
                rk, ek = bi.fields.get("result", NONE).key(), bi.fields.get("error", NONE).key()
                want_r = "exe%d" % i if stn == "SUCCEEDED" else "None"
                if (want_r == "None") != (rk == "None") or (want_r != "None" and want_r not in rk):
                    badm.append(f"children recorded {list(combo)}: item {i} carries result {rk} (expected {'its own value' if stn == 'SUCCEEDED' else 'none'})")
                no_err = any(kk.startswith(f"rec{i}.") and kk.endswith("is None") and vv is True for kk, vv in t.pc)
                if stn == "FAILED":
                    if f"rec{i}" not in ek and not no_err:
                        badm.append(f"children recorded {list(combo)}: item {i} carries error {ek} (expected the one recorded for it)")
                elif ek != "None":
                    badm.append(f"children recorded {list(combo)}: item {i} ({stn}) carries error {ek}")
    ck.floor("mixed_replay_paths", n_mixed, 16)
    ck.ob("R1.replay-item-carries-own-outcome", fn_construct(f_replay), not badm, "; ".join(badm[:2]) or f"{n_mixed} paths over 16 status pairs")
    _publication_order(ck, prog)
    return ck


def _round_h3_rules(ck, prog):
    """Two structural rules from review round h3 (h3_C09 #2, #3)."""
    cex = prog.cls("concurrency.executor", "ConcurrentExecutor")
    ex = cex.methods["execute"]
    # R5 a suspend verdict recorded by a done-callback may be overtaken by a decision: a finishing branch publishes its state before it is counted, a sibling
    # that suspends in between sees "policy undecided" and "nothing running" and records a suspension. execute() has to look at the policy again before it
    # honours the suspension - otherwise parallel([waits_for_callback, quick], min_successful=1) answers PENDING although its policy is decided.
    raises = [r for r in ast.walk(ex.node) if isinstance(r, ast.Raise) and r.exc is not None and "_suspend_exception" in ast.unparse(r.exc)]
    ck.floor("suspension_raises_in_execute", len(raises), 1)
    par = {}
    for n in ast.walk(ex.node):
        for c in ast.iter_child_nodes(n):
            par[id(c)] = n
    # local names in the test stand for what they were assigned (`decided = self.counters.should_complete()` ... `if ... and not decided`)
    loc_defs = {}
    for st in ast.walk(ex.node):
        if isinstance(st, ast.Assign) and len(st.targets) == 1 and isinstance(st.targets[0], ast.Name):
            loc_defs.setdefault(st.targets[0].id, []).append(st.value)

    def expanded(test):
        t_ = ast.unparse(test)
        for nm in {n.id for n in ast.walk(test) if isinstance(n, ast.Name)}:
            if len(loc_defs.get(nm, [])) == 1:
                t_ = re.sub(rf"\b{nm}\b", "(" + ast.unparse(loc_defs[nm][0]) + ")", t_)
        return t_
    all_guarded = bool(raises)
    for r in raises:
        cur, guarded = par.get(id(r)), False
        while cur is not None and not guarded:
            if isinstance(cur, ast.If) and any(r is x for b in cur.body for x in ast.walk(b)):
                t = expanded(cur.test)
                # a CONJUNCT of the test is the negated policy: `suspended and not decided` - with `or` the suspension is raised whenever one was recorded
                conj = cur.test.values if isinstance(cur.test, ast.BoolOp) and isinstance(cur.test.op, ast.And) else ([cur.test] if not isinstance(cur.test, ast.BoolOp) else [])
                def neg_policy(c_):
                    # an odd number of `not` around an expression that (through local names) is the policy call
                    par_n = 0
                    while isinstance(c_, ast.UnaryOp) and isinstance(c_.op, ast.Not):
                        par_n += 1
                        c_ = c_.operand
                    if isinstance(c_, ast.Name) and len(loc_defs.get(c_.id, [])) == 1:
                        inner = loc_defs[c_.id][0]
                        while isinstance(inner, ast.UnaryOp) and isinstance(inner.op, ast.Not):
                            par_n += 1
                            inner = inner.operand
                        c_ = inner
                    return par_n % 2 == 1 and isinstance(c_, ast.Call) and any(w in ast.unparse(c_.func) for w in ("should_complete", "is_complete"))
                guarded = any(neg_policy(c_) for c_ in conj)
            cur = par.get(id(cur))
        all_guarded = all_guarded and guarded
        ck.ob("R5.decided-policy-overrules-a-recorded-suspension", fn_construct(ex), guarded,
              "execute() raises the suspension a done-callback recorded without looking at the completion policy again: a branch that finished while a sibling "
              "was recording its suspension (state published, not yet counted) has decided the operation, which nevertheless answers PENDING", where=f"line {r.lineno}")
    # R5 one outcome, two places: a finishing branch writes its state (exe_state.complete / fail) and the counters (complete_task / fail_task). A sibling's
    # done-callback that takes the complete-or-suspend decision between the two writes sees "nothing running" AND "policy undecided" and records a
    # suspension; execute(), woken by it, reads the counters before the second write as well (g2_orphan2 #1: the re-check above narrows the window, it does
    # not close it - parallel([waits_for_callback, quick], min_successful=1) answers PENDING with `quick` recorded SUCCEEDED). Necessary: both writes of a
    # pair, the decision in the done-callback and execute()'s second look all happen inside critical sections of ONE lock.
    otc = cex.methods.get("_on_task_complete")
    if otc is None:
        raise AnalysisError("ConcurrentExecutor._on_task_complete not found")

    def lock_regions(fn_node):
        # {lock expression text: [statements of the with-bodies]}
        out = {}
        for w in ast.walk(fn_node):
            if isinstance(w, ast.With):
                for it in w.items:
                    out.setdefault(ast.unparse(it.context_expr), []).append(w)
        return out

    def inside(region_withs, node):
        return any(node is x for w in region_withs for b in w.body for x in ast.walk(b))
    regs = lock_regions(otc.node)
    calls = [c for c in ast.walk(otc.node) if isinstance(c, ast.Call) and isinstance(c.func, ast.Attribute)]
    pairs_ = []
    for state_m, count_m in (("complete", "complete_task"), ("fail", "fail_task")):
        a_ = [c for c in calls if c.func.attr == state_m and "counters" not in ast.unparse(c.func.value)]
        b_ = [c for c in calls if c.func.attr == count_m]
        if not a_ or not b_:
            raise AnalysisError(f"_on_task_complete: no {state_m}/{count_m} pair found")
        pairs_.append((state_m, a_ + b_))
    decision = [c for c in calls if c.func.attr in ("should_complete", "should_execution_suspend")]
    if len(decision) < 2:
        raise AnalysisError("_on_task_complete: complete-or-suspend decision not found")
    ck.floor("outcome_write_pairs", len(pairs_), 2)
    common_locks = [lk for lk, ws in regs.items() if all(all(inside(ws, c) for c in cs) for _m, cs in pairs_) and all(inside(ws, c) for c in decision)]
    # each pair must sit in ONE region (not two separate `with` of the same lock)
    one_region = [lk for lk in common_locks if all(any(all(inside([w], c) for c in cs) for w in regs[lk]) for _m, cs in pairs_)
                  and any(all(inside([w], c) for c in decision) for w in regs[lk])]
    ex_regs = lock_regions(ex.node)
    second_look = [c for c in ast.walk(ex.node) if isinstance(c, ast.Call) and isinstance(c.func, ast.Attribute) and c.func.attr in ("should_complete", "is_complete", "should_continue")]
    ex_ok = [lk for lk in one_region if lk in ex_regs and second_look and all(inside(ex_regs[lk], c) for c in second_look)]
    ck.analysed["decision_lock"] = ex_ok or one_region or common_locks
    ck.ob("R5.outcome-published-and-counted-in-one-critical-section", fn_construct(otc), bool(ex_ok),
          ("state and counter of a finishing branch are written, and the complete-or-suspend decision is taken, without a common lock" if not common_locks else
           f"{common_locks} is taken separately around the two writes of a pair / around the two reads of the decision" if not one_region else
           f"execute() takes its second look at the policy outside {one_region}") +
          ": a sibling that suspends between the two writes records a suspension for an operation that is already decided; it answers PENDING although e.g. "
          "min_successful is reached and recorded" if not ex_ok else f"lock {ex_ok}")
    # R2 "returns exactly when its completion policy is decided": in a re-invocation part of the decision is already on record - branches an earlier
    # invocation finished. They are counted only when a pool worker gets round to traversing them again (queue order, max_concurrency), so a decided call
    # keeps waiting behind a running branch, and a finished branch can be delivered as STARTED. Necessary: execute() consults the records before it submits.
    facts = {"second_look": all_guarded, "one_section": bool(ex_ok)}
    looks = any(isinstance(n, ast.Attribute) and n.attr in ("get_checkpoint_result", "operations") for n in ast.walk(ex.node))
    ck.ob("R2.recorded-branch-outcomes-are-counted-before-submission", fn_construct(ex), looks,
          "execute() starts every invocation with fresh counters and never looks at the branch records: a branch recorded SUCCEEDED / FAILED by an earlier "
          "invocation counts only once a pool worker re-traverses it (in queue order, under max_concurrency). With max_concurrency=1, min_successful=2, branch 2 "
          "recorded and branch 0 succeeding now, the call is decided but waits for the worker that is inside branch 1 - for as long as that branch runs")
    return facts


def _publication_order(ck, prog):
    """R1.payload-published-before-status (h2_C09 #1): a branch finishes in a pool thread while the caller - woken by an early decision - builds the
    result from the branch states, reading `status` and then `.result` / `.error`. The getters refuse (InvalidStateError) while the payload field is
    unset although the status says COMPLETED / FAILED, and the caller records that error as the outcome of the whole map/parallel. Nothing but program
    order protects the pair, so a transition must write the payload fields first and publish the status last."""
    ews = prog.cls("concurrency.models", "ExecutableWithState")
    # (status member, payload fields) pairs from the getters: a property that raises unless `self._status` is <member> and tests / returns other fields
    pairs: dict[str, set[str]] = {}
    for name, fi in ews.methods.items():
        if not any(isinstance(d, ast.Name) and d.id == "property" for d in fi.node.decorator_list):
            continue
        members, fields = set(), set()
        for n in ast.walk(fi.node):
            if isinstance(n, ast.Compare) and isinstance(n.left, ast.Attribute) and n.left.attr == "_status" and len(n.ops) == 1 \
                    and isinstance(n.ops[0], (ast.NotEq, ast.IsNot)) and isinstance(n.comparators[0], ast.Attribute):
                members.add(n.comparators[0].attr)
            elif isinstance(n, ast.Attribute) and isinstance(n.value, ast.Name) and n.value.id == "self" and n.attr.startswith("_") and n.attr != "_status":
                fields.add(n.attr)
        raises = any(isinstance(n, ast.Raise) for n in ast.walk(fi.node))
        if raises and len(members) == 1 and fields:
            pairs.setdefault(next(iter(members)), set()).update(fields)
    ck.analysed["status_guarded_payloads"] = {k: sorted(v) for k, v in sorted(pairs.items())}
    ck.floor("status_guarded_payload_pairs", len(pairs), 2)
    n_tr = 0
    for member, fields in sorted(pairs.items()):
        for name, fi in ews.methods.items():
            body = [st for st in fi.node.body if not (isinstance(st, ast.Expr) and isinstance(st.value, ast.Constant))]
            pos_status = [i for i, st in enumerate(body) if isinstance(st, ast.Assign) and any(
                isinstance(t, ast.Attribute) and t.attr == "_status" for t in st.targets) and isinstance(st.value, ast.Attribute) and st.value.attr == member]
            if not pos_status:
                # a status write that is not a top-level statement of the method is not understood
                if any(isinstance(n, ast.Assign) and any(isinstance(t, ast.Attribute) and t.attr == "_status" for t in n.targets)
                       and isinstance(n.value, ast.Attribute) and n.value.attr == member for n in ast.walk(fi.node)):
                    raise AnalysisError(f"{ews.name}.{name}: status {member} is assigned in a nested statement")
                continue
            n_tr += 1
            written = {}
            for i, st in enumerate(body):
                for n in ast.walk(st):
                    if isinstance(n, (ast.Assign, ast.AnnAssign, ast.AugAssign)):
                        for t in (n.targets if isinstance(n, ast.Assign) else [n.target]):
                            if isinstance(t, ast.Attribute) and isinstance(t.value, ast.Name) and t.value.id == "self" and t.attr in fields:
                                written.setdefault(t.attr, []).append(i)
            late = sorted(f for f, ps in written.items() if max(ps) > pos_status[0])
            missing = sorted(fields - set(written))
            ck.ob("R1.payload-published-before-status", fn_construct(fi), not late and not missing,
                  (f"`self._status = BranchStatus.{member}` is written before {late}: a caller woken by an early decision that sees {member} and reads the "
                   "payload in that window gets InvalidStateError, which is recorded as the FAILURE of the whole map/parallel although no branch failed"
                   if late else f"the transition to {member} does not set {missing}"), cell=member)
    ck.floor("status_publishing_transitions", n_tr, 2)
    # ... and the transition the done-callback calls for an outcome lands in the status whose getter hands that outcome out: complete() in the status the
    # `result` property requires, fail() in the one `error` requires (the model records these calls as events and never looks inside them)
    def required_by(prop):
        fi_ = ews.methods.get(prop)
        if fi_ is None:
            raise AnalysisError(f"ExecutableWithState.{prop} not found")
        return {n.comparators[0].attr for n in ast.walk(fi_.node) if isinstance(n, ast.Compare) and isinstance(n.left, ast.Attribute) and n.left.attr == "_status"
                and isinstance(n.comparators[0], ast.Attribute)}

    def lands_in(mname):
        fi_ = ews.methods.get(mname)
        if fi_ is None:
            raise AnalysisError(f"ExecutableWithState.{mname} not found")
        return {st.value.attr for st in ast.walk(fi_.node) if isinstance(st, ast.Assign) and any(isinstance(t, ast.Attribute) and t.attr == "_status" for t in st.targets)
                and isinstance(st.value, ast.Attribute)}, fi_
    for mname, prop in (("complete", "result"), ("fail", "error")):
        got, fi_ = lands_in(mname)
        ck.ob("R1.transition-lands-in-the-status-its-payload-is-read-from", fn_construct(fi_), got == required_by(prop) and len(got) == 1,
              f"{mname}() lands in {sorted(got)}, the `{prop}` property hands the payload out in {sorted(required_by(prop))} only: the branch's outcome is reported as "
              "something else (or reading it raises InvalidStateError, recorded as the failure of the whole map/parallel)", cell=mname)


def _is_none(v):
    return v is None or (isinstance(v, Const) and v.value is None)


if __name__ == "__main__":
    main(PID, build)
