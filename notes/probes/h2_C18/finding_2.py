"""C18 finding 2: the wrapper raises (= asks Lambda for a retry) for an error the SDK has just
recorded as a terminal, non-retriable failure; the retried invocation then returns FAILED.

Two ways to get there, both without any fault injection:

 (a) SDK-internal.  A step with AT_MOST_ONCE_PER_RETRY semantics is found STARTED in the history
     (the previous invocation died while the step function ran) and the retry strategy says "no
     more retries".  StepOperationExecutor.retry_handler() checkpoints FAIL for the step and then
     re-raises the StepInterruptedError (`if isinstance(error, StepInterruptedError): raise error`).
     StepInterruptedError derives from InvocationError, so the wrapper's `except InvocationError:
     raise` arm throws it out of the handler.  The invocation that Lambda starts as a retry finds
     the step FAILED and ends with Status FAILED.

 (b) Documented user pattern (docs/advanced/error-handling.md: "InvocationError ... Causes Lambda
     to retry by throwing from the handler ... Use for transient issues") inside a child context.
     ChildOperationExecutor.execute() checkpoints FAIL for the context *and* re-raises the
     InvocationError "such that we reach the execution handler at the very top, which will then
     induce a retry".  The retry replays the FAILED context and ends with Status FAILED, so the
     transient error became a permanent failure and the retry could never do anything.

Property C18: "it raises only for errors that must trigger a Lambda retry ...; ordinary user
exceptions and non-retriable SDK errors become FAILED" - every invocation must have ONE correctly
classified outcome.  Here one and the same error is classified "retry the invocation" by the
invocation that met it and "FAILED, final" by the SDK's own durable record, which is what the
very next invocation reports.  Either nothing terminal must be recorded (then raising is right),
or the outcome of the first invocation must already be FAILED.

Run:  PYTHONPATH=/tmp/wt/h2_C18/src /venv/bin/python finding_2.py      (exits non-zero on the current code)
"""

from __future__ import annotations

import datetime
import sys
import threading
from dataclasses import replace

from aws_durable_execution_sdk_python.config import StepConfig, StepSemantics
from aws_durable_execution_sdk_python.context import DurableContext
from aws_durable_execution_sdk_python.exceptions import InvocationError
from aws_durable_execution_sdk_python.execution import (
    DurableExecutionInvocationInputWithClient,
    InitialExecutionState,
    durable_execution,
)
from aws_durable_execution_sdk_python.lambda_service import (
    CheckpointOutput,
    CheckpointUpdatedExecutionState,
    ContextDetails,
    ExecutionDetails,
    Operation,
    OperationAction,
    OperationStatus,
    OperationType,
    StateOutput,
    StepDetails,
)
from aws_durable_execution_sdk_python.retries import RetryPresets


class Backend:
    """Minimal in-memory durable-functions backend: records checkpoints, replays them as history."""

    def __init__(self):
        self.ops: dict[str, Operation] = {
            "exec": Operation(
                operation_id="exec",
                operation_type=OperationType.EXECUTION,
                status=OperationStatus.STARTED,
                execution_details=ExecutionDetails(input_payload="{}"),
            )
        }
        self.updates = []

    def checkpoint(self, durable_execution_arn, checkpoint_token, updates, client_token):
        now = datetime.datetime.now(tz=datetime.UTC)
        changed = []
        for u in updates:
            self.updates.append(u)
            old = self.ops.get(u.operation_id)
            assert old is None or old.status not in (OperationStatus.SUCCEEDED, OperationStatus.FAILED), (
                f"update for terminal operation {u.operation_id}"
            )
            op = old or Operation(
                operation_id=u.operation_id,
                operation_type=u.operation_type,
                status=OperationStatus.STARTED,
                parent_id=u.parent_id,
                name=u.name,
                sub_type=u.sub_type,
                start_timestamp=now,
            )
            attempt = op.step_details.attempt if op.step_details else 0
            if u.action is OperationAction.START:
                op = replace(op, status=OperationStatus.STARTED)
                if u.operation_type is OperationType.STEP:
                    op = replace(op, step_details=StepDetails(attempt=attempt))
            elif u.action is OperationAction.SUCCEED:
                op = replace(op, status=OperationStatus.SUCCEEDED, end_timestamp=now)
                if u.operation_type is OperationType.STEP:
                    op = replace(op, step_details=StepDetails(attempt=attempt, result=u.payload))
                else:
                    op = replace(op, context_details=ContextDetails(result=u.payload))
            elif u.action is OperationAction.FAIL:
                op = replace(op, status=OperationStatus.FAILED, end_timestamp=now)
                if u.operation_type is OperationType.STEP:
                    op = replace(op, step_details=StepDetails(attempt=attempt, error=u.error))
                else:
                    op = replace(op, context_details=ContextDetails(error=u.error))
            elif u.action is OperationAction.RETRY:
                op = replace(
                    op,
                    status=OperationStatus.PENDING,
                    step_details=StepDetails(attempt=attempt + 1, error=u.error, next_attempt_timestamp=now),
                )
            self.ops[op.operation_id] = op
            changed.append(op)
        return CheckpointOutput(
            checkpoint_token="t",  # noqa: S106
            new_execution_state=CheckpointUpdatedExecutionState(operations=changed),
        )

    def get_execution_state(self, *args, **kwargs):
        return StateOutput(operations=[], next_marker=None)

    def event(self):
        return DurableExecutionInvocationInputWithClient(
            durable_execution_arn="arn:test",
            checkpoint_token="t",  # noqa: S106
            initial_execution_state=InitialExecutionState(operations=list(self.ops.values()), next_marker=""),
            service_client=self,
        )


def invoke(handler, backend):
    wrapped = durable_execution(handler)
    box: dict = {}

    def target():
        try:
            box["returned"] = wrapped(backend.event(), None)
        except BaseException as e:  # noqa: BLE001
            box["raised"] = e

    t = threading.Thread(target=target, daemon=True)
    t.start()
    t.join(60)
    assert not t.is_alive(), "wrapper did not return within 60 s"
    return box


def describe(box):
    return f"raised {box['raised']!r}" if "raised" in box else f"returned {box['returned']}"


def terminal_records(backend, since):
    return [
        (u.operation_type.value, u.action.value, u.name)
        for u in backend.updates[since:]
        if u.action in (OperationAction.FAIL, OperationAction.SUCCEED)
    ]


def check(label, first, recorded, retry):
    """first = invocation that met the error, retry = the invocation Lambda starts because `first` raised."""
    print(f"[{label}] invocation that meets the error : {describe(first)}")
    print(f"[{label}] terminal records it wrote          : {recorded}")
    print(f"[{label}] the Lambda retry it asked for      : {describe(retry)}")
    if "raised" in first and recorded and retry.get("returned", {}).get("Status") == "FAILED":
        return (
            f"{label}: the wrapper raised {type(first['raised']).__name__} (Lambda retry) after recording "
            f"{recorded}; the retry can only replay that record and returns FAILED - the error was "
            f"not one that 'must trigger a Lambda retry', the first outcome should have been FAILED"
        )
    return None


def scenario_a():
    """AT_MOST_ONCE step interrupted, retries exhausted."""
    executed = []
    config = StepConfig(
        step_semantics=StepSemantics.AT_MOST_ONCE_PER_RETRY,
        retry_strategy=RetryPresets.none(),
    )

    def handler(event, context: DurableContext):
        return context.step(lambda _c: executed.append(1) or "charged", name="charge-card", config=config)

    backend = Backend()
    # History as the backend holds it after the first sandbox died inside the step function:
    # the START record of the step was persisted (at-most-once => synchronous START), nothing else.
    step_id = None
    probe = Backend()
    invoke(handler, probe)  # only to learn the deterministic operation id of the step
    step_id = next(i for i, o in probe.ops.items() if o.operation_type is OperationType.STEP)
    executed.clear()
    backend.ops[step_id] = Operation(
        operation_id=step_id,
        operation_type=OperationType.STEP,
        status=OperationStatus.STARTED,
        name="charge-card",
        step_details=StepDetails(attempt=0),
    )
    first = invoke(handler, backend)
    recorded = terminal_records(backend, 0)
    since = len(backend.updates)
    retry = invoke(handler, backend)
    assert not executed, "the step function must not run again"
    assert not terminal_records(backend, since), "the retry only replays"
    return check("a: interrupted at-most-once step", first, recorded, retry)


def scenario_b():
    """InvocationError ("transient, let Lambda retry") raised by user code inside a child context."""
    state = {"service_up": False}

    def body(child: DurableContext):
        token = child.step(lambda _c: "token", name="prepare")
        if not state["service_up"]:
            raise InvocationError("Service unavailable")  # the documented way to ask for a Lambda retry
        return token

    def handler(event, context: DurableContext):
        return context.run_in_child_context(body, name="call-service")

    backend = Backend()
    first = invoke(handler, backend)
    recorded = [r for r in terminal_records(backend, 0) if r[1] == "FAIL"]
    state["service_up"] = True  # the transient problem is over when Lambda retries
    retry = invoke(handler, backend)
    return check("b: InvocationError inside a child context", first, recorded, retry)


def main() -> int:
    problems = [p for p in (scenario_a(), scenario_b()) if p]
    assert not problems, "C18 violated:\n  " + "\n  ".join(problems)
    print("no violation")
    return 0


if __name__ == "__main__":
    sys.exit(main())
