"""C18 finding 1: a read timeout of the checkpoint call makes the wrapper raise AttributeError.

The SDK configures its boto3 client with read_timeout=50, so botocore raises ReadTimeoutError when a
CheckpointDurableExecution call takes too long (ConnectionClosedError behaves the same). Both derive
from botocore's HTTPClientError, whose instances carry `response = None`.

LambdaClient.checkpoint() classifies every exception with CheckpointError.from_exception(), which
starts with BotoClientError.from_exception():

    response = getattr(exception, "response", {})
    response_metadata = response.get("ResponseMetadata")      # <- None.get -> AttributeError

The AttributeError escapes from the `except` block of LambdaClient.checkpoint(), the background
thread wraps it in BackgroundThreadError, and the wrapper re-raises the source exception because it
is not a CheckpointError.

Property C18: the wrapper "raises only for errors that must trigger a Lambda retry (retriable
checkpoint/invocation errors) or for a malformed invocation payload ... non-retriable SDK errors
become FAILED ... for all checkpoint error categories at any point".
An error without HTTP status is category INVOCATION for this SDK (tests/exceptions_test.py::
test_checkpoint_error_classification_unknown_invocation), is_retriable() is False, so the expected
outcome is {"Status": "FAILED", "Error": {... CheckpointError ...}} - exactly what happens for
botocore's EndpointConnectionError, which has no `response` attribute (control run below).

Run:  PYTHONPATH=/tmp/wt/h2_C18/src /venv/bin/python finding_1.py      (exits non-zero on the current code)
"""

from __future__ import annotations

import sys
import threading

import botocore.exceptions

from aws_durable_execution_sdk_python.context import DurableContext
from aws_durable_execution_sdk_python.exceptions import CheckpointError, InvocationError
from aws_durable_execution_sdk_python.execution import durable_execution

EVENT = {
    "DurableExecutionArn": "arn:aws:lambda:eu-west-1:123456789012:function:f:1/durable-execution/x/y",
    "CheckpointToken": "token-0",
    "InitialExecutionState": {
        "Operations": [
            {
                "Id": "exec",
                "Type": "EXECUTION",
                "Status": "STARTED",
                "ExecutionDetails": {"InputPayload": "{}"},
            }
        ],
        "NextMarker": "",
    },
}


class BotoLambdaStub:
    """Stands in for boto3.client("lambda"): the checkpoint call fails the way botocore fails."""

    def __init__(self, error: Exception):
        self.error = error
        self.calls = 0

    def checkpoint_durable_execution(self, **_kwargs):
        self.calls += 1
        raise self.error

    def get_durable_execution_state(self, **_kwargs):  # pragma: no cover - not reached
        raise AssertionError("not expected")


def handler(event, context: DurableContext):
    # perfectly ordinary workflow: one step
    return context.step(lambda _ctx: "done", name="only-step")


def run(error: Exception):
    """Returns ("returned", dict) or ("raised", exception); fails on a hang."""
    stub = BotoLambdaStub(error)
    wrapped = durable_execution(handler, boto3_client=stub)
    box: dict = {}

    def target():
        try:
            box["returned"] = wrapped(EVENT, None)
        except BaseException as e:  # noqa: BLE001
            box["raised"] = e

    t = threading.Thread(target=target, daemon=True)
    t.start()
    t.join(30)
    assert not t.is_alive(), "wrapper did not return within 30 s"
    assert stub.calls >= 1, "the checkpoint call was never made"
    return ("raised", box["raised"]) if "raised" in box else ("returned", box["returned"])


def allowed_to_raise(exc: BaseException) -> bool:
    if isinstance(exc, CheckpointError):
        return exc.is_retriable()
    return isinstance(exc, InvocationError)


def main() -> int:
    # control: a connection failure without `response` attribute is classified as designed
    kind, value = run(botocore.exceptions.EndpointConnectionError(endpoint_url="https://lambda"))
    print("control  EndpointConnectionError ->", kind, value if kind == "returned" else repr(value))
    assert kind == "returned" and value["Status"] == "FAILED", (
        "control changed: an unclassifiable checkpoint failure is expected to become FAILED"
    )
    assert value["Error"]["ErrorType"] == "CheckpointError"

    failures = []
    for error in (
        botocore.exceptions.ReadTimeoutError(endpoint_url="https://lambda"),
        botocore.exceptions.ConnectionClosedError(endpoint_url="https://lambda"),
    ):
        kind, value = run(error)
        print(f"subject  {type(error).__name__} ->", kind, value if kind == "returned" else repr(value))
        if kind == "raised" and not allowed_to_raise(value):
            failures.append(
                f"{type(error).__name__} on the checkpoint call: the wrapper raised "
                f"{type(value).__name__}({value}) - neither a retriable CheckpointError nor an "
                f"InvocationError; expected Status FAILED with a CheckpointError error object"
            )
        elif kind == "returned" and value.get("Status") != "FAILED":
            failures.append(f"{type(error).__name__}: unexpected outcome {value}")

    assert not failures, "C18 violated:\n  " + "\n  ".join(failures)
    print("no violation")
    return 0


if __name__ == "__main__":
    sys.exit(main())
