"""C18 finding 3: an ordinary user exception (an Exception subclass) whose str() fails makes the
wrapper raise instead of returning FAILED.

The `except Exception` arm of the wrapper ("all user-space errors go here") builds the error object
with ErrorObject.from_exception(e) -> `message=str(exception)`.  For an exception class whose
__str__ returns a non-string (the classic `def __str__(self): return self.message` with message
None / an int / a dict) or raises itself, str() raises TypeError (or whatever __str__ raised).
That happens inside the `except` block, nothing catches it, and the TypeError leaves the wrapper:
Lambda sees a crashed invocation and retries it, the retry crashes the same way.

Property C18: "For any handler behaviour the wrapper either returns a dict ... or raises - and it
raises only for errors that must trigger a Lambda retry ... Ordinary user exceptions ... become
FAILED.  Must hold for ... all exception classes raised by user code".
(This is a subclass of Exception, not the known BaseException-only case.)

The same exception raised inside a step or a child context is reported as FAILED (control runs
below) - only because from_exception() blows up one level further down and the *secondary*
TypeError is then an ordinary exception for the wrapper; the top-level arm has no such net.

Run:  PYTHONPATH=/tmp/wt/h2_C18/src /venv/bin/python finding_3.py      (exits non-zero on the current code)
"""

from __future__ import annotations

import sys
import threading

from aws_durable_execution_sdk_python.context import DurableContext
from aws_durable_execution_sdk_python.exceptions import CheckpointError, InvocationError
from aws_durable_execution_sdk_python.execution import (
    DurableExecutionInvocationInputWithClient,
    InitialExecutionState,
    durable_execution,
)
from aws_durable_execution_sdk_python.lambda_service import (
    CheckpointOutput,
    CheckpointUpdatedExecutionState,
    ExecutionDetails,
    Operation,
    OperationStatus,
    OperationType,
    StateOutput,
)


class ApiError(Exception):
    """A very common way to write an application exception."""

    def __init__(self, message=None, status=None):
        super().__init__()
        self.message = message
        self.status = status

    def __str__(self):
        return self.message  # None when only a status is given -> str(e) raises TypeError


class Client:
    def checkpoint(self, durable_execution_arn, checkpoint_token, updates, client_token):
        ops = [
            Operation(
                operation_id=u.operation_id,
                operation_type=u.operation_type,
                status=OperationStatus.STARTED,
                parent_id=u.parent_id,
                name=u.name,
            )
            for u in updates
        ]
        return CheckpointOutput(
            checkpoint_token="t",  # noqa: S106
            new_execution_state=CheckpointUpdatedExecutionState(operations=ops),
        )

    def get_execution_state(self, *args, **kwargs):
        return StateOutput(operations=[], next_marker=None)


def invoke(handler):
    event = DurableExecutionInvocationInputWithClient(
        durable_execution_arn="arn:test",
        checkpoint_token="t",  # noqa: S106
        initial_execution_state=InitialExecutionState(
            operations=[
                Operation(
                    operation_id="exec",
                    operation_type=OperationType.EXECUTION,
                    status=OperationStatus.STARTED,
                    execution_details=ExecutionDetails(input_payload="{}"),
                )
            ],
            next_marker="",
        ),
        service_client=Client(),
    )
    wrapped = durable_execution(handler)
    box: dict = {}

    def target():
        try:
            box["returned"] = wrapped(event, None)
        except BaseException as e:  # noqa: BLE001
            box["raised"] = e

    t = threading.Thread(target=target, daemon=True)
    t.start()
    t.join(60)
    assert not t.is_alive(), "wrapper did not return within 60 s"
    return box


def call_service():
    raise ApiError(status=503)


def handler_top_level(event, context: DurableContext):
    context.step(lambda _c: "prepared", name="prepare")
    call_service()  # plain user code between durable operations


def handler_in_step(event, context: DurableContext):
    return context.step(lambda _c: call_service(), name="call")


def handler_in_child(event, context: DurableContext):
    return context.run_in_child_context(lambda _child: call_service(), name="child")


def main() -> int:
    for control in (handler_in_step, handler_in_child):
        box = invoke(control)
        print(f"control {control.__name__}: {box}")
        assert box.get("returned", {}).get("Status") == "FAILED", f"control changed: {box}"

    box = invoke(handler_top_level)
    print(f"subject handler_top_level: {box}")
    if "raised" in box:
        exc = box["raised"]
        permitted = (isinstance(exc, CheckpointError) and exc.is_retriable()) or (
            isinstance(exc, InvocationError) and not isinstance(exc, CheckpointError)
        )
        assert permitted, (
            "C18 violated: the handler raised an ordinary Exception subclass (ApiError) and the wrapper "
            f"raised {type(exc).__name__}({exc}) instead of returning Status FAILED with an error object"
        )
    else:
        assert box["returned"]["Status"] == "FAILED" and "Error" in box["returned"], box
    print("no violation")
    return 0


if __name__ == "__main__":
    sys.exit(main())
