"""In-memory fake backend + driver for the durable_execution wrapper (scratch tooling for C18 hunt)."""

from __future__ import annotations

import datetime
import json
import threading
import time
import traceback
from dataclasses import replace
from typing import Any

from aws_durable_execution_sdk_python import state as state_mod
from aws_durable_execution_sdk_python.exceptions import (
    CheckpointError,
    CheckpointErrorCategory,
    InvocationError,
)
from aws_durable_execution_sdk_python.execution import (
    DurableExecutionInvocationInputWithClient,
    InitialExecutionState,
    durable_execution,
)
from aws_durable_execution_sdk_python.lambda_service import (
    CallbackDetails,
    ChainedInvokeDetails,
    CheckpointOutput,
    CheckpointUpdatedExecutionState,
    ContextDetails,
    ErrorObject,
    ExecutionDetails,
    Operation,
    OperationAction,
    OperationStatus,
    OperationType,
    StateOutput,
    StepDetails,
    WaitDetails,
)

UTC = datetime.UTC

# speed: shrink the batching window (test-only knob; the constructor argument is public)
_orig_init = state_mod.ExecutionState.__init__


def fast_batching(seconds: float = 0.02):
    def patched(self, *a, **kw):
        if kw.get("batcher_config") is None:
            kw["batcher_config"] = state_mod.CheckpointBatcherConfig(
                max_batch_time_seconds=seconds
            )
        _orig_init(self, *a, **kw)

    state_mod.ExecutionState.__init__ = patched


class Backend:
    """Records checkpoints and plays them back as history."""

    def __init__(self, input_payload: str | None = '{"k": 1}', page_size: int | None = None):
        self.ops: dict[str, Operation] = {}
        self.order: list[str] = []
        self.lock = threading.Lock()
        self.calls: list[list] = []
        self.fail_at: dict[int, Exception] = {}  # call index -> exception
        self.call_index = 0
        self.page_size = page_size
        self.token = 0
        self.execution_result = None
        self._put(
            Operation(
                operation_id="exec-0",
                operation_type=OperationType.EXECUTION,
                status=OperationStatus.STARTED,
                execution_details=ExecutionDetails(input_payload=input_payload),
            )
        )
        self.cb_counter = 0
        self.auto_tick = False

    def _put(self, op: Operation):
        if op.operation_id not in self.ops:
            self.order.append(op.operation_id)
        self.ops[op.operation_id] = op

    # --- service client protocol
    def checkpoint(self, durable_execution_arn, checkpoint_token, updates, client_token):
        with self.lock:
            idx = self.call_index
            self.call_index += 1
            self.calls.append(list(updates))
            if idx in self.fail_at:
                raise self.fail_at[idx]
            changed = []
            now = datetime.datetime.now(tz=UTC)
            if self.auto_tick:
                for oid in list(self.order):
                    op = self.ops[oid]
                    if (op.operation_type is OperationType.WAIT and op.status is OperationStatus.STARTED
                            and op.wait_details and op.wait_details.scheduled_end_timestamp <= now):
                        new = replace(op, status=OperationStatus.SUCCEEDED, end_timestamp=now)
                        self._put(new); changed.append(new)
                    elif (op.operation_type is OperationType.STEP and op.status is OperationStatus.PENDING
                            and op.step_details and op.step_details.next_attempt_timestamp <= now):
                        new = replace(op, status=OperationStatus.READY)
                        self._put(new); changed.append(new)
            for u in updates:
                old = self.ops.get(u.operation_id)
                if u.operation_type is OperationType.EXECUTION:
                    self.execution_result = u
                    continue
                if old is not None and old.status in (
                    OperationStatus.SUCCEEDED,
                    OperationStatus.FAILED,
                ):
                    raise CheckpointError(
                        f"update for terminal operation {u.operation_id} {u.action}",
                        CheckpointErrorCategory.INVOCATION,
                    )
                base = old or Operation(
                    operation_id=u.operation_id,
                    operation_type=u.operation_type,
                    status=OperationStatus.STARTED,
                    parent_id=u.parent_id,
                    name=u.name,
                    sub_type=u.sub_type,
                    start_timestamp=now,
                )
                attempt = base.step_details.attempt if base.step_details else 0
                if u.action is OperationAction.START:
                    new = replace(base, status=OperationStatus.STARTED)
                    if u.operation_type is OperationType.CALLBACK:
                        self.cb_counter += 1
                        new = replace(
                            new,
                            callback_details=CallbackDetails(callback_id=f"cb-{self.cb_counter}"),
                        )
                    if u.operation_type is OperationType.WAIT:
                        new = replace(
                            new,
                            wait_details=WaitDetails(
                                scheduled_end_timestamp=now
                                + datetime.timedelta(seconds=u.wait_options.wait_seconds)
                            ),
                        )
                    if u.operation_type is OperationType.STEP:
                        new = replace(
                            new,
                            step_details=StepDetails(
                                attempt=attempt,
                                result=base.step_details.result if base.step_details else None,
                            ),
                        )
                    if u.operation_type is OperationType.CHAINED_INVOKE:
                        new = replace(new, chained_invoke_details=ChainedInvokeDetails())
                elif u.action is OperationAction.SUCCEED:
                    new = replace(base, status=OperationStatus.SUCCEEDED, end_timestamp=now)
                    if u.operation_type is OperationType.STEP:
                        new = replace(new, step_details=StepDetails(attempt=attempt, result=u.payload))
                    elif u.operation_type is OperationType.CONTEXT:
                        new = replace(
                            new,
                            context_details=ContextDetails(
                                replay_children=bool(
                                    u.context_options and u.context_options.replay_children
                                ),
                                result=u.payload,
                            ),
                        )
                elif u.action is OperationAction.FAIL:
                    new = replace(base, status=OperationStatus.FAILED, end_timestamp=now)
                    if u.operation_type is OperationType.STEP:
                        new = replace(new, step_details=StepDetails(attempt=attempt, error=u.error))
                    elif u.operation_type is OperationType.CONTEXT:
                        new = replace(new, context_details=ContextDetails(error=u.error))
                elif u.action is OperationAction.RETRY:
                    delay = u.step_options.next_attempt_delay_seconds if u.step_options else 0
                    new = replace(
                        base,
                        status=OperationStatus.PENDING,
                        step_details=StepDetails(
                            attempt=attempt + 1,
                            next_attempt_timestamp=now + datetime.timedelta(seconds=delay or 0),
                            result=u.payload,
                            error=u.error,
                        ),
                    )
                else:
                    raise CheckpointError("bad action", CheckpointErrorCategory.INVOCATION)
                self._put(new)
                changed.append(new)
            self.token += 1
            return CheckpointOutput(
                checkpoint_token=f"tok-{self.token}",
                new_execution_state=CheckpointUpdatedExecutionState(operations=changed),
            )

    def get_execution_state(self, durable_execution_arn, checkpoint_token, next_marker, max_items=1000):
        start = int(next_marker)
        ops = [self.ops[i] for i in self.order]
        page = ops[start : start + self.page_size]
        nxt = start + self.page_size
        return StateOutput(operations=page, next_marker=str(nxt) if nxt < len(ops) else None)

    # --- driver helpers
    def make_event(self):
        ops = [self.ops[i] for i in self.order]
        marker = ""
        if self.page_size and len(ops) > self.page_size:
            marker = str(self.page_size)
            ops = ops[: self.page_size]
        return DurableExecutionInvocationInputWithClient(
            durable_execution_arn="arn:test",
            checkpoint_token=f"tok-{self.token}",
            initial_execution_state=InitialExecutionState(operations=ops, next_marker=marker),
            service_client=self,
        )

    def advance(self, callback_results: dict | None = None, invoke_results: dict | None = None):
        """Simulate the passing of time: waits end, retries become READY, callbacks/invokes complete."""
        now = datetime.datetime.now(tz=UTC)
        for oid in list(self.order):
            op = self.ops[oid]
            if op.operation_type is OperationType.WAIT and op.status is OperationStatus.STARTED:
                self._put(replace(op, status=OperationStatus.SUCCEEDED, end_timestamp=now))
            elif op.operation_type is OperationType.STEP and op.status is OperationStatus.PENDING:
                self._put(replace(op, status=OperationStatus.READY))
            elif op.operation_type is OperationType.CALLBACK and op.status is OperationStatus.STARTED:
                self._put(
                    replace(
                        op,
                        status=OperationStatus.SUCCEEDED,
                        callback_details=CallbackDetails(
                            callback_id=op.callback_details.callback_id, result='"cbres"'
                        ),
                    )
                )
            elif (
                op.operation_type is OperationType.CHAINED_INVOKE
                and op.status is OperationStatus.STARTED
            ):
                self._put(
                    replace(
                        op,
                        status=OperationStatus.SUCCEEDED,
                        chained_invoke_details=ChainedInvokeDetails(result='"invres"'),
                    )
                )


class Outcome:
    def __init__(self):
        self.returned = None
        self.raised: BaseException | None = None
        self.hung = False
        self.leftover_threads: list[str] = []
        self.tb = ""

    def __repr__(self):
        if self.hung:
            return "Outcome(HUNG)"
        if self.raised is not None:
            return f"Outcome(raised {type(self.raised).__name__}: {str(self.raised)[:100]})"
        r = dict(self.returned) if isinstance(self.returned, dict) else self.returned
        if isinstance(r, dict) and isinstance(r.get("Result"), str) and len(r["Result"]) > 80:
            r["Result"] = r["Result"][:80] + "..."
        return f"Outcome(returned {r}) leftover={self.leftover_threads}"


def invoke(handler, backend: Backend, timeout: float = 20.0, lambda_context: Any = None) -> Outcome:
    out = Outcome()
    wrapped = durable_execution(handler)
    event = backend.make_event()

    def run():
        try:
            out.returned = wrapped(event, lambda_context)
        except BaseException as e:  # noqa: BLE001
            out.raised = e
            out.tb = traceback.format_exc()

    t = threading.Thread(target=run, daemon=True)
    t.start()
    t.join(timeout)
    if t.is_alive():
        out.hung = True
        return out
    time.sleep(0.01)
    out.leftover_threads = [
        th.name for th in threading.enumerate() if th.name.startswith("dex-handler") and th.is_alive()
    ]
    return out


def check_wellformed(out: Outcome) -> list[str]:
    """Return list of C18 violations for one invocation outcome (without knowledge of injected faults)."""
    v = []
    if out.hung:
        return ["invocation did not end (hang)"]
    if out.leftover_threads:
        v.append(f"threads alive after return: {out.leftover_threads}")
    if out.raised is not None:
        e = out.raised
        ok = False
        if isinstance(e, CheckpointError):
            ok = e.is_retriable()
        elif isinstance(e, InvocationError):
            ok = True
        if not ok:
            v.append(f"raised non-retriable {type(e).__name__}: {e}")
        return v
    r = out.returned
    if not isinstance(r, dict):
        return [f"returned non-dict {r!r}"]
    try:
        json.dumps(r)
    except Exception as e:  # noqa: BLE001
        v.append(f"returned dict not JSON serializable: {e}")
    st = r.get("Status")
    if st == "SUCCEEDED":
        if "Error" in r:
            v.append("SUCCEEDED with Error")
        if not isinstance(r.get("Result"), str):
            v.append("SUCCEEDED without str Result")
        elif r["Result"] != "":
            try:
                json.loads(r["Result"])
            except Exception as e:  # noqa: BLE001
                v.append(f"SUCCEEDED Result not JSON: {e}")
    elif st == "FAILED":
        if "Result" in r:
            v.append("FAILED with Result")
    elif st == "PENDING":
        if "Result" in r or "Error" in r:
            v.append("PENDING with Result/Error")
    else:
        v.append(f"bad Status {st!r}")
    return v


def run_to_end(handler, backend: Backend, max_invocations: int = 12, timeout: float = 20.0):
    outs = []
    for _ in range(max_invocations):
        out = invoke(handler, backend, timeout)
        outs.append(out)
        if out.hung or out.raised is not None:
            break
        if out.returned.get("Status") != "PENDING":
            break
        backend.advance()
    return outs
