"""Scratch harness: in-memory backend + helpers to drive the real SDK code."""

from __future__ import annotations

import datetime
import json
import threading
import time
from concurrent.futures import ThreadPoolExecutor

from aws_durable_execution_sdk_python.context import DurableContext
from aws_durable_execution_sdk_python.execution import (
    DurableExecutionInvocationInputWithClient,
    InitialExecutionState,
    durable_execution,
)
from aws_durable_execution_sdk_python.lambda_service import (
    CallbackDetails,
    CheckpointOutput,
    CheckpointUpdatedExecutionState,
    ContextDetails,
    ExecutionDetails,
    Operation,
    OperationAction,
    OperationStatus,
    OperationType,
    StateOutput,
    StepDetails,
    WaitDetails,
)
from aws_durable_execution_sdk_python.state import (
    CheckpointBatcherConfig,
    ExecutionState,
    ReplayStatus,
)

UTC = datetime.UTC


class FakeBackend:
    def __init__(self, payload="{}"):
        self.lock = threading.RLock()
        self.ops: dict[str, Operation] = {}
        self.ops["exec"] = Operation(
            operation_id="exec",
            operation_type=OperationType.EXECUTION,
            status=OperationStatus.STARTED,
            execution_details=ExecutionDetails(input_payload=payload),
        )
        self.log: list = []  # (time, update)
        self.token = 0
        self.cb = 0
        self.on_update = None  # hook(update) called before applying
        self.fail_on = None  # predicate(update) -> raise

    # --- service client protocol
    def checkpoint(self, durable_execution_arn, checkpoint_token, updates, client_token=None):
        with self.lock:
            touched = []
            for u in updates:
                if self.on_update:
                    self.on_update(u)
                self.log.append((time.time(), u))
                self._apply(u)
                touched.append(u.operation_id)
            self._promote()
            self.token += 1
            # echo everything (simple, like a full state refresh)
            ops = list(self.ops.values())
            return CheckpointOutput(
                checkpoint_token=f"t{self.token}",
                new_execution_state=CheckpointUpdatedExecutionState(operations=ops),
            )

    def get_execution_state(self, durable_execution_arn, checkpoint_token, next_marker, max_items=1000):
        return StateOutput(operations=[], next_marker=None)

    # --- state machine
    def _apply(self, u):
        old = self.ops.get(u.operation_id)
        now = datetime.datetime.now(tz=UTC)
        base = dict(
            operation_id=u.operation_id,
            operation_type=u.operation_type,
            parent_id=u.parent_id,
            name=u.name,
            sub_type=u.sub_type,
            start_timestamp=old.start_timestamp if old else now,
        )
        t = u.operation_type
        a = u.action
        if t is OperationType.CONTEXT:
            if a is OperationAction.START:
                op = Operation(status=OperationStatus.STARTED, **base)
            elif a is OperationAction.SUCCEED:
                op = Operation(
                    status=OperationStatus.SUCCEEDED,
                    end_timestamp=now,
                    context_details=ContextDetails(
                        replay_children=bool(u.context_options and u.context_options.replay_children),
                        result=u.payload if u.payload else None,
                    ),
                    **base,
                )
            else:
                op = Operation(
                    status=OperationStatus.FAILED,
                    end_timestamp=now,
                    context_details=ContextDetails(error=u.error),
                    **base,
                )
        elif t is OperationType.STEP:
            attempt = old.step_details.attempt if old and old.step_details else 0
            if a is OperationAction.START:
                op = Operation(status=OperationStatus.STARTED, step_details=StepDetails(attempt=attempt), **base)
            elif a is OperationAction.SUCCEED:
                op = Operation(
                    status=OperationStatus.SUCCEEDED,
                    end_timestamp=now,
                    step_details=StepDetails(attempt=attempt + 1, result=u.payload),
                    **base,
                )
            elif a is OperationAction.FAIL:
                op = Operation(
                    status=OperationStatus.FAILED,
                    end_timestamp=now,
                    step_details=StepDetails(attempt=attempt + 1, error=u.error),
                    **base,
                )
            else:  # RETRY
                delay = u.step_options.next_attempt_delay_seconds if u.step_options else 1
                op = Operation(
                    status=OperationStatus.PENDING,
                    step_details=StepDetails(
                        attempt=attempt + 1,
                        next_attempt_timestamp=now + datetime.timedelta(seconds=delay),
                        result=u.payload,
                        error=u.error,
                    ),
                    **base,
                )
        elif t is OperationType.WAIT:
            secs = u.wait_options.wait_seconds if u.wait_options else 1
            op = Operation(
                status=OperationStatus.STARTED,
                wait_details=WaitDetails(scheduled_end_timestamp=now + datetime.timedelta(seconds=secs)),
                **base,
            )
        elif t is OperationType.CALLBACK:
            self.cb += 1
            op = Operation(
                status=OperationStatus.STARTED,
                callback_details=CallbackDetails(callback_id=f"cb-{self.cb}-{u.operation_id[:6]}"),
                **base,
            )
        elif t is OperationType.EXECUTION:
            return
        else:
            op = Operation(status=OperationStatus.STARTED, **base)
        self.ops[u.operation_id] = op

    def _promote(self):
        now = datetime.datetime.now(tz=UTC)
        for k, op in list(self.ops.items()):
            if (
                op.operation_type is OperationType.WAIT
                and op.status is OperationStatus.STARTED
                and op.wait_details
                and op.wait_details.scheduled_end_timestamp <= now
            ):
                self.ops[k] = _replace(op, status=OperationStatus.SUCCEEDED, end_timestamp=now)
            if (
                op.operation_type is OperationType.STEP
                and op.status is OperationStatus.PENDING
                and op.step_details.next_attempt_timestamp <= now
            ):
                self.ops[k] = _replace(op, status=OperationStatus.READY)

    def force_time_pass(self):
        """Complete all waits / pending retries irrespective of time."""
        with self.lock:
            for k, op in list(self.ops.items()):
                if op.operation_type is OperationType.WAIT and op.status is OperationStatus.STARTED:
                    self.ops[k] = _replace(op, status=OperationStatus.SUCCEEDED)
                if op.operation_type is OperationType.STEP and op.status is OperationStatus.PENDING:
                    self.ops[k] = _replace(op, status=OperationStatus.READY)

    def complete_callback(self, callback_id, result=None, error=None):
        with self.lock:
            for k, op in self.ops.items():
                if op.callback_details and op.callback_details.callback_id == callback_id:
                    self.ops[k] = _replace(
                        op,
                        status=OperationStatus.FAILED if error else OperationStatus.SUCCEEDED,
                        callback_details=CallbackDetails(callback_id=callback_id, result=result, error=error),
                    )
                    return
            raise KeyError(callback_id)

    def callbacks(self):
        with self.lock:
            return [op.callback_details.callback_id for op in self.ops.values() if op.callback_details]

    def history(self):
        with self.lock:
            self._promote()
            return list(self.ops.values())

    def by_name(self, name):
        with self.lock:
            return [op for op in self.ops.values() if op.name == name]


def _replace(op, **kw):
    import dataclasses

    return dataclasses.replace(op, **kw)


def invoke(handler, backend: FakeBackend, timeout=30):
    """One Lambda invocation of `handler(event, ctx)` through the real wrapper."""
    wrapped = durable_execution(handler)
    ev = DurableExecutionInvocationInputWithClient(
        durable_execution_arn="arn:x",
        checkpoint_token=f"t{backend.token}",
        initial_execution_state=InitialExecutionState(operations=backend.history(), next_marker=""),
        service_client=backend,
    )
    out = {}

    def run():
        try:
            out["r"] = wrapped(ev, None)
        except BaseException as e:  # noqa: BLE001
            out["e"] = e

    t = threading.Thread(target=run, daemon=True)
    t.start()
    t.join(timeout)
    if t.is_alive():
        raise TimeoutError("invocation hung")
    if "e" in out:
        raise out["e"]
    return out["r"]


class Direct:
    """Direct ExecutionState + DurableContext with a fast batcher."""

    def __init__(self, backend: FakeBackend | None = None, batch_time=0.0):
        self.backend = backend or FakeBackend()
        hist = self.backend.history()
        self.state = ExecutionState(
            durable_execution_arn="arn:x",
            initial_checkpoint_token="t0",
            operations={op.operation_id: op for op in hist},
            service_client=self.backend,
            batcher_config=CheckpointBatcherConfig(max_batch_time_seconds=batch_time),
            replay_status=ReplayStatus.REPLAY if len(hist) > 1 else ReplayStatus.NEW,
        )
        self.pool = ThreadPoolExecutor(max_workers=1)
        self.fut = self.pool.submit(self.state.checkpoint_batches_forever)
        self.ctx = DurableContext.from_lambda_context(state=self.state, lambda_context=None)

    def close(self):
        self.state.stop_checkpointing()
        self.pool.shutdown(wait=False)

    def __enter__(self):
        return self

    def __exit__(self, *a):
        self.close()


def run_with_timeout(fn, timeout=20):
    out = {}

    def run():
        try:
            out["r"] = fn()
        except BaseException as e:  # noqa: BLE001
            out["e"] = e

    t = threading.Thread(target=run, daemon=True)
    t.start()
    t.join(timeout)
    if t.is_alive():
        return ("hang", None)
    if "e" in out:
        return ("exc", out["e"])
    return ("ok", out["r"])


def show(br):
    return (br.completion_reason.value, [(i.index, i.status.value, i.result, i.error.message if i.error else None) for i in br.all])
