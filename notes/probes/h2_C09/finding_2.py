"""C09 finding 2 (same root cause as the known "min_successful only" item, different trigger and symptom):
a map with the DEFAULT configuration - ctx.map(items, f) / MapConfig() / CompletionConfig() /
CompletionConfig.all_completed() - stops at the first failing item, leaves the other items STARTED and
reports FAILURE_TOLERANCE_EXCEEDED although no failure tolerance was configured.

Clause violated: "returns exactly when its completion policy is decided (all branches finished, minimum
successes reached, or failure tolerance exceeded)" and "the reported completion reason is consistent with
... the policy".  The policy of the default configuration is documented as
    docs/core/map.md: "CompletionConfig() - Default, allows any number of failures"
    docs/core/map.md: "By default, the map operation continues processing other items."
    docs/core/parallel.md: "all_completed() - Waits for branches to complete ..."
    config.py CompletionConfig: "tolerated_failure_count ... If None, no limit on failure count."

Code: concurrency/models.py ExecutionCounters.should_continue() returns `failure_count == 0` when neither
tolerance is set, and BatchResult._get_completion_reason() labels that FAILURE_TOLERANCE_EXCEEDED for an
empty configuration.

Run:  PYTHONPATH=src python finding_2.py     (exits non-zero on the current code)
"""

from __future__ import annotations

import sys
import threading
from concurrent.futures import ThreadPoolExecutor

from aws_durable_execution_sdk_python.concurrency.models import (
    BatchItemStatus,
    CompletionReason,
)
from aws_durable_execution_sdk_python.config import CompletionConfig, MapConfig, ParallelConfig
from aws_durable_execution_sdk_python.context import DurableContext
from aws_durable_execution_sdk_python.lambda_service import (
    CheckpointOutput,
    CheckpointUpdatedExecutionState,
    ContextDetails,
    Operation,
    OperationAction,
    OperationStatus,
    StateOutput,
)
from aws_durable_execution_sdk_python.state import (
    CheckpointBatcherConfig,
    ExecutionState,
)


class FakeBackend:
    def __init__(self):
        self.lock = threading.Lock()
        self.ops: dict[str, Operation] = {}

    def checkpoint(self, durable_execution_arn, checkpoint_token, updates, client_token=None):
        with self.lock:
            for u in updates:
                status = {
                    OperationAction.START: OperationStatus.STARTED,
                    OperationAction.SUCCEED: OperationStatus.SUCCEEDED,
                    OperationAction.FAIL: OperationStatus.FAILED,
                }[u.action]
                self.ops[u.operation_id] = Operation(
                    operation_id=u.operation_id,
                    operation_type=u.operation_type,
                    status=status,
                    parent_id=u.parent_id,
                    name=u.name,
                    sub_type=u.sub_type,
                    context_details=ContextDetails(result=u.payload, error=u.error),
                )
            return CheckpointOutput(
                checkpoint_token="t",
                new_execution_state=CheckpointUpdatedExecutionState(operations=list(self.ops.values())),
            )

    def get_execution_state(self, durable_execution_arn, checkpoint_token, next_marker, max_items=1000):
        return StateOutput(operations=[], next_marker=None)


def run(call):
    """Run `call(ctx, release_event)` against a fresh state; returns the BatchResult."""
    backend = FakeBackend()
    state = ExecutionState(
        durable_execution_arn="arn:test",
        initial_checkpoint_token="t0",
        operations={},
        service_client=backend,
        batcher_config=CheckpointBatcherConfig(max_batch_time_seconds=0.0),
    )
    bg = ThreadPoolExecutor(max_workers=1)
    bg.submit(state.checkpoint_batches_forever)
    ctx = DurableContext.from_lambda_context(state=state, lambda_context=None)
    slow_may_finish = threading.Event()
    out = {}

    def target():
        try:
            out["r"] = call(ctx, slow_may_finish)
        except BaseException as e:  # noqa: BLE001
            out["e"] = e

    t = threading.Thread(target=target, daemon=True)
    t.start()
    # give the call 1.5 s while the slow branches are still blocked ...
    t.join(1.5)
    returned_early = not t.is_alive()
    # ... then let the slow branches finish
    slow_may_finish.set()
    t.join(10)
    state.stop_checkpointing()
    bg.shutdown(wait=False)
    assert not t.is_alive(), "call hung"
    if "e" in out:
        raise out["e"]
    return out["r"], returned_early


def describe(r):
    return r.completion_reason.value, [i.status.value for i in r.all]


def main() -> int:
    problems = []

    def map_body(ctx, release, config):
        def f(child, item, index, items):
            if index == 0:
                raise ValueError("item 0 is bad")
            release.wait(10)  # items 1 and 2 are still running when item 0 fails
            return item * 10

        return ctx.map([1, 2, 3], f, config=config)

    cases = {
        "ctx.map(items, f)  [no config]": lambda c, e: map_body(c, e, None),
        "MapConfig()": lambda c, e: map_body(c, e, MapConfig()),
        "MapConfig(completion_config=CompletionConfig.all_completed())": lambda c, e: map_body(
            c, e, MapConfig(completion_config=CompletionConfig.all_completed())
        ),
    }

    def parallel_body(ctx, release):
        def bad(child):
            raise ValueError("branch 0 is bad")

        def slow(child):
            release.wait(10)
            return "ok"

        return ctx.parallel([bad, slow, slow], config=ParallelConfig(completion_config=CompletionConfig.all_completed()))

    cases["ParallelConfig(completion_config=CompletionConfig.all_completed())"] = parallel_body

    for name, call in cases.items():
        result, returned_early = run(call)
        print(f"{name}: returned_before_slow_branches_finished={returned_early} -> {describe(result)}")
        expected = (
            CompletionReason.ALL_COMPLETED,
            [BatchItemStatus.FAILED, BatchItemStatus.SUCCEEDED, BatchItemStatus.SUCCEEDED],
        )
        got = (result.completion_reason, [i.status for i in result.all])
        if returned_early or got != expected:
            problems.append(
                f"{name}: no failure tolerance and no minimum is configured ('allows any number of failures'), so the "
                f"policy is decided only when all 3 branches have finished; but the call returned "
                f"{'while 2 branches were still running' if returned_early else 'late'} with {describe(result)}"
            )

    assert not problems, "VIOLATION:\n  " + "\n  ".join(problems)
    print("OK")
    return 0


if __name__ == "__main__":
    sys.exit(main())
