"""Brute force of completion policy vs. oracle, gated completion order."""

from __future__ import annotations

import itertools
import sys
import threading
import time

from hx import Direct, FakeBackend, run_with_timeout, show

from aws_durable_execution_sdk_python.concurrency.models import BatchItemStatus
from aws_durable_execution_sdk_python.config import CompletionConfig, MapConfig
from aws_durable_execution_sdk_python.lambda_service import OperationAction, OperationType


def oracle(n, cfg, outcomes_in_order):
    """returns (k, reason) : decided after k completions."""
    s = f = 0
    for k, o in enumerate(outcomes_in_order, 1):
        if o == "S":
            s += 1
        else:
            f += 1
        exceeded = False
        if cfg.tolerated_failure_count is not None and f > cfg.tolerated_failure_count:
            exceeded = True
        if cfg.tolerated_failure_percentage is not None and f / n * 100 > cfg.tolerated_failure_percentage:
            exceeded = True
        if exceeded:
            return k, "FAILURE_TOLERANCE_EXCEEDED"
        if s + f == n:
            return k, "ALL_COMPLETED"
        if cfg.min_successful is not None and s >= cfg.min_successful:
            return k, "MIN_SUCCESSFUL_REACHED"
    return len(outcomes_in_order), "ALL_COMPLETED"


def run_case(n, cfg, behaviours, order, use_parallel=False):
    d = Direct()
    gates = [threading.Event() for _ in range(n)]
    try:

        def f(ctx, item, idx, items):
            gates[idx].wait(10)
            if behaviours[idx] == "F":
                raise ValueError(f"boom{idx}")
            return f"r{idx}"

        res = {}

        def call():
            res["r"] = d.ctx.map(list(range(n)), f, config=MapConfig(completion_config=cfg))

        t = threading.Thread(target=lambda: res.setdefault("x", run_with_timeout(call, 15)), daemon=True)
        t.start()
        returned_after = None
        for k, idx in enumerate(order, 1):
            gates[idx].set()
            # wait for terminal record of that branch
            deadline = time.time() + 5
            while time.time() < deadline:
                with d.backend.lock:
                    done = sum(
                        1
                        for _, u in d.backend.log
                        if u.operation_type is OperationType.CONTEXT
                        and u.action in (OperationAction.SUCCEED, OperationAction.FAIL)
                        and u.name
                        and u.name.startswith("map-item-")
                    )
                if done >= k or not t.is_alive():
                    break
                time.sleep(0.002)
            t.join(0.06)
            if not t.is_alive():
                returned_after = k
                break
        for g in gates:
            g.set()
        t.join(10)
        return returned_after, res
    finally:
        d.close()


def main():
    bad = {}
    cfgs = []
    for ms in (None, 1, 2):
        for tc in (None, 0, 1):
            for tp in (None, 0, 50):
                cfgs.append(CompletionConfig(ms, tc, tp))
    total = 0
    for n in (1, 2, 3):
        for cfg in cfgs:
            for beh in itertools.product("SF", repeat=n):
                orders = list(itertools.permutations(range(n))) if n <= 3 else [tuple(range(n))]
                for order in orders:
                    total += 1
                    outcomes = [beh[i] for i in order]
                    k_exp, reason_exp = oracle(n, cfg, outcomes)
                    k_got, res = run_case(n, cfg, beh, order)
                    status, val = res.get("x", ("?", None))
                    br = res.get("r")
                    problems = []
                    if status != "ok" or br is None:
                        problems.append(f"status {status} {val!r}")
                    else:
                        if k_got != k_exp:
                            problems.append(f"returned after {k_got} completions, expected {k_exp}")
                        if br.completion_reason.value != reason_exp:
                            problems.append(f"reason {br.completion_reason.value} expected {reason_exp}")
                        finished = set(order[: (k_got or n)])
                        if [i.index for i in br.all] != list(range(n)):
                            problems.append("order/len")
                        for it in br.all:
                            if it.index in finished:
                                if beh[it.index] == "S":
                                    if it.status is not BatchItemStatus.SUCCEEDED or it.result != f"r{it.index}":
                                        problems.append(f"item{it.index} {it.status} {it.result}")
                                elif it.status is not BatchItemStatus.FAILED or it.error.message != f"boom{it.index}" or it.error.type != "ValueError":
                                    problems.append(f"item{it.index} {it.status} {it.error}")
                            elif it.status is not BatchItemStatus.STARTED:
                                problems.append(f"item{it.index} unfinished but {it.status}")
                    if problems:
                        key = (cfg.min_successful, cfg.tolerated_failure_count, cfg.tolerated_failure_percentage)
                        bad.setdefault(key, []).append((n, "".join(beh), order, problems, show(br) if br else None))
    print("total", total)
    for key, lst in bad.items():
        print("CFG", key, len(lst))
        for x in lst[:4]:
            print("   ", x)


if __name__ == "__main__":
    main()
