"""C09 finding 1: a branch that finishes while the batch result is being built makes the whole
map/parallel FAIL (durably) with InvalidStateError.

Clause violated: "returns exactly when its completion policy is decided ... every item reported
succeeded or failed carries that branch's actual result ... every branch unfinished at decision
time is reported as started" - instead of a BatchResult the call raises, and a FAIL record is
written for the whole map.

Code: concurrency/models.py ExecutableWithState.complete()/fail() publish the new status BEFORE
the result / error (three separate attribute stores, no lock), while
concurrency/executor.py ConcurrentExecutor._create_result() - running in the caller's thread after
an early completion decision - reads `status` and then `.result` / `.error`, whose getters raise
InvalidStateError when the payload is not there yet.

The interleaving (a thread switch between two statements of complete()) is forced here with a
line-trace hook on the pool thread; no SDK code is modified or replaced.

Run:  PYTHONPATH=src python finding_1.py     (exits non-zero on the current code)
"""

from __future__ import annotations

import dataclasses
import datetime
import inspect
import sys
import threading
from concurrent.futures import ThreadPoolExecutor

from aws_durable_execution_sdk_python.concurrency.models import (
    BatchItemStatus,
    ExecutableWithState,
)
from aws_durable_execution_sdk_python.config import CompletionConfig, MapConfig
from aws_durable_execution_sdk_python.context import DurableContext
from aws_durable_execution_sdk_python.lambda_service import (
    CheckpointOutput,
    CheckpointUpdatedExecutionState,
    ContextDetails,
    Operation,
    OperationAction,
    OperationStatus,
    OperationType,
    StateOutput,
)
from aws_durable_execution_sdk_python.state import (
    CheckpointBatcherConfig,
    ExecutionState,
)


class FakeBackend:
    """In-memory stand-in for the durable execution service (records CONTEXT updates)."""

    def __init__(self):
        self.lock = threading.Lock()
        self.ops: dict[str, Operation] = {}
        self.updates = []

    def checkpoint(self, durable_execution_arn, checkpoint_token, updates, client_token=None):
        with self.lock:
            for u in updates:
                self.updates.append(u)
                status = {
                    OperationAction.START: OperationStatus.STARTED,
                    OperationAction.SUCCEED: OperationStatus.SUCCEEDED,
                    OperationAction.FAIL: OperationStatus.FAILED,
                }[u.action]
                self.ops[u.operation_id] = Operation(
                    operation_id=u.operation_id,
                    operation_type=u.operation_type,
                    status=status,
                    parent_id=u.parent_id,
                    name=u.name,
                    sub_type=u.sub_type,
                    context_details=ContextDetails(
                        replay_children=bool(u.context_options and u.context_options.replay_children),
                        result=u.payload,
                        error=u.error,
                    ),
                )
            return CheckpointOutput(
                checkpoint_token="t",
                new_execution_state=CheckpointUpdatedExecutionState(operations=list(self.ops.values())),
            )

    def get_execution_state(self, durable_execution_arn, checkpoint_token, next_marker, max_items=1000):
        return StateOutput(operations=[], next_marker=None)


def main() -> int:
    backend = FakeBackend()
    state = ExecutionState(
        durable_execution_arn="arn:test",
        initial_checkpoint_token="t0",
        operations={},
        service_client=backend,
        batcher_config=CheckpointBatcherConfig(max_batch_time_seconds=0.0),
    )
    bg = ThreadPoolExecutor(max_workers=1)
    bg.submit(state.checkpoint_batches_forever)
    ctx = DurableContext.from_lambda_context(state=state, lambda_context=None)

    # --- forced schedule: pause branch 0 inside ExecutableWithState.complete(), after
    #     `self._status = COMPLETED` and before `self._result = result`
    complete_code = ExecutableWithState.complete.__code__
    src, first = inspect.getsourcelines(ExecutableWithState.complete)
    pause_line = first + next(i for i, l in enumerate(src) if "self._result = result" in l)
    paused = threading.Event()
    release = threading.Event()

    def local_trace(frame, event, arg):
        if event == "line" and frame.f_lineno == pause_line and frame.f_locals["self"].index == 0:
            paused.set()
            release.wait(10)
        return local_trace

    def global_trace(frame, event, arg):
        if event == "call" and frame.f_code is complete_code:
            return local_trace
        return None

    threading.settrace(global_trace)  # applies to the pool threads the executor starts

    def branch(child_ctx, item, index, items):
        if index == 1:
            # finishes while branch 0 is in the middle of publishing its result
            assert paused.wait(10), "test set-up: branch 0 never reached complete()"
        return f"r{index}"

    outcome = {}

    def call():
        try:
            outcome["result"] = ctx.map(
                [0, 1],
                branch,
                config=MapConfig(completion_config=CompletionConfig(min_successful=1, tolerated_failure_count=0)),
            )
        except BaseException as e:  # noqa: BLE001
            outcome["error"] = e

    t = threading.Thread(target=call, daemon=True)
    t.start()
    t.join(15)
    release.set()
    threading.settrace(None)
    state.stop_checkpointing()
    bg.shutdown(wait=False)

    assert not t.is_alive(), "map call hung"

    map_records = [u for u in backend.updates if u.sub_type is not None and u.sub_type.value == "Map"]
    recorded = [(u.action.value, u.error.message if u.error else None) for u in map_records]
    print("map-level records:", recorded)

    assert "error" not in outcome, (
        "VIOLATION: min_successful=1 was reached by branch 1 (no branch failed), but ctx.map() raised "
        f"{type(outcome['error']).__name__}: {outcome['error']!s} - and the map context was recorded as {recorded}"
    )
    result = outcome["result"]
    statuses = [i.status for i in result.all]
    assert statuses[1] is BatchItemStatus.SUCCEEDED and result.all[1].result == "r1", statuses
    assert statuses[0] in (BatchItemStatus.STARTED, BatchItemStatus.SUCCEEDED), statuses
    print("OK", result.completion_reason, statuses)
    return 0


if __name__ == "__main__":
    sys.exit(main())
