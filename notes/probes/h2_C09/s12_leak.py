import threading, time
from hx import Direct, run_with_timeout, show
from aws_durable_execution_sdk_python.config import CompletionConfig, ParallelConfig
with Direct() as d:
    def o0(c):
        return c.map([0, 1], lambda cc, it, i, its: (time.sleep(0.5), cc.step(lambda _: i, name=f"s{i}"))[1]).get_results()
    def o1(c):
        return "quick"
    before = threading.active_count()
    st, val = run_with_timeout(lambda: d.ctx.parallel([o0, o1], config=ParallelConfig(completion_config=CompletionConfig(min_successful=1, tolerated_failure_count=0))), 10)
    print(st, show(val))
    time.sleep(3)
    print("threads before", before, "after 3s", threading.active_count())
    for t in threading.enumerate():
        print("  ", t.name, t.daemon)
import os; os._exit(0)
