"""Systematic schedule exploration of OrderedLock / OrderedCounter (property C19).

The REAL, unmodified methods of aws_durable_execution_sdk_python.threading are executed; only the
primitives they are built on (threading.Lock, threading.Event, and the unlocked read of _is_broken)
are replaced at run time by instrumented equivalents that hand control to a deterministic scheduler
before every visible operation.  Exactly one managed thread runs at any time, so every explored
schedule is a legal sequentially-consistent interleaving of the real code.

Exploration: depth-first over all schedules with a bound on the number of preemptions (CHESS style),
plus random schedules for larger configurations.

Run:  PYTHONPATH=/tmp/wt/h3_C19/src /venv/bin/python /tmp/wt/h3_C19/explore_c19.py
"""

from __future__ import annotations

import random
import sys
import threading as T
import time
from collections import deque

import aws_durable_execution_sdk_python.threading as M
from aws_durable_execution_sdk_python.exceptions import OrderedLockError


class Abort(BaseException):
    pass


class Th:
    def __init__(self, name, fn):
        self.name = name
        self.fn = fn
        self.sem = T.Semaphore(0)
        self.pred = None
        self.finished = False
        self.error = None


class Sched:
    """One managed thread runs at a time; choice points are recorded in self.trace."""

    def __init__(self, prefix=(), rng=None, max_preempt=None):
        self.prefix = list(prefix)
        self.rng = rng
        self.max_preempt = max_preempt
        self.preempts = 0
        self.trace = []  # (chosen index, number of options)
        self.threads = []
        self.current = None
        self.aborted = False
        self.deadlock = None
        self.done = T.Event()
        self.tls = T.local()

    def spawn(self, name, fn):
        self.threads.append(Th(name, fn))

    def me(self):
        return self.tls.th

    def _body(self, th):
        self.tls.th = th
        th.sem.acquire()
        try:
            if not self.aborted:
                th.fn()
        except Abort:
            pass
        except BaseException as e:  # noqa: BLE001
            th.error = e
        finally:
            th.finished = True
            th.pred = None
            self._pick(th)

    def run(self, timeout=20.0):
        reals = [T.Thread(target=self._body, args=(t,), daemon=True) for t in self.threads]
        for r in reals:
            r.start()
        self._pick(None)
        if not self.done.wait(timeout):
            raise RuntimeError("scheduler itself hung")
        for r in reals:
            r.join(timeout)

    def _pick(self, me):
        if self.aborted:
            if all(t.finished for t in self.threads):
                self.done.set()
            return
        runnable = [t for t in self.threads if not t.finished and (t.pred is None or t.pred())]
        if not runnable:
            if all(t.finished for t in self.threads):
                self.done.set()
                return
            self.deadlock = [t.name for t in self.threads if not t.finished]
            self.aborted = True
            for t in self.threads:
                if not t.finished:
                    t.sem.release()
            return
        # option order: current thread first (continuing costs no preemption)
        if me is not None and me in runnable:
            runnable.remove(me)
            runnable.insert(0, me)
            can_continue = True
        else:
            can_continue = False
        if can_continue and self.max_preempt is not None and self.preempts >= self.max_preempt:
            options = runnable[:1]
        else:
            options = runnable
        i = len(self.trace)
        if i < len(self.prefix):
            c = self.prefix[i]
        elif self.rng is not None:
            c = self.rng.randrange(len(options))
        else:
            c = 0
        self.trace.append((c, len(options)))
        if can_continue and c != 0:
            self.preempts += 1
        nxt = options[c]
        self.current = nxt
        nxt.sem.release()

    def yield_point(self, pred=None):
        me = self.me()
        if self.aborted:
            raise Abort
        me.pred = pred
        self._pick(me)
        me.sem.acquire()
        if self.aborted:
            raise Abort
        me.pred = None


SCHED: Sched | None = None


def managed():
    return SCHED is not None and getattr(SCHED.tls, "th", None) is not None


class ILock:
    def __init__(self):
        self.owner = None

    def acquire(self, blocking=True, timeout=-1):
        if managed():
            SCHED.yield_point(lambda: self.owner is None)
            assert self.owner is None
            self.owner = SCHED.me()
        else:
            assert self.owner is None
            self.owner = "main"
        return True

    def release(self):
        if managed() and not SCHED.aborted:
            SCHED.yield_point()
        self.owner = None

    def locked(self):
        return self.owner is not None

    def __enter__(self):
        self.acquire()
        return self

    def __exit__(self, *a):
        self.release()


class IEvent:
    def __init__(self):
        self.flag = False

    def set(self):
        if managed() and not SCHED.aborted:
            SCHED.yield_point()
        self.flag = True

    def is_set(self):
        return self.flag

    def clear(self):
        self.flag = False

    def wait(self, timeout=None):
        if managed():
            SCHED.yield_point(lambda: self.flag)
            return True
        assert self.flag, "main thread would block"
        return True


# instrument the module: the real classes now build on ILock / IEvent
M.Lock = ILock
M.Event = IEvent


class LogDeque(deque):
    def __init__(self, log):
        super().__init__()
        self.log = log

    def append(self, x):
        self.log.append(("arrive", SCHED.me().name))
        super().append(x)


class XLock(M.OrderedLock):
    """Real OrderedLock; only the attribute _is_broken is turned into a yield point when it is read
    without the internal mutex (that is the one unlocked shared read in acquire())."""

    def __init__(self, log):
        super().__init__()
        self._waiters = LogDeque(log)
        self.log = log

    @property
    def _is_broken(self):
        if managed() and not SCHED.aborted and self._lock.owner is not SCHED.me():
            SCHED.yield_point()
        return self.__dict__["_b"]

    @_is_broken.setter
    def _is_broken(self, v):
        if v and SCHED is not None and managed():
            self.log.append(("break", SCHED.me().name))
        self.__dict__["_b"] = v


class Boom(Exception):
    pass


def make_program(kind, k, m, inject):
    """Returns (setup) -> list of (name, fn), plus log.  inject = (thread index, iteration) or None."""
    log = []
    lock = XLock(log)
    counter = None
    if kind == "counter":
        counter = M.OrderedCounter()
        counter._lock = lock  # real counter, instrumented real lock
    results = {}

    def worker(idx):
        name = f"T{idx}"
        out = results.setdefault(name, [])

        def run():
            for it in range(m):
                boom = Boom(f"{name}/{it}")
                try:
                    if kind == "with":
                        with lock:
                            log.append(("enter", name))
                            if inject == (idx, it):
                                log.append(("raise", name))
                                raise boom
                            log.append(("exit", name))
                        out.append(("ok", None))
                    elif kind == "manual":
                        lock.acquire()
                        log.append(("enter", name))
                        log.append(("exit", name))
                        lock.release()
                        out.append(("ok", None))
                    elif kind == "mixed":
                        if idx % 2:
                            lock.acquire()
                            log.append(("enter", name))
                            log.append(("exit", name))
                            lock.release()
                        else:
                            with lock:
                                log.append(("enter", name))
                                if inject == (idx, it):
                                    log.append(("raise", name))
                                    raise boom
                                log.append(("exit", name))
                        out.append(("ok", None))
                    elif kind == "counter":
                        v = counter.increment()
                        out.append(("val", v))
                except Boom as e:
                    out.append(("boom", e is boom))
                except OrderedLockError as e:
                    out.append(("ole", e.source_exception))

        return name, run

    return [worker(i) for i in range(k)], log, results, lock, counter


def check(kind, k, m, inject, log, results, lock, counter, sched):
    """Return a list of violation strings."""
    v = []
    if sched.deadlock:
        v.append(f"WEDGED: threads {sched.deadlock} blocked for ever")
        return v
    for t in sched.threads:
        if t.error is not None:
            v.append(f"{t.name} died with unexpected {t.error!r}")
    arrivals = [n for (e, n) in log if e == "arrive"]
    if kind == "counter":
        # every increment returns; values 1..n exactly once and in arrival order
        vals = []
        per_thread = {n: [x[1] for x in r if x[0] == "val"] for n, r in results.items()}
        for n, r in results.items():
            if len(r) != m or any(x[0] != "val" for x in r):
                v.append(f"counter: {n} got {r}")
        cursor = {n: 0 for n in results}
        for n in arrivals:
            vals.append(per_thread[n][cursor[n]])
            cursor[n] += 1
        if vals != list(range(1, k * m + 1)):
            v.append(f"counter: values in arrival order are {vals}")
        return v
    # exclusivity + FIFO of grants
    inside = None
    grants = []
    broken_at = None
    for i, (e, n) in enumerate(log):
        if e == "enter":
            if inside is not None:
                v.append(f"NOT EXCLUSIVE: {n} entered while {inside} inside")
            if broken_at is not None:
                v.append(f"{n} was granted the lock after the break")
            inside = n
            grants.append(n)
        elif e in ("exit", "raise"):
            if inside != n:
                v.append(f"exit of {n} while inside={inside}")
            inside = None
        elif e == "break":
            broken_at = i
    if grants != arrivals[: len(grants)] and broken_at is None:
        v.append(f"NOT FIFO: arrivals {arrivals} grants {grants}")
    if broken_at is not None:
        # grants must be a prefix of the arrivals
        if grants != arrivals[: len(grants)]:
            v.append(f"NOT FIFO (before break): arrivals {arrivals} grants {grants}")
    # outcomes
    total_ok = sum(1 for r in results.values() for x in r if x[0] == "ok")
    for n, r in results.items():
        if len(r) != m:
            v.append(f"{n} performed {len(r)} of {m} iterations: {r}")
        for x in r:
            if x[0] == "boom" and x[1] is not True:
                v.append(f"{n} did not see its own exception")
            if x[0] == "ole" and not isinstance(x[1], Boom):
                v.append(f"{n} got OrderedLockError without the source: {x}")
    if inject is None:
        if total_ok != k * m:
            v.append(f"without injection only {total_ok} sections completed: {results}")
        if len(lock._waiters) != 0:
            v.append("queue not empty at the end")
    else:
        iname = f"T{inject[0]}"
        if not any(x[0] == "boom" for x in results[iname]):
            v.append(f"{iname} never saw its Boom: {results[iname]}")
        # number of completed sections + 1 boom + ole == k*m
        n_ole = sum(1 for r in results.values() for x in r if x[0] == "ole")
        if total_ok + 1 + n_ole != k * m:
            v.append(f"outcome count mismatch {results}")
    return v


def run_one(kind, k, m, inject, prefix=(), rng=None, max_preempt=None):
    global SCHED
    SCHED = None
    workers, log, results, lock, counter = make_program(kind, k, m, inject)
    s = Sched(prefix, rng, max_preempt)
    for n, f in workers:
        s.spawn(n, f)
    SCHED = s
    s.run()
    viol = check(kind, k, m, inject, log, results, lock, counter, s)
    SCHED = None
    return s, viol, log, results


def dfs(kind, k, m, inject, max_preempt, limit=None, deadline=None):
    prefix = []
    n = 0
    while True:
        s, viol, log, results = run_one(kind, k, m, inject, prefix, None, max_preempt)
        n += 1
        if viol:
            return n, (viol, s.trace, log, results)
        tr = s.trace
        i = len(tr) - 1
        while i >= 0 and tr[i][0] + 1 >= tr[i][1]:
            i -= 1
        if i < 0:
            return n, None
        prefix = [c for c, _ in tr[:i]] + [tr[i][0] + 1]
        if limit and n >= limit:
            return -n, None
        if deadline and time.time() > deadline:
            return -n, None


def rand(kind, k, m, inject, runs, seed):
    for r in range(runs):
        rng = random.Random(seed * 1000003 + r)
        s, viol, log, results = run_one(kind, k, m, inject, (), rng, None)
        if viol:
            return r + 1, (viol, s.trace, log, results)
    return runs, None


def main():
    budget = float(sys.argv[1]) if len(sys.argv) > 1 else 60.0
    bad = 0
    configs = []
    # exhaustive (preemption bounded) exploration of small configurations
    for kind in ("with", "manual", "mixed", "counter"):
        configs.append((kind, 2, 1, None, None))  # fully exhaustive
        configs.append((kind, 2, 2, None, 3))
        configs.append((kind, 3, 1, None, 3))
        configs.append((kind, 3, 2, None, 2))
        configs.append((kind, 4, 1, None, 2))
    for kind in ("with", "mixed"):
        for k, m, mp in ((2, 1, None), (2, 2, 3), (3, 1, 3), (3, 2, 2), (4, 1, 2)):
            for ti in range(k):
                if kind == "mixed" and ti % 2:
                    continue
                for it in range(m):
                    configs.append((kind, k, m, (ti, it), mp))
    t_each = budget / len(configs)
    for kind, k, m, inject, mp in configs:
        n, res = dfs(kind, k, m, inject, mp, deadline=time.time() + t_each)
        tag = "complete" if n > 0 else "cut off"
        print(f"dfs  kind={kind:7s} k={k} m={m} inject={inject} preempt<={mp}: {abs(n)} schedules ({tag})", flush=True)
        if res:
            bad += 1
            print("   VIOLATION", res[0])
            print("   log", res[2])
            print("   results", res[3])
    # random schedules for bigger configurations
    for kind, k, m, inject in (
        ("with", 5, 3, None),
        ("with", 5, 3, (2, 1)),
        ("with", 6, 2, (0, 0)),
        ("with", 6, 2, (5, 1)),
        ("mixed", 6, 2, (2, 1)),
        ("manual", 6, 3, None),
        ("counter", 6, 4, None),
    ):
        n, res = rand(kind, k, m, inject, 1500, 7)
        print(f"rand kind={kind:7s} k={k} m={m} inject={inject}: {n} schedules", flush=True)
        if res:
            bad += 1
            print("   VIOLATION", res[0])
            print("   log", res[2])
            print("   results", res[3])
    print("violations:", bad)
    return 1 if bad else 0


if __name__ == "__main__":
    sys.exit(main())
