"""C19 finding 1: after a break, a *future* acquirer blocks for ever (and wedges the lock for everybody)
when the exception that broke the lock looks at the lock while it is being formatted.

Clause violated: "if a holder leaves its critical section with an exception ... every current and future
acquirer gets an ordered-lock error instead of blocking" / "never wedged".

Cause: OrderedLock.acquire() builds the OrderedLockError of its FIRST broken-check *inside*
`with self._lock:` (threading.py, acquire, lines 119-123).  OrderedLockError.__init__ (exceptions.py)
evaluates `if source_exception` and f"{source_exception}", i.e. it runs the user's __bool__/__len__/__str__
while the lock's internal, non-reentrant mutex is held.  Any such method that touches the same lock
(is_broken(), reset(), acquire(), or get_current() of an OrderedCounter built on it) dead-locks on that mutex;
the mutex is then never released, so every other acquire()/release()/is_broken()/reset() blocks too.
(The SECOND broken-check of acquire(), taken by waiters that were already queued, is outside the mutex and
is not affected - that is why only *future* acquirers hang.)

The exception class below is ordinary Python: its message reports the state of the resource it came from.

Run:  PYTHONPATH=/tmp/wt/h3_C19/src /venv/bin/python /tmp/wt/h3_C19/finding_1.py
"""

import sys
import threading

from aws_durable_execution_sdk_python.exceptions import OrderedLockError
from aws_durable_execution_sdk_python.threading import OrderedLock


class Ledger:
    """A resource whose updates are serialised, in arrival order, by an OrderedLock."""

    def __init__(self) -> None:
        self.lock = OrderedLock()
        self.balance = 10

    def withdraw(self, amount: int) -> None:
        with self.lock:
            if amount > self.balance:
                raise LedgerError(self, f"cannot withdraw {amount}")
            self.balance -= amount

    def describe(self) -> str:
        return f"balance={self.balance} usable={not self.lock.is_broken()}"  # public API


class LedgerError(Exception):
    def __init__(self, ledger: Ledger, what: str) -> None:
        super().__init__(what)
        self.ledger = ledger
        self.what = what

    def __str__(self) -> str:
        return f"{self.what} ({self.ledger.describe()})"


def main() -> int:
    ledger = Ledger()

    # 1. a holder leaves its critical section with an exception: it sees its own exception
    try:
        ledger.withdraw(100)
    except LedgerError as e:
        own = e
    else:
        raise AssertionError("the holder must see its own exception")
    assert ledger.lock.is_broken()
    assert "usable=False" in str(own)  # formatting the exception is harmless by itself

    # 2. a future acquirer must get an OrderedLockError - instead it blocks for ever
    outcome: list = []

    def future_acquirer() -> None:
        try:
            ledger.withdraw(1)
            outcome.append("acquired")
        except OrderedLockError as e:
            outcome.append(e)
        except BaseException as e:  # noqa: BLE001
            outcome.append(e)

    t = threading.Thread(target=future_acquirer, daemon=True)
    t.start()
    t.join(5)
    hung = t.is_alive()

    # 3. and the lock is now wedged for everybody else as well (the internal mutex is never released)
    probe_done = threading.Event()

    def probe() -> None:
        ledger.lock.is_broken()
        probe_done.set()

    threading.Thread(target=probe, daemon=True).start()
    probe_hung = not probe_done.wait(2)

    assert not hung, (
        "C19 violated: an acquirer arriving after the break did not get an OrderedLockError, it is blocked for ever "
        "inside OrderedLock.acquire() (the OrderedLockError is built, and the user's __str__ run, while the "
        f"internal mutex is held); a later is_broken() from a third thread hangs as well: {probe_hung}"
    )
    assert isinstance(outcome[0], OrderedLockError), outcome
    assert outcome[0].source_exception is own
    print("ok: future acquirer got", type(outcome[0]).__name__)
    return 0


if __name__ == "__main__":
    sys.exit(main())
