"""C03 finding 1: context.step() raises its final error to user code although NO terminal record exists.

Clause violated: "A durable operation call ... raises its final error to user code only after the backend
has accepted the corresponding terminal record ... If the backend never accepts the record, user code never
runs past that call and the invocation never reports success."

Code site: operation/step.py  StepOperationExecutor.execute

    except Exception as e:
        if isinstance(e, ExecutionError):
            ...
            raise            # <- no FAIL checkpoint, not even an attempt

Any ExecutionError that comes out of the step attempt - most realistically the one that
serdes.serialize() raises when the value returned by the step function cannot be serialised, but also an
ExecutionError / CallbackError / NonDeterministicExecutionError raised by the step function itself - is
re-raised straight to the caller of context.step() without checkpointing FAIL.  ExecutionError derives from
DurableExecutionsError -> Exception (and DurableExecutionsError is exported as an exception "users need to
handle"), so an ordinary `try: ctx.step(...) except Exception:` compensation block runs past the call.
The step's failure is visible to user code, the backend knows nothing about it (it only has the START record,
or nothing at all), and the invocation goes on to report PENDING / SUCCEEDED.

(The sibling operations do it right: run_in_child_context and wait_for_condition checkpoint FAIL for the very
same serialisation failure before they raise.)

The script drives the real durable_execution wrapper against an in-memory backend:
  invocation 1: the step's failure is observed by user code, a compensation step is recorded, the handler
                suspends on a wait  -> PENDING.  Backend status of the failed step: STARTED (no terminal record).
  invocation 2: because the failure was never recorded, the step is simply executed again, succeeds this
                time, and the execution finishes SUCCEEDED on the *other* branch of the user's try/except - the
                durable history now contains both the compensation and the success.
Exits non-zero (AssertionError) on the current code.
"""

from __future__ import annotations

import datetime
import logging
import sys
import threading
from unittest.mock import Mock

from aws_durable_execution_sdk_python.config import Duration
from aws_durable_execution_sdk_python.execution import (
    DurableExecutionInvocationInputWithClient,
    InitialExecutionState,
    durable_execution,
)
from aws_durable_execution_sdk_python.lambda_service import (
    CheckpointOutput,
    CheckpointUpdatedExecutionState,
    ExecutionDetails,
    Operation,
    OperationAction,
    OperationStatus,
    OperationType,
    StateOutput,
    StepDetails,
    WaitDetails,
)

logging.disable(logging.CRITICAL)

TERMINAL = {
    OperationStatus.SUCCEEDED,
    OperationStatus.FAILED,
    OperationStatus.CANCELLED,
    OperationStatus.STOPPED,
    OperationStatus.TIMED_OUT,
}


class Backend:
    """Minimal in-memory durable backend: `ops` changes only when a checkpoint call is accepted."""

    def __init__(self):
        self.lock = threading.Lock()
        self.ops: dict[str, Operation] = {}
        self.order: list[str] = []
        self.accepted: list[tuple[str | None, str, str]] = []  # (name, type, action)
        self.n = 0

    def checkpoint(self, durable_execution_arn, checkpoint_token, updates, client_token):
        with self.lock:
            self.n += 1
            changed = []
            for u in updates:
                self.accepted.append((u.name, u.operation_type.value, u.action.value))
                common = dict(operation_id=u.operation_id, operation_type=u.operation_type, parent_id=u.parent_id, name=u.name, sub_type=u.sub_type)
                if u.operation_type is OperationType.STEP:
                    status = {
                        OperationAction.START: OperationStatus.STARTED,
                        OperationAction.SUCCEED: OperationStatus.SUCCEEDED,
                        OperationAction.FAIL: OperationStatus.FAILED,
                        OperationAction.RETRY: OperationStatus.PENDING,
                    }[u.action]
                    op = Operation(status=status, step_details=StepDetails(result=u.payload, error=u.error), **common)
                elif u.operation_type is OperationType.WAIT:
                    op = Operation(
                        status=OperationStatus.STARTED,
                        wait_details=WaitDetails(scheduled_end_timestamp=datetime.datetime.now(tz=datetime.UTC) + datetime.timedelta(seconds=1)),
                        **common,
                    )
                else:
                    raise AssertionError(u)
                if u.operation_id not in self.ops:
                    self.order.append(u.operation_id)
                self.ops[u.operation_id] = op
                changed.append(op)
            return CheckpointOutput(checkpoint_token=f"tok-{self.n}", new_execution_state=CheckpointUpdatedExecutionState(operations=changed))

    def get_execution_state(self, durable_execution_arn, checkpoint_token, next_marker, max_items=1000):
        return StateOutput(operations=[], next_marker=None)

    def status_by_name(self, name):
        with self.lock:
            for op in self.ops.values():
                if op.name == name:
                    return op.status
        return None

    def complete_waits(self):
        with self.lock:
            for i, op in list(self.ops.items()):
                if op.operation_type is OperationType.WAIT and op.status is OperationStatus.STARTED:
                    self.ops[i] = Operation(
                        operation_id=op.operation_id, operation_type=op.operation_type, status=OperationStatus.SUCCEEDED,
                        parent_id=op.parent_id, name=op.name, sub_type=op.sub_type, wait_details=op.wait_details,
                    )

    def invocation_input(self):
        execution = Operation(
            operation_id="exec", operation_type=OperationType.EXECUTION, status=OperationStatus.STARTED,
            execution_details=ExecutionDetails(input_payload="{}"),
        )
        with self.lock:
            ops = [execution] + [self.ops[i] for i in self.order]
        return DurableExecutionInvocationInputWithClient(
            durable_execution_arn="arn:test", checkpoint_token="tok-0",
            initial_execution_state=InitialExecutionState(operations=ops, next_marker=""), service_client=self,
        )


def lambda_context():
    c = Mock()
    c.aws_request_id = "req"
    c.client_context = None
    c.identity = None
    c._epoch_deadline_time_in_ms = 10**12  # noqa: SLF001
    c.invoked_function_arn = None
    c.tenant_id = None
    return c


class Row:
    """What a database driver might hand back: not serialisable by the default serdes."""


backend = Backend()
payment_provider = {"calls": 0}
observed: list[dict] = []


def charge(_step_ctx):
    payment_provider["calls"] += 1
    if payment_provider["calls"] == 1:
        return Row()  # first time round the provider answers with something the serdes cannot encode
    return "charged"


@durable_execution
def handler(event, ctx):
    try:
        ctx.step(charge, name="charge")
        path = "charged"
    except Exception as e:  # noqa: BLE001  ordinary user-level compensation
        # user code is now running past the failed call: what does the backend know about that step?
        observed.append({"error": type(e).__name__, "backend_status_of_charge": backend.status_by_name("charge")})
        ctx.step(lambda _: "refund issued", name="compensate")
        path = "compensated"
    ctx.wait(Duration.from_seconds(1), name="cool-down")
    return path


def invoke():
    box = {}

    def run():
        try:
            box["out"] = handler(backend.invocation_input(), lambda_context())
        except BaseException as e:  # noqa: BLE001
            box["exc"] = e

    t = threading.Thread(target=run, daemon=True)
    t.start()
    t.join(30)
    assert not t.is_alive(), "invocation hung"
    return box


def main():
    first = invoke()
    print("invocation 1 ->", first)
    print("  user code observed:", observed)
    print("  records accepted by the backend:", backend.accepted)
    status_after_1 = backend.status_by_name("charge")
    print("  backend status of step 'charge' after invocation 1:", status_after_1)

    backend.complete_waits()
    second = invoke()
    print("invocation 2 ->", second)
    print("  records accepted by the backend:", backend.accepted)

    problems = []
    if observed:
        st = observed[0]["backend_status_of_charge"]
        if st not in TERMINAL:
            problems.append(
                f"context.step('charge') raised {observed[0]['error']} to user code while the backend status of that "
                f"step was {st} (no terminal record accepted, none was ever sent)"
            )
    if first.get("out", {}).get("Status") in ("PENDING", "SUCCEEDED") and status_after_1 not in TERMINAL:
        problems.append(
            f"invocation 1 reported {first['out']['Status']} after user code ran past the failed step; "
            f"backend status of the step is still {status_after_1}"
        )
    if ("compensate", "STEP", "SUCCEED") in backend.accepted and ("charge", "STEP", "SUCCEED") in backend.accepted:
        problems.append(
            "the failure that user code acted upon (compensation recorded) was never durable: on re-invocation the step "
            f"ran again and SUCCEEDED; final output {second.get('out')}"
        )
    assert not problems, "C03 write-ahead violated:\n  - " + "\n  - ".join(problems)
    print("OK: no violation")


if __name__ == "__main__":
    main()
    sys.exit(0)
