"""C09 finding 2: the error carried by a FAILED item differs between the first delivery and a replay.

Run:  PYTHONPATH=/tmp/wt/h1_C09/src /venv/bin/python /tmp/wt/h1_C09/finding_2.py

A map over 4 items; item 1 raises ValueError("boom"), the others return ~100 KB strings, so the serialized
BatchResult exceeds 256 KB and the map is checkpointed in ReplayChildren mode (summary only). The completion policy
tolerates the failure (tolerated_failure_count=2), so the map completes with ALL_COMPLETED.

First invocation : item 1 is reported with error.type == "CallableRuntimeError"  (the wrapper raised by child_handler,
                   re-encoded with ErrorObject.from_exception in ConcurrentExecutor._create_result) - the type of the
                   branch's actual error (ValueError, which is what was checkpointed for the branch) is lost.
Second invocation: (replay of the same history) ConcurrentExecutor.replay() takes the error from the branch's
                   checkpoint: error.type == "ValueError".
=> the replay does not deliver the same batch result; user code that looks at item.error.type (or at
   BatchResult.get_errors()) takes a different path on replay.
"""

from __future__ import annotations

import datetime
import sys
import threading
import time
from unittest.mock import Mock

from aws_durable_execution_sdk_python.config import CompletionConfig, MapConfig, ParallelConfig
from aws_durable_execution_sdk_python.execution import (
    DurableExecutionInvocationInputWithClient,
    InitialExecutionState,
    durable_execution,
)
from aws_durable_execution_sdk_python.lambda_service import (
    CheckpointOutput,
    CheckpointUpdatedExecutionState,
    ContextDetails,
    ExecutionDetails,
    Operation,
    OperationAction,
    OperationStatus,
    OperationType,
    StateOutput,
    StepDetails,
)


class FakeBackend:
    """In-memory durable backend: applies checkpoint updates, plays them back as history."""

    def __init__(self):
        self.lock = threading.Lock()
        self.ops: dict[str, Operation] = {}
        self.token = 0
        self.ops["exec-0"] = Operation(
            operation_id="exec-0",
            operation_type=OperationType.EXECUTION,
            status=OperationStatus.STARTED,
            execution_details=ExecutionDetails(input_payload="{}"),
        )

    def checkpoint(self, durable_execution_arn, checkpoint_token, updates, client_token=None):
        changed = []
        with self.lock:
            for u in updates:
                old = self.ops.get(u.operation_id)
                base = dict(
                    operation_id=u.operation_id,
                    operation_type=u.operation_type,
                    parent_id=u.parent_id or (old.parent_id if old else None),
                    name=u.name or (old.name if old else None),
                    sub_type=u.sub_type or (old.sub_type if old else None),
                    start_timestamp=datetime.datetime.now(tz=datetime.UTC),
                )
                details = {}
                if u.operation_type is OperationType.CONTEXT:
                    details["context_details"] = ContextDetails(
                        replay_children=bool(u.context_options and u.context_options.replay_children),
                        result=u.payload,
                        error=u.error,
                    )
                elif u.operation_type is OperationType.STEP:
                    details["step_details"] = StepDetails(attempt=1, result=u.payload, error=u.error)
                status = {
                    OperationAction.START: OperationStatus.STARTED,
                    OperationAction.SUCCEED: OperationStatus.SUCCEEDED,
                    OperationAction.FAIL: OperationStatus.FAILED,
                }[u.action]
                op = Operation(status=status, **base, **details)
                self.ops[u.operation_id] = op
                changed.append(op)
            self.token += 1
            return CheckpointOutput(
                checkpoint_token=f"tok-{self.token}",
                new_execution_state=CheckpointUpdatedExecutionState(operations=changed, next_marker=None),
            )

    def get_execution_state(self, durable_execution_arn, checkpoint_token, next_marker, max_items=1000):
        return StateOutput(operations=[], next_marker=None)

    def history(self):
        with self.lock:
            return list(self.ops.values())


def invoke(handler, backend, timeout=30.0):
    ctx = Mock()
    ctx.aws_request_id = "req"
    ctx.invoked_function_arn = "arn"
    ctx.tenant_id = None
    event = DurableExecutionInvocationInputWithClient(
        durable_execution_arn="arn:exec",
        checkpoint_token="tok",
        initial_execution_state=InitialExecutionState(operations=backend.history(), next_marker=""),
        service_client=backend,
    )
    out = {}

    def run():
        try:
            out["result"] = durable_execution(handler)(event, ctx)
        except BaseException as e:  # noqa: BLE001
            out["exc"] = e

    t = threading.Thread(target=run, daemon=True)
    t.start()
    t.join(timeout)
    assert not t.is_alive(), "invocation hung"
    if "exc" in out:
        raise out["exc"]
    return out["result"]


# --------------------------------------------------------------------------------------------------------------------
BIG = "x" * 100_000
deliveries = []


def process(ctx, item, index, items):
    if index == 1:
        msg = "boom"
        raise ValueError(msg)
    return BIG + str(index)


def handler(event, context):
    result = context.map(
        [0, 1, 2, 3],
        process,
        config=MapConfig(completion_config=CompletionConfig(tolerated_failure_count=2)),
    )
    deliveries.append(
        {
            "reason": result.completion_reason.value,
            "statuses": [i.status.value for i in result.all],
            "errors": [i.error for i in result.all],
            "results_ok": [i.result == BIG + str(i.index) if i.result else None for i in result.all],
        }
    )
    return "done"


def main():
    backend = FakeBackend()
    print("invocation 1:", invoke(handler, backend))
    map_ops = [o for o in backend.history() if o.sub_type and o.sub_type.value == "Map"]
    assert map_ops and map_ops[0].context_details.replay_children, "precondition: map stored in ReplayChildren mode"
    branch_err = next(o for o in backend.history() if o.name == "map-item-1").context_details.error
    print("error checkpointed for branch 1:", branch_err)
    print("invocation 2:", invoke(handler, backend))
    first, second = deliveries
    print("first delivery :", first["statuses"], first["reason"], first["errors"][1])
    print("replay delivery:", second["statuses"], second["reason"], second["errors"][1])

    assert first["statuses"] == second["statuses"] == ["SUCCEEDED", "FAILED", "SUCCEEDED", "SUCCEEDED"]
    problems = []
    if first["errors"][1] != second["errors"][1]:
        problems.append(
            "item 1 error on first delivery %r != error on replay %r" % (first["errors"][1], second["errors"][1])
        )
    if first["errors"][1].type != branch_err.type:
        problems.append(
            "first delivery reports error type %r, the branch actually failed with %r"
            % (first["errors"][1].type, branch_err.type)
        )
    assert not problems, "C09 violated: " + " | ".join(problems)
    print("OK - property holds")


if __name__ == "__main__":
    try:
        main()
    except AssertionError as e:
        print("ASSERTION FAILED:", e)
        sys.exit(1)
