"""C02 finding 2: a map/parallel whose BatchResult is larger than 256 KB (ReplayChildren mode) delivers a
different BatchResult on replay: the ErrorObject of a failed item changes its `type`.

Run:  cd /tmp/wt/h1_C02 && PYTHONPATH=/tmp/wt/h1_C02/src /venv/bin/python finding_2.py

Workflow (deterministic, public API only, all values are plain str):

    r = ctx.map([0,1,2,3,4], item, config=MapConfig(completion_config=CompletionConfig(tolerated_failure_count=1)))
        # item returns a 70 KB string, item 1 raises ValueError("item one")
    kind = r.all[1].error.type            # user code looks at the error of the failed item
    ctx.wait(Duration.from_seconds(5))    # suspension -> replay
    return kind

First completion: ConcurrentExecutor._create_result() builds the failed BatchItem with
ErrorObject.from_exception(<the CallableRuntimeError raised by child_handler>)  -> type == "CallableRuntimeError".
Replay: the map context is SUCCEEDED with ReplayChildren=True (payload > CHECKPOINT_SIZE_LIMIT), so
map_handler -> ConcurrentExecutor.replay() rebuilds the item from the branch checkpoint:
error = checkpoint.error -> type == "ValueError".
The same durable call therefore delivers two different values, and the final result of the execution depends
on whether it was suspended after the map.
"""

from __future__ import annotations

import logging
import sys

from aws_durable_execution_sdk_python.config import CompletionConfig, Duration, MapConfig

from harness import Backend, Observer, describe, drive

logging.disable(logging.CRITICAL)

BIG = "y" * 70_000


def item(ctx, x, index, items):
    if x == 1:
        msg = "item one"
        raise ValueError(msg)
    return BIG + str(x)


def make_workflow(observer: Observer, with_wait: bool):
    def workflow(event, ctx):
        r = observer.obs(
            "map#1",
            lambda: ctx.map(
                [0, 1, 2, 3, 4],
                item,
                name="bigmap",
                config=MapConfig(completion_config=CompletionConfig(tolerated_failure_count=1)),
            ),
        )
        failed = r.all[1]
        kind = failed.error.type
        if with_wait:
            ctx.wait(Duration.from_seconds(5), name="pause")
        return kind

    return workflow


def main() -> int:
    obs_a = Observer()
    out_a, n_a, _ = drive(make_workflow(obs_a, with_wait=False), Backend(), obs_a)
    obs_b = Observer()
    backend_b = Backend()
    out_b, n_b, _ = drive(make_workflow(obs_b, with_wait=True), backend_b, obs_b)

    map_op = next(op for op in backend_b.ops.values() if op.name == "bigmap")
    print("map context recorded with ReplayChildren =", map_op.context_details.replay_children)
    print("no suspension :", n_a, "invocation(s), result", out_a.get("Result"))
    print("one suspension:", n_b, "invocation(s), result", out_b.get("Result"))
    for inv, rec in obs_b.records["map#1"]:
        short = rec[2].replace(BIG, "<70KB>")
        print(f"   map#1: invocation {inv} delivered {short}")

    assert map_op.context_details.replay_children, "scenario broken: expected the ReplayChildren path"
    bad = obs_b.inconsistencies()
    assert not bad, (
        "C02 violated: ctx.map delivered different BatchResults on first completion and on replay: "
        + "; ".join(f"invocation {inv}: {rec[2].replace(BIG, '<70KB>')}" for inv, rec in bad[0][1])
    )
    assert out_a.get("Result") == out_b.get("Result"), (
        f"C02 violated: final result depends on suspension: {out_a.get('Result')} vs {out_b.get('Result')}"
    )
    return 0


if __name__ == "__main__":
    sys.exit(main())
