"""C02 finding 3: the workflow input is lost on a re-invocation whose first history page is empty.

Run:  cd /tmp/wt/h1_C02 && PYTHONPATH=/tmp/wt/h1_C02/src /venv/bin/python finding_3.py

execution.durable_execution() takes the user `event` from
`invocation_input.initial_execution_state.get_input_payload()`, i.e. ONLY from the operations that are carried
inline in the invocation payload.  InitialExecutionState.get_execution_operation() documents that the inline list
may legitimately be empty ("Due to payload size limitations we may have an empty operations list ... expected
behaviour"), the rest of the history (including the EXECUTION operation with the input payload) is then fetched
through the NextMarker by ExecutionState.fetch_paginated_operations().  The fetched EXECUTION operation is never
consulted for the input, so the user function is called with `{}`.

Deterministic workflow:

    n = event["n"]                       (input payload is {"n": 41})
    a = ctx.step(lambda _: n + 1)        -> 42
    ctx.wait(2 s)                        -> suspension, re-invocation with the recorded history
    return [a, event.get("n")]

Invocation 1 (inline history: EXECUTION op)        : event == {"n": 41}
Invocation 2 (inline history empty + NextMarker)   : event == {}          -> result [42, None] instead of [42, 41]
The values delivered by the durable operations are replayed correctly, but user control flow/outcome is not
identical on the replay: the final result depends on how the history was handed to the re-invocation.
"""

from __future__ import annotations

import logging
import sys

from aws_durable_execution_sdk_python.config import Duration
from aws_durable_execution_sdk_python.execution import (
    DurableExecutionInvocationInputWithClient,
    InitialExecutionState,
)

from harness import Backend, drive

logging.disable(logging.CRITICAL)


class EmptyFirstPageBackend(Backend):
    """Re-invocations carry no inline operations, only a NextMarker (everything is served by get_execution_state)."""

    def invocation_input(self, roundtrip_json=False):
        inp = super().invocation_input(roundtrip_json)
        if not self.order:  # very first invocation: only the EXECUTION operation exists, it is sent inline
            return inp
        return DurableExecutionInvocationInputWithClient(
            durable_execution_arn=inp.durable_execution_arn,
            checkpoint_token=inp.checkpoint_token,
            initial_execution_state=InitialExecutionState(operations=[], next_marker="0"),
            service_client=self,
        )


SEEN_EVENTS = []


def workflow(event, ctx):
    SEEN_EVENTS.append(dict(event))
    n = event.get("n")
    a = ctx.step(lambda _: (n or 0) + 1, name="inc")
    ctx.wait(Duration.from_seconds(2), name="pause")
    return [a, event.get("n")]


def main() -> int:
    out_a, n_a, _ = drive(workflow, Backend(input_payload='{"n": 41}'))
    events_a = list(SEEN_EVENTS)
    SEEN_EVENTS.clear()
    out_b, n_b, _ = drive(workflow, EmptyFirstPageBackend(input_payload='{"n": 41}'))
    events_b = list(SEEN_EVENTS)
    print("inline history     :", n_a, "invocations, events", events_a, "result", out_a.get("Result"))
    print("empty first page   :", n_b, "invocations, events", events_b, "result", out_b.get("Result"))
    assert all(e == events_b[0] for e in events_b), (
        f"C02 violated: the workflow input differs between the invocations of one execution: {events_b}"
    )
    assert out_a.get("Result") == out_b.get("Result"), (
        f"C02 violated: final result depends on how the history was paginated: {out_a.get('Result')} vs {out_b.get('Result')}"
    )
    return 0


if __name__ == "__main__":
    sys.exit(main())
