"""In-memory fake backend + multi-invocation driver for replay-transparency experiments.

Run with PYTHONPATH=/tmp/wt/h1_C02/src
"""

from __future__ import annotations

import datetime
import threading
from dataclasses import replace
from typing import Any, Callable

from aws_durable_execution_sdk_python.exceptions import SuspendExecution
from aws_durable_execution_sdk_python.execution import (
    DurableExecutionInvocationInputWithClient,
    InitialExecutionState,
    durable_execution,
)
from aws_durable_execution_sdk_python.lambda_service import (
    CallbackDetails,
    ChainedInvokeDetails,
    CheckpointOutput,
    CheckpointUpdatedExecutionState,
    ContextDetails,
    ErrorObject,
    ExecutionDetails,
    Operation,
    OperationAction,
    OperationStatus,
    OperationType,
    OperationUpdate,
    StateOutput,
    StepDetails,
    WaitDetails,
)

UTC = datetime.UTC


class Crash(BaseException):
    """Simulates the sandbox dying (not catchable by `except Exception`)."""


class BackendDown(Exception):
    """Simulates a failing backend call (checkpoint API raising)."""


def now():
    return datetime.datetime.now(tz=UTC)


class Backend:
    def __init__(self, input_payload: str = "{}", page_size: int | None = None):
        self.lock = threading.Lock()
        self.ops: dict[str, Operation] = {}
        self.order: list[str] = []
        self.exec_op = Operation(
            operation_id="exec-0",
            operation_type=OperationType.EXECUTION,
            status=OperationStatus.STARTED,
            execution_details=ExecutionDetails(input_payload=input_payload),
        )
        self.token = 0
        self.page_size = page_size
        self.checkpoint_calls = 0
        self.all_updates: list[OperationUpdate] = []
        # crash injection: fail the n-th checkpoint call (1-based) of the whole execution
        self.fail_checkpoint_calls: set[int] = set()
        # apply the updates before failing (response lost) or not (request lost)
        self.fail_after_apply = False
        # scripted external results
        self.callback_results: dict[str, tuple[str, Any]] = {}  # name -> ("ok", payload) / ("fail", ErrorObject)
        self.invoke_results: dict[str, tuple[str, Any]] = {}  # function name -> ...
        self.hook: Callable[[list[OperationUpdate]], None] | None = None

    # ---- service client protocol
    def checkpoint(self, durable_execution_arn, checkpoint_token, updates, client_token):
        with self.lock:
            self.checkpoint_calls += 1
            n = self.checkpoint_calls
            if n in self.fail_checkpoint_calls and not self.fail_after_apply:
                raise BackendDown(f"checkpoint call {n} failed")
            if self.hook:
                self.hook(updates)
            changed: list[str] = []
            for u in updates:
                self.all_updates.append(u)
                self._apply(u)
                if u.operation_id not in changed:
                    changed.append(u.operation_id)
            changed += [i for i in self._tick() if i not in changed]
            if n in self.fail_checkpoint_calls:
                raise BackendDown(f"checkpoint call {n} failed after apply")
            self.token += 1
            return CheckpointOutput(
                checkpoint_token=f"tok-{self.token}",
                new_execution_state=CheckpointUpdatedExecutionState(
                    operations=[self.ops[i] for i in changed if i in self.ops], next_marker=None
                ),
            )

    def get_execution_state(self, durable_execution_arn, checkpoint_token, next_marker, max_items=1000):
        with self.lock:
            start = int(next_marker)
            allops = [self.exec_op] + [self.ops[i] for i in self.order]
            end = start + (self.page_size or 1000)
            return StateOutput(
                operations=allops[start:end],
                next_marker=str(end) if end < len(allops) else None,
            )

    # ---- state machine
    def _put(self, op: Operation):
        if op.operation_id not in self.ops:
            self.order.append(op.operation_id)
        self.ops[op.operation_id] = op

    def _apply(self, u: OperationUpdate):
        cur = self.ops.get(u.operation_id)
        t = u.operation_type
        if t is OperationType.EXECUTION:
            return
        base = cur or Operation(
            operation_id=u.operation_id,
            operation_type=t,
            status=OperationStatus.STARTED,
            parent_id=u.parent_id,
            name=u.name,
            sub_type=u.sub_type,
            start_timestamp=now(),
        )
        if cur and cur.status in {
            OperationStatus.SUCCEEDED,
            OperationStatus.FAILED,
        }:
            raise AssertionError(f"update {u.action} for terminal op {u.operation_id} {cur.name} {cur.status}")
        if t is OperationType.STEP:
            sd = base.step_details or StepDetails(attempt=0)
            if u.action is OperationAction.START:
                op = replace(base, status=OperationStatus.STARTED, step_details=replace(sd, next_attempt_timestamp=None))
            elif u.action is OperationAction.RETRY:
                delay = u.step_options.next_attempt_delay_seconds if u.step_options else 1
                op = replace(
                    base,
                    status=OperationStatus.PENDING,
                    step_details=StepDetails(
                        attempt=sd.attempt + 1,
                        next_attempt_timestamp=now() + datetime.timedelta(seconds=delay),
                        result=u.payload,
                        error=u.error,
                    ),
                )
            elif u.action is OperationAction.SUCCEED:
                op = replace(
                    base,
                    status=OperationStatus.SUCCEEDED,
                    end_timestamp=now(),
                    step_details=StepDetails(attempt=sd.attempt + 1, result=u.payload),
                )
            elif u.action is OperationAction.FAIL:
                op = replace(
                    base,
                    status=OperationStatus.FAILED,
                    end_timestamp=now(),
                    step_details=StepDetails(attempt=sd.attempt + 1, error=u.error),
                )
            else:
                raise AssertionError(u.action)
        elif t is OperationType.CONTEXT:
            if u.action is OperationAction.START:
                op = replace(base, status=OperationStatus.STARTED)
            elif u.action is OperationAction.SUCCEED:
                op = replace(
                    base,
                    status=OperationStatus.SUCCEEDED,
                    end_timestamp=now(),
                    context_details=ContextDetails(
                        replay_children=bool(u.context_options and u.context_options.replay_children),
                        result=u.payload,
                    ),
                )
            elif u.action is OperationAction.FAIL:
                op = replace(
                    base,
                    status=OperationStatus.FAILED,
                    end_timestamp=now(),
                    context_details=ContextDetails(error=u.error),
                )
            else:
                raise AssertionError(u.action)
        elif t is OperationType.WAIT:
            secs = u.wait_options.wait_seconds if u.wait_options else 1
            op = replace(
                base,
                status=OperationStatus.STARTED,
                wait_details=WaitDetails(scheduled_end_timestamp=now() + datetime.timedelta(seconds=secs)),
            )
        elif t is OperationType.CALLBACK:
            op = replace(
                base,
                status=OperationStatus.STARTED,
                callback_details=CallbackDetails(callback_id=f"cb-{u.operation_id[:8]}"),
            )
        elif t is OperationType.CHAINED_INVOKE:
            op = replace(base, status=OperationStatus.STARTED, chained_invoke_details=ChainedInvokeDetails())
            # remember function name for scripted results
            self._invoke_fn = getattr(self, "_invoke_fn", {})
            self._invoke_fn[u.operation_id] = u.chained_invoke_options.function_name
        else:
            raise AssertionError(t)
        self._put(op)

    def _tick(self) -> list[str]:
        """Promote timers that elapsed."""
        changed = []
        t = now()
        for i in self.order:
            op = self.ops[i]
            if (
                op.operation_type is OperationType.STEP
                and op.status is OperationStatus.PENDING
                and op.step_details.next_attempt_timestamp <= t
            ):
                self.ops[i] = replace(op, status=OperationStatus.READY)
                changed.append(i)
            elif (
                op.operation_type is OperationType.WAIT
                and op.status is OperationStatus.STARTED
                and op.wait_details.scheduled_end_timestamp <= t
            ):
                self.ops[i] = replace(op, status=OperationStatus.SUCCEEDED, end_timestamp=t)
                changed.append(i)
        return changed

    def advance(self):
        """Between invocations: all timers elapse, scripted external results are delivered."""
        with self.lock:
            past = now() - datetime.timedelta(seconds=1)
            for i in self.order:
                op = self.ops[i]
                if op.operation_type is OperationType.STEP and op.status is OperationStatus.PENDING:
                    self.ops[i] = replace(
                        op, status=OperationStatus.READY, step_details=replace(op.step_details, next_attempt_timestamp=past)
                    )
                elif op.operation_type is OperationType.WAIT and op.status is OperationStatus.STARTED:
                    self.ops[i] = replace(op, status=OperationStatus.SUCCEEDED, end_timestamp=now())
                elif op.operation_type is OperationType.CALLBACK and op.status is OperationStatus.STARTED:
                    for key, (kind, val) in self.callback_results.items():
                        if op.name and key in op.name:
                            cd = op.callback_details
                            if kind == "ok":
                                self.ops[i] = replace(
                                    op, status=OperationStatus.SUCCEEDED, callback_details=replace(cd, result=val)
                                )
                            elif kind == "fail":
                                self.ops[i] = replace(
                                    op, status=OperationStatus.FAILED, callback_details=replace(cd, error=val)
                                )
                            elif kind == "timeout":
                                self.ops[i] = replace(
                                    op, status=OperationStatus.TIMED_OUT, callback_details=replace(cd, error=val)
                                )
                elif op.operation_type is OperationType.CHAINED_INVOKE and op.status is OperationStatus.STARTED:
                    fn = self._invoke_fn.get(i)
                    if fn in self.invoke_results:
                        kind, val = self.invoke_results[fn]
                        if kind == "ok":
                            self.ops[i] = replace(
                                op, status=OperationStatus.SUCCEEDED, chained_invoke_details=ChainedInvokeDetails(result=val)
                            )
                        elif kind == "fail":
                            self.ops[i] = replace(
                                op, status=OperationStatus.FAILED, chained_invoke_details=ChainedInvokeDetails(error=val)
                            )
                        elif kind == "timeout":
                            self.ops[i] = replace(
                                op, status=OperationStatus.TIMED_OUT, chained_invoke_details=ChainedInvokeDetails(error=val)
                            )
                        elif kind == "stopped":
                            self.ops[i] = replace(
                                op, status=OperationStatus.STOPPED, chained_invoke_details=ChainedInvokeDetails(error=val)
                            )

    def invocation_input(self, roundtrip_json: bool = False):
        with self.lock:
            allops = [self.exec_op] + [self.ops[i] for i in self.order]
            if roundtrip_json:
                allops = [Operation.from_json_dict(o.to_json_dict()) for o in allops]
            if self.page_size and len(allops) > self.page_size:
                first, marker = allops[: self.page_size], str(self.page_size)
            else:
                first, marker = allops, ""
            self.token += 1
            return DurableExecutionInvocationInputWithClient(
                durable_execution_arn="arn:test",
                checkpoint_token=f"tok-{self.token}",
                initial_execution_state=InitialExecutionState(operations=first, next_marker=marker),
                service_client=self,
            )


class Observer:
    """Records what each durable call delivered to user code, per invocation."""

    def __init__(self):
        self.invocation = 0
        self.records: dict[str, list[tuple[int, tuple]]] = {}
        self.lock = threading.Lock()

    def obs(self, label: str, thunk: Callable[[], Any]):
        try:
            v = thunk()
        except Exception as e:  # noqa: BLE001  (Suspend / Crash are BaseException: not an observation)
            rec = ("raise", type(e).__name__, str(e))
            with self.lock:
                self.records.setdefault(label, []).append((self.invocation, rec))
            raise
        rec = ("value", type(v).__name__, describe(v))
        with self.lock:
            self.records.setdefault(label, []).append((self.invocation, rec))
        return v

    def inconsistencies(self):
        bad = []
        for label, recs in self.records.items():
            distinct = []
            for _, r in recs:
                if r not in distinct:
                    distinct.append(r)
            if len(distinct) > 1:
                bad.append((label, recs))
        return bad


def describe(v):
    from aws_durable_execution_sdk_python.concurrency.models import BatchResult

    if isinstance(v, BatchResult):
        return repr(
            (
                v.completion_reason.value,
                [
                    (
                        i.index,
                        i.status.value,
                        type(i.result).__name__,
                        repr(i.result),
                        (i.error.type, i.error.message) if i.error else None,
                    )
                    for i in v.all
                ],
            )
        )
    return repr(v)


class FakeLambdaContext:
    aws_request_id = "req"
    invoked_function_arn = "arn:fn"
    log_group_name = "lg"
    log_stream_name = "ls"
    function_name = "fn"
    memory_limit_in_mb = 128
    function_version = "1"
    client_context = None
    identity = None
    tenant_id = None

    def get_remaining_time_in_millis(self):
        return 100000


def drive(
    workflow: Callable,
    backend: Backend,
    observer: Observer | None = None,
    max_invocations: int = 30,
    before_invocation: Callable[[int, Backend], None] | None = None,
    roundtrip_json: bool = False,
):
    """Run the durable handler until it terminates. Returns (outcome, n_invocations, trace)."""
    handler = durable_execution(workflow)
    trace = []
    for n in range(1, max_invocations + 1):
        if observer:
            observer.invocation = n
        if before_invocation:
            before_invocation(n, backend)
        inp = backend.invocation_input(roundtrip_json=roundtrip_json)
        result_box: dict[str, Any] = {}

        def run():
            try:
                result_box["out"] = handler(inp, FakeLambdaContext())
            except BaseException as e:  # noqa: BLE001
                result_box["exc"] = e

        th = threading.Thread(target=run, daemon=True)
        th.start()
        th.join(timeout=60)
        if th.is_alive():
            raise AssertionError(f"invocation {n} hangs")
        if "exc" in result_box:
            e = result_box["exc"]
            trace.append((n, "RAISED", type(e).__name__, str(e)))
            backend.advance()
            continue
        out = result_box["out"]
        trace.append((n, out["Status"], out.get("Result"), out.get("Error")))
        if out["Status"] == "PENDING":
            backend.advance()
            continue
        return out, n, trace
    raise AssertionError(f"no termination after {max_invocations} invocations: {trace}")


def fast_batching(seconds: float = 0.002):
    """Shorten the checkpoint batching window (a legal configuration of ExecutionState) to speed sweeps up."""
    import aws_durable_execution_sdk_python.execution as ex
    from aws_durable_execution_sdk_python.state import CheckpointBatcherConfig, ExecutionState

    class FastState(ExecutionState):
        def __init__(self, *a, **kw):
            kw.setdefault("batcher_config", CheckpointBatcherConfig(max_batch_time_seconds=seconds))
            super().__init__(*a, **kw)

    ex.ExecutionState = FastState
