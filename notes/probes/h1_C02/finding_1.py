"""C02 finding 1: a failing wait_for_condition delivers a different exception class on replay.

Run:  cd /tmp/wt/h1_C02 && PYTHONPATH=/tmp/wt/h1_C02/src /venv/bin/python finding_1.py

Workflow (deterministic, public API only):

    try:
        ctx.wait_for_condition(check, config)     # check raises ValueError("sensor offline")
    except ValueError:
        path = "handled-ValueError"
    except CallableRuntimeError:
        path = "handled-CallableRuntimeError"
    ctx.wait(Duration.from_seconds(5))              # forces a suspension -> the workflow is replayed
    return path

On the invocation in which the check function runs, WaitForConditionOperationExecutor.execute()
checkpoints FAIL and re-raises the ORIGINAL exception (ValueError).  On every later invocation the
operation is FAILED in the history and check_result_status() raises CallableRuntimeError instead.
So the same durable call delivers ValueError first and CallableRuntimeError on replay; user control
flow takes a different except-branch and the final result of the execution depends on whether the
execution was suspended after the wait_for_condition call.
"""

from __future__ import annotations

import logging
import sys

from aws_durable_execution_sdk_python.config import Duration
from aws_durable_execution_sdk_python.exceptions import CallableRuntimeError
from aws_durable_execution_sdk_python.waits import (
    WaitForConditionConfig,
    WaitForConditionDecision,
)

from harness import Backend, Observer, drive

logging.disable(logging.CRITICAL)  # the SDK logs the check failure with a traceback; keep the output readable


def strategy(state, attempt):
    return WaitForConditionDecision.stop_polling()


def check(state, check_ctx):
    msg = "sensor offline"
    raise ValueError(msg)


def make_workflow(observer: Observer, with_wait: bool):
    def workflow(event, ctx):
        try:
            observer.obs(
                "wait_for_condition#1",
                lambda: ctx.wait_for_condition(
                    check, WaitForConditionConfig(wait_strategy=strategy, initial_state=0), name="poll"
                ),
            )
            path = "no-error"
        except ValueError:
            path = "handled-ValueError"
        except CallableRuntimeError:
            path = "handled-CallableRuntimeError"
        if with_wait:
            ctx.wait(Duration.from_seconds(5), name="pause")
        return path

    return workflow


def main() -> int:
    # Reference: the same program without any suspension after the failing call.
    obs_a = Observer()
    out_a, n_a, _ = drive(make_workflow(obs_a, with_wait=False), Backend(), obs_a)
    # Same program; a wait suspends the execution once, so the call is replayed.
    obs_b = Observer()
    out_b, n_b, trace_b = drive(make_workflow(obs_b, with_wait=True), Backend(), obs_b)

    print("no suspension :", n_a, "invocation(s), result", out_a.get("Result"))
    print("one suspension:", n_b, "invocation(s), result", out_b.get("Result"))
    for label, recs in obs_b.records.items():
        for inv, rec in recs:
            print(f"   {label}: invocation {inv} delivered {rec}")

    bad = obs_b.inconsistencies()
    assert not bad, (
        "C02 violated: wait_for_condition delivered different exceptions on first completion and on "
        f"replay: {bad}"
    )
    assert out_a.get("Result") == out_b.get("Result"), (
        f"C02 violated: final result depends on suspension: {out_a.get('Result')} vs {out_b.get('Result')}"
    )
    return 0


if __name__ == "__main__":
    sys.exit(main())
