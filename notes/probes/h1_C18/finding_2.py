"""C18 finding 2 - "SUCCEEDED (JSON result)": a handler result containing NaN / Infinity is reported as
SUCCEEDED with a Result string that is not JSON.

execution.py:durable_execution.wrapper serializes the handler's return value with a bare
json.dumps(result).  Python's encoder has allow_nan=True by default and emits the bare tokens NaN,
Infinity and -Infinity, which are not part of JSON (RFC 8259); every strict parser - the durable
execution backend, a JavaScript / Java consumer of the execution result, json.loads(..., parse_constant=raise) -
rejects the document.  The property demands for ALL return values ("JSON-serializable or not") either
SUCCEEDED with a JSON result or FAILED; here the value is not representable in JSON, yet the invocation
is classified SUCCEEDED and carries a malformed Result.

Run:  PYTHONPATH=/tmp/wt/h1_C18/src /venv/bin/python finding_2.py     (exits non-zero on the current code)
"""

from __future__ import annotations

import json
import logging
import os
import sys
import threading
from unittest.mock import Mock

from aws_durable_execution_sdk_python import durable_execution
from aws_durable_execution_sdk_python.execution import (
    DurableExecutionInvocationInputWithClient,
    InitialExecutionState,
)
from aws_durable_execution_sdk_python.lambda_service import (
    CheckpointOutput,
    CheckpointUpdatedExecutionState,
    ExecutionDetails,
    Operation,
    OperationStatus,
    OperationType,
)

logging.disable(logging.CRITICAL)


class Client:
    def checkpoint(self, durable_execution_arn, checkpoint_token, updates, client_token):
        return CheckpointOutput("tok", CheckpointUpdatedExecutionState())

    def get_execution_state(self, *a, **k):  # pragma: no cover
        raise AssertionError("not paginated")


def invoke(handler):
    event = DurableExecutionInvocationInputWithClient(
        durable_execution_arn="arn:test",
        checkpoint_token="t0",
        initial_execution_state=InitialExecutionState(
            operations=[
                Operation(
                    operation_id="exec",
                    operation_type=OperationType.EXECUTION,
                    status=OperationStatus.STARTED,
                    execution_details=ExecutionDetails(input_payload="{}"),
                )
            ],
            next_marker="",
        ),
        service_client=Client(),
    )
    box = {}

    def run():
        try:
            box["resp"] = handler(event, Mock())
        except BaseException as e:  # noqa: BLE001
            box["exc"] = e

    t = threading.Thread(target=run, daemon=True)
    t.start()
    t.join(30)
    assert not t.is_alive(), "wrapper hung"
    return box


def strict_json_loads(text: str):
    def reject(token):
        raise ValueError(f"{token} is not a JSON token")

    return json.loads(text, parse_constant=reject)


def main() -> int:
    failures = []
    values = {
        "mean of an empty sample": {"mean": float("nan"), "count": 0},
        "unbounded limit": {"limit": float("inf")},
        "bare float": float("-inf"),
    }
    for label, value in values.items():

        @durable_execution
        def handler(event, context, value=value):
            # the value also survives a step: the default step serializer writes/reads NaN symmetrically
            return context.step(lambda _: value, name="compute")

        box = invoke(handler)
        assert "exc" not in box, f"unexpected raise {box.get('exc')!r}"
        resp = box["resp"]
        print(f"{label}: {resp}")
        if resp["Status"] == "SUCCEEDED":
            try:
                strict_json_loads(resp["Result"])
            except ValueError as e:
                failures.append(f"{label}: Status SUCCEEDED but Result {resp['Result']!r} is not JSON ({e})")
        else:
            assert resp["Status"] == "FAILED" and "Error" in resp

    for f in failures:
        print("VIOLATION:", f)
    sys.stdout.flush()
    return 1 if failures else 0


if __name__ == "__main__":
    rc = main()
    assert rc == 0, "C18 violated: SUCCEEDED outcome whose Result is not well-formed JSON (see above)"
    os._exit(rc)
