"""C18 finding 1 - "any size": a result that fits the inline limit only BEFORE it is put into the response envelope.

The wrapper decides "inline or checkpoint" by comparing len(json.dumps(result)) with
LAMBDA_RESPONSE_SIZE_LIMIT (6 MB - 50 bytes "for the envelope").  But the serialized result is
returned as a *string value* inside {"Status": "SUCCEEDED", "Result": "<serialized>"}; when the
Lambda runtime JSON-encodes that dict every '"' and '\\' of the serialized result is escaped again.
Any structured result (objects, arrays of strings: they are full of quotes) between ~4 MB and 6 MB
is therefore answered inline although the real response is larger than Lambda's 6 MB response limit:
the invocation cannot deliver its SUCCEEDED outcome (Lambda rejects the response), and the large-result
path that exists exactly for this case (checkpoint EXECUTION SUCCEED, answer Result="") is not taken.

(Second manifestation, same cause: `except ExecutionError` answers FAILED inline without any size check.)

Run:  PYTHONPATH=/tmp/wt/h1_C18/src /venv/bin/python finding_1.py     (exits non-zero on the current code)
"""

from __future__ import annotations

import json
import logging
import os
import sys
import threading
from unittest.mock import Mock

from aws_durable_execution_sdk_python import durable_execution
from aws_durable_execution_sdk_python.exceptions import ExecutionError
from aws_durable_execution_sdk_python.execution import (
    LAMBDA_RESPONSE_SIZE_LIMIT,
    DurableExecutionInvocationInputWithClient,
    InitialExecutionState,
)
from aws_durable_execution_sdk_python.lambda_service import (
    CheckpointOutput,
    CheckpointUpdatedExecutionState,
    ExecutionDetails,
    Operation,
    OperationStatus,
    OperationType,
)

logging.disable(logging.CRITICAL)
LAMBDA_MAX_RESPONSE_BYTES = 6 * 1024 * 1024


class Client:
    def __init__(self):
        self.calls = []

    def checkpoint(self, durable_execution_arn, checkpoint_token, updates, client_token):
        self.calls.append(list(updates))
        return CheckpointOutput("tok", CheckpointUpdatedExecutionState())

    def get_execution_state(self, *a, **k):  # pragma: no cover
        raise AssertionError("not paginated")


def invoke(handler):
    client = Client()
    event = DurableExecutionInvocationInputWithClient(
        durable_execution_arn="arn:test",
        checkpoint_token="t0",
        initial_execution_state=InitialExecutionState(
            operations=[
                Operation(
                    operation_id="exec",
                    operation_type=OperationType.EXECUTION,
                    status=OperationStatus.STARTED,
                    execution_details=ExecutionDetails(input_payload="{}"),
                )
            ],
            next_marker="",
        ),
        service_client=client,
    )
    box = {}

    def run():
        try:
            box["resp"] = handler(event, Mock())
        except BaseException as e:  # noqa: BLE001
            box["exc"] = e

    t = threading.Thread(target=run, daemon=True)
    t.start()
    t.join(120)
    assert not t.is_alive(), "wrapper hung"
    return box, client


def wire_sizes(resp) -> tuple[int, int]:
    """Size of the response as the Python Lambda runtime would send it (default and most compact encoding)."""
    default = len(json.dumps(resp).encode("utf-8"))
    compact = len(json.dumps(resp, ensure_ascii=False, separators=(",", ":")).encode("utf-8"))
    return default, compact


# A perfectly ordinary structured result: 95_000 small records, ~5.5 MB of JSON.
RECORDS = [{"id": i, "name": "item", "state": "done", "ok": True} for i in range(95_000)]


@durable_execution
def handler(event, context):
    return RECORDS


@durable_execution
def handler_execution_error(event, context):
    raise ExecutionError("x" * (7 * 1024 * 1024))


def main() -> int:
    failures = []

    serialized_len = len(json.dumps(RECORDS))
    assert serialized_len <= LAMBDA_RESPONSE_SIZE_LIMIT, "test set-up: result must be below the SDK's inline limit"
    box, client = invoke(handler)
    assert "exc" not in box, f"unexpected raise {box.get('exc')!r}"
    resp = box["resp"]
    default, compact = wire_sizes(resp)
    print(
        f"[1] json.dumps(result) = {serialized_len} chars (limit {LAMBDA_RESPONSE_SIZE_LIMIT}); "
        f"Status={resp['Status']}, inline Result of {len(resp.get('Result', ''))} chars, "
        f"checkpoint calls={len(client.calls)}; response on the wire: {default} bytes "
        f"(most compact encoding {compact}); Lambda maximum {LAMBDA_MAX_RESPONSE_BYTES}"
    )
    if compact > LAMBDA_MAX_RESPONSE_BYTES:
        failures.append(
            f"SUCCEEDED outcome answered inline but the response is {compact} bytes > {LAMBDA_MAX_RESPONSE_BYTES} "
            "(6 MB Lambda response limit): the outcome cannot be delivered; EXECUTION SUCCEED was not checkpointed"
        )

    box, client = invoke(handler_execution_error)
    assert "exc" not in box, f"unexpected raise {box.get('exc')!r}"
    resp = box["resp"]
    default, compact = wire_sizes(resp)
    print(
        f"[2] ExecutionError with a 7 MB message: Status={resp['Status']}, checkpoint calls={len(client.calls)}, "
        f"response on the wire {compact} bytes"
    )
    if compact > LAMBDA_MAX_RESPONSE_BYTES:
        failures.append(
            f"FAILED outcome (ExecutionError path) answered inline with {compact} bytes > 6 MB; the generic "
            "exception path checkpoints such an error, this path has no size check"
        )

    for f in failures:
        print("VIOLATION:", f)
    sys.stdout.flush()
    return 1 if failures else 0


if __name__ == "__main__":
    rc = main()
    assert rc == 0, "C18 'any size' violated: wrapper returned an outcome that exceeds the Lambda response limit (see above)"
    os._exit(rc)
