"""C18 finding 3 - "raises only for errors that must trigger a Lambda retry": a user exception that derives
from BaseException (not Exception) escapes the wrapper as a raise instead of becoming FAILED.

execution.py:durable_execution.wrapper has handlers for BackgroundThreadError, SuspendExecution,
CheckpointError, InvocationError, ExecutionError and `except Exception`.  Anything else that derives
from BaseException - asyncio.CancelledError (BaseException since Python 3.8; what `asyncio.run()` re-raises when
the main task was cancelled), BaseExceptionGroup, GeneratorExit, SystemExit - is stored in the user future
by the ThreadPoolExecutor, re-raised by user_future.result() and matches no clause: the wrapper raises.
Lambda treats that as a function error and retries the invocation; the replay runs into the same exception
again, so the execution never reaches FAILED although the error is an ordinary, deterministic user error
and not a "retriable checkpoint/invocation error".  The same holds when the exception is raised inside
a step (step.execute has only `except Exception`: neither RETRY nor FAIL is checkpointed) or inside a
map/parallel branch (ConcurrentExecutor stores it as _fatal_exception and re-raises it).

Run:  PYTHONPATH=/tmp/wt/h1_C18/src /venv/bin/python finding_3.py     (exits non-zero on the current code)
"""

from __future__ import annotations

import asyncio
import logging
import os
import sys
import threading
import time
from unittest.mock import Mock

from aws_durable_execution_sdk_python import durable_execution
from aws_durable_execution_sdk_python.execution import (
    DurableExecutionInvocationInputWithClient,
    InitialExecutionState,
)
from aws_durable_execution_sdk_python.lambda_service import (
    CheckpointOutput,
    CheckpointUpdatedExecutionState,
    ExecutionDetails,
    Operation,
    OperationStatus,
    OperationType,
)

logging.disable(logging.CRITICAL)


class Client:
    def __init__(self):
        self.calls = []

    def checkpoint(self, durable_execution_arn, checkpoint_token, updates, client_token):
        self.calls.append(list(updates))
        ops = [
            Operation(operation_id=u.operation_id, operation_type=u.operation_type,
                      status=OperationStatus.STARTED, parent_id=u.parent_id)
            for u in updates
            if u.operation_type is not OperationType.EXECUTION and u.action.value == "START"
        ]
        return CheckpointOutput("tok", CheckpointUpdatedExecutionState(operations=ops))

    def get_execution_state(self, *a, **k):  # pragma: no cover
        raise AssertionError("not paginated")


def invoke(handler):
    client = Client()
    event = DurableExecutionInvocationInputWithClient(
        durable_execution_arn="arn:test",
        checkpoint_token="t0",
        initial_execution_state=InitialExecutionState(
            operations=[
                Operation(
                    operation_id="exec",
                    operation_type=OperationType.EXECUTION,
                    status=OperationStatus.STARTED,
                    execution_details=ExecutionDetails(input_payload="{}"),
                )
            ],
            next_marker="",
        ),
        service_client=client,
    )
    box = {}

    def run():
        try:
            box["resp"] = handler(event, Mock())
        except BaseException as e:  # noqa: BLE001
            box["exc"] = e

    t = threading.Thread(target=run, daemon=True)
    t.start()
    t.join(30)
    assert not t.is_alive(), "wrapper hung"
    time.sleep(0.05)
    box["threads"] = [th.name for th in threading.enumerate() if th.name.startswith("dex-handler")]
    return box, client


async def fetch_with_cancelled_subtask():
    task = asyncio.ensure_future(asyncio.sleep(60))
    task.cancel()
    return await task  # -> asyncio.CancelledError, re-raised by asyncio.run()


@durable_execution
def handler_top_level(event, context):
    return asyncio.run(fetch_with_cancelled_subtask())


@durable_execution
def handler_in_step(event, context):
    return context.step(lambda _: asyncio.run(fetch_with_cancelled_subtask()), name="fetch")


@durable_execution
def handler_in_map(event, context):
    def item(ctx, it, i, items):
        return ctx.step(lambda _: asyncio.run(fetch_with_cancelled_subtask()), name="fetch")

    return context.map([1, 2], item).get_results()


@durable_execution
def handler_base_exception_group(event, context):
    raise BaseExceptionGroup("two things went wrong", [asyncio.CancelledError(), ValueError("x")])


def main() -> int:
    failures = []
    handlers = {
        "CancelledError from asyncio.run() in the handler": handler_top_level,
        "CancelledError inside a step": handler_in_step,
        "CancelledError inside a step of a map item": handler_in_map,
        "BaseExceptionGroup raised by the handler": handler_base_exception_group,
    }
    for name, handler in handlers.items():
        box, client = invoke(handler)
        if "exc" in box:
            e = box["exc"]
            print(f"{name}: wrapper RAISED {type(e).__module__}.{type(e).__name__} "
                  f"(checkpoint calls: {[[(u.operation_type.value, u.action.value) for u in c] for c in client.calls]}, "
                  f"background threads alive: {box['threads']})")
            failures.append(
                f"{name}: user exception {type(e).__name__} escaped as a raise (-> Lambda retry) instead of Status FAILED"
            )
        else:
            print(f"{name}: returned {box['resp']}")
            assert box["resp"]["Status"] == "FAILED"
    for f in failures:
        print("VIOLATION:", f)
    sys.stdout.flush()
    return 1 if failures else 0


if __name__ == "__main__":
    rc = main()
    assert rc == 0, "C18 violated: wrapper raised for a non-retriable user exception (see above)"
    os._exit(rc)
