"""In-memory fake backend + helpers for driving durable_execution (scratch harness for C18)."""

from __future__ import annotations

import datetime
import threading
import time
from typing import Any
from unittest.mock import Mock

from aws_durable_execution_sdk_python.exceptions import (
    CheckpointError,
    CheckpointErrorCategory,
)
from aws_durable_execution_sdk_python.execution import (
    DurableExecutionInvocationInputWithClient,
    InitialExecutionState,
)
from aws_durable_execution_sdk_python.lambda_service import (
    CallbackDetails,
    ChainedInvokeDetails,
    CheckpointOutput,
    CheckpointUpdatedExecutionState,
    ContextDetails,
    ExecutionDetails,
    Operation,
    OperationAction,
    OperationStatus,
    OperationType,
    StateOutput,
    StepDetails,
    WaitDetails,
)


def retriable_error(msg="retriable"):
    return CheckpointError(msg, CheckpointErrorCategory.EXECUTION)


def nonretriable_error(msg="non-retriable"):
    return CheckpointError(msg, CheckpointErrorCategory.INVOCATION)


class FakeBackend:
    """Records checkpoints and plays them back as history."""

    def __init__(self, input_payload: str | None = "{}", page_size: int | None = None):
        self.ops: dict[str, Operation] = {}
        self.order: list[str] = []
        self.calls: list[list] = []
        self.lock = threading.Lock()
        self.page_size = page_size
        self.fail_when = None  # callable(updates, call_index) -> Exception | None
        self.token = 0
        self._put(
            Operation(
                operation_id="exec-0",
                operation_type=OperationType.EXECUTION,
                status=OperationStatus.STARTED,
                execution_details=ExecutionDetails(input_payload=input_payload),
            )
        )

    def _put(self, op: Operation):
        if op.operation_id not in self.ops:
            self.order.append(op.operation_id)
        self.ops[op.operation_id] = op

    # --- service client protocol
    def checkpoint(self, durable_execution_arn, checkpoint_token, updates, client_token):
        with self.lock:
            idx = len(self.calls)
            self.calls.append(list(updates))
            if self.fail_when is not None:
                err = self.fail_when(updates, idx)
                if err is not None:
                    raise err
            changed = []
            for u in updates:
                changed.append(self._apply(u))
            self.token += 1
            return CheckpointOutput(
                checkpoint_token=f"tok-{self.token}",
                new_execution_state=CheckpointUpdatedExecutionState(
                    operations=[c for c in changed if c is not None]
                ),
            )

    def get_execution_state(self, durable_execution_arn, checkpoint_token, next_marker, max_items=1000):
        with self.lock:
            start = int(next_marker)
            ids = self.order[start : start + (self.page_size or 1000)]
            nxt = start + len(ids)
            return StateOutput(
                operations=[self.ops[i] for i in ids],
                next_marker=str(nxt) if nxt < len(self.order) else None,
            )

    def _apply(self, u):
        now = datetime.datetime.now(tz=datetime.UTC)
        old = self.ops.get(u.operation_id)
        if u.operation_type is OperationType.EXECUTION:
            return None
        kw: dict[str, Any] = dict(
            operation_id=u.operation_id,
            operation_type=u.operation_type,
            parent_id=u.parent_id,
            name=u.name,
            sub_type=u.sub_type,
        )
        attempt = old.step_details.attempt if old and old.step_details else 0
        if u.action is OperationAction.START:
            status = OperationStatus.STARTED
            if u.operation_type is OperationType.WAIT:
                kw["wait_details"] = WaitDetails(
                    scheduled_end_timestamp=now + datetime.timedelta(seconds=u.wait_options.wait_seconds)
                )
            elif u.operation_type is OperationType.CALLBACK:
                kw["callback_details"] = CallbackDetails(callback_id=f"cb-{u.operation_id[:8]}")
            elif u.operation_type is OperationType.CHAINED_INVOKE:
                kw["chained_invoke_details"] = ChainedInvokeDetails()
            elif u.operation_type is OperationType.STEP:
                kw["step_details"] = StepDetails(
                    attempt=attempt, result=old.step_details.result if old and old.step_details else None
                )
        elif u.action is OperationAction.SUCCEED:
            status = OperationStatus.SUCCEEDED
            if u.operation_type is OperationType.STEP:
                kw["step_details"] = StepDetails(attempt=attempt + 1, result=u.payload)
            elif u.operation_type is OperationType.CONTEXT:
                kw["context_details"] = ContextDetails(
                    replay_children=bool(u.context_options and u.context_options.replay_children),
                    result=u.payload,
                )
        elif u.action is OperationAction.FAIL:
            status = OperationStatus.FAILED
            if u.operation_type is OperationType.STEP:
                kw["step_details"] = StepDetails(attempt=attempt + 1, error=u.error)
            elif u.operation_type is OperationType.CONTEXT:
                kw["context_details"] = ContextDetails(error=u.error)
        elif u.action is OperationAction.RETRY:
            status = OperationStatus.PENDING
            kw["step_details"] = StepDetails(
                attempt=attempt + 1,
                next_attempt_timestamp=now
                + datetime.timedelta(seconds=u.step_options.next_attempt_delay_seconds),
                result=u.payload,
                error=u.error,
            )
        else:
            status = OperationStatus.CANCELLED
        op = Operation(status=status, **kw)
        self._put(op)
        return op

    # --- backend-side deliveries between invocations
    def complete_waits(self):
        for i, op in list(self.ops.items()):
            if op.operation_type is OperationType.WAIT and op.status is OperationStatus.STARTED:
                self.ops[i] = Operation(
                    operation_id=op.operation_id, operation_type=op.operation_type,
                    status=OperationStatus.SUCCEEDED, parent_id=op.parent_id, name=op.name,
                    sub_type=op.sub_type, wait_details=op.wait_details)

    def ready_retries(self):
        for i, op in list(self.ops.items()):
            if op.operation_type is OperationType.STEP and op.status is OperationStatus.PENDING:
                self.ops[i] = Operation(
                    operation_id=op.operation_id, operation_type=op.operation_type,
                    status=OperationStatus.READY, parent_id=op.parent_id, name=op.name,
                    sub_type=op.sub_type, step_details=op.step_details)

    def complete_callbacks(self, result='"ok"'):
        for i, op in list(self.ops.items()):
            if op.operation_type is OperationType.CALLBACK and op.status is OperationStatus.STARTED:
                self.ops[i] = Operation(
                    operation_id=op.operation_id, operation_type=op.operation_type,
                    status=OperationStatus.SUCCEEDED, parent_id=op.parent_id, name=op.name,
                    sub_type=op.sub_type,
                    callback_details=CallbackDetails(callback_id=op.callback_details.callback_id, result=result))

    def complete_invokes(self, result='"ok"'):
        for i, op in list(self.ops.items()):
            if op.operation_type is OperationType.CHAINED_INVOKE and op.status is OperationStatus.STARTED:
                self.ops[i] = Operation(
                    operation_id=op.operation_id, operation_type=op.operation_type,
                    status=OperationStatus.SUCCEEDED, parent_id=op.parent_id, name=op.name,
                    sub_type=op.sub_type, chained_invoke_details=ChainedInvokeDetails(result=result))

    def invocation_input(self, first_page: int | None = None):
        ids = self.order
        if first_page is None or first_page >= len(ids):
            ops = [self.ops[i] for i in ids]
            marker = ""
        else:
            ops = [self.ops[i] for i in ids[:first_page]]
            marker = str(first_page)
        return DurableExecutionInvocationInputWithClient(
            durable_execution_arn="arn:test",
            checkpoint_token=f"tok-{self.token}",
            initial_execution_state=InitialExecutionState(operations=ops, next_marker=marker),
            service_client=self,
        )


def lambda_context():
    ctx = Mock()
    ctx.aws_request_id = "req"
    ctx.client_context = None
    ctx.identity = None
    ctx._epoch_deadline_time_in_ms = 1000000
    ctx.invoked_function_arn = None
    ctx.tenant_id = None
    return ctx


class Outcome:
    def __init__(self):
        self.result = None
        self.raised: BaseException | None = None
        self.hung = False
        self.leftover_threads: list[str] = []

    def __repr__(self):
        if self.hung:
            return "<HUNG>"
        if self.raised is not None:
            return f"<RAISED {type(self.raised).__name__}: {str(self.raised)[:100]}>"
        r = dict(self.result) if isinstance(self.result, dict) else self.result
        if isinstance(r, dict) and isinstance(r.get("Result"), str) and len(r["Result"]) > 80:
            r["Result"] = r["Result"][:40] + f"...({len(self.result['Result'])} chars)"
        return f"<RETURNED {r}>"


def invoke(handler, backend: FakeBackend, timeout=20.0, first_page=None) -> Outcome:
    """Run one invocation in a thread so that a hang is detected."""
    out = Outcome()

    def run():
        try:
            out.result = handler(backend.invocation_input(first_page), lambda_context())
        except BaseException as e:  # noqa: BLE001
            out.raised = e

    t = threading.Thread(target=run, daemon=True)
    t.start()
    t.join(timeout)
    if t.is_alive():
        out.hung = True
    time.sleep(0.05)
    out.leftover_threads = [
        th.name for th in threading.enumerate() if th.name.startswith("dex-handler")
    ]
    return out


def check_wellformed(out: Outcome):
    """Return list of problems with the outcome's shape."""
    import json

    probs = []
    if out.hung:
        return ["hung"]
    if out.raised is not None:
        return probs
    r = out.result
    if not isinstance(r, dict):
        return [f"not a dict: {type(r)}"]
    st = r.get("Status")
    if st == "SUCCEEDED":
        if "Error" in r:
            probs.append("SUCCEEDED with Error")
        if "Result" not in r:
            probs.append("SUCCEEDED without Result")
        elif r["Result"] != "":
            try:
                json.loads(r["Result"], parse_constant=lambda c: (_ for _ in ()).throw(ValueError(c)))
            except ValueError as e:
                probs.append(f"Result not strict JSON: {e}")
    elif st == "FAILED":
        if "Result" in r:
            probs.append("FAILED with Result")
    elif st == "PENDING":
        if "Result" in r or "Error" in r:
            probs.append("PENDING with payload")
    else:
        probs.append(f"bad status {st}")
    if out.leftover_threads:
        probs.append(f"threads alive: {out.leftover_threads}")
    return probs
