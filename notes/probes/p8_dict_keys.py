from aws_durable_execution_sdk_python.serdes import serialize, deserialize
for v in ({1:"a", None:"b", 1.5:"c"}, {True:"x", 1:"y"}):
    try:
        s=serialize(None, v, "op", "arn"); print(v, "->", deserialize(None, s, "op", "arn"))
    except Exception as e: print(v, "rejected:", type(e).__name__)
