"""Fault-injection harness for property C03 (write-ahead).

An in-memory backend that applies checkpoint updates to an operation table, can fail / delay the
k-th checkpoint call, delivers waits / retries / callbacks / invokes between invocations and hands
the recorded history (paginated) to the next invocation.

OperationExecutor.process is wrapped (monkeypatched in this process only, src is untouched) so that
every outcome handed to user code is compared with what the backend had ACCEPTED at that moment.
"""

from __future__ import annotations

import datetime
import threading
import time
from dataclasses import replace
from unittest.mock import Mock

from aws_durable_execution_sdk_python.exceptions import CheckpointError, CheckpointErrorCategory
from aws_durable_execution_sdk_python.execution import (
    DurableExecutionInvocationInputWithClient,
    InitialExecutionState,
    durable_execution,
)
from aws_durable_execution_sdk_python.lambda_service import (
    CallbackDetails,
    ChainedInvokeDetails,
    CheckpointOutput,
    CheckpointUpdatedExecutionState,
    ContextDetails,
    ExecutionDetails,
    Operation,
    OperationAction,
    OperationStatus,
    OperationType,
    StateOutput,
    StepDetails,
    WaitDetails,
)
from aws_durable_execution_sdk_python.operation import base as op_base

UTC = datetime.UTC
TERMINAL = {
    OperationStatus.SUCCEEDED,
    OperationStatus.FAILED,
    OperationStatus.CANCELLED,
    OperationStatus.STOPPED,
    OperationStatus.TIMED_OUT,
}


class Backend:
    def __init__(self, input_payload="{}", page_size=1000):
        self.lock = threading.Lock()
        self.ops: dict[str, Operation] = {}
        self.order: list[str] = []
        self.calls = 0  # checkpoint calls of the whole execution
        self.accepted_updates = []
        self.fail_at: int | None = None  # 1-based index of the call that fails
        self.fail_retriable = False
        self.delay_at: int | None = None
        self.delay_seconds = 0.0
        self.failed_calls = 0
        self.page_size = page_size
        self.token = 0
        self.violations: list[str] = []
        self._put(
            Operation(
                operation_id="exec-0",
                operation_type=OperationType.EXECUTION,
                status=OperationStatus.STARTED,
                execution_details=ExecutionDetails(input_payload=input_payload),
            )
        )

    def _put(self, op: Operation):
        if op.operation_id not in self.ops:
            self.order.append(op.operation_id)
        self.ops[op.operation_id] = op

    # -- service client interface
    def checkpoint(self, durable_execution_arn, checkpoint_token, updates, client_token):
        with self.lock:
            self.calls += 1
            n = self.calls
        if self.delay_at == n:
            time.sleep(self.delay_seconds)
        if self.fail_at is not None and n >= self.fail_at:
            self.failed_calls += 1
            cat = (
                CheckpointErrorCategory.EXECUTION
                if self.fail_retriable
                else CheckpointErrorCategory.INVOCATION
            )
            raise CheckpointError(f"injected failure of call {n}", cat)
        with self.lock:
            changed = []
            for u in updates:
                self._apply(u)
                changed.append(self.ops[u.operation_id]) if u.operation_type is not OperationType.EXECUTION else None
                self.accepted_updates.append(u)
            self.token += 1
            # also report everything the backend changed on its own (none here)
            return CheckpointOutput(
                checkpoint_token=f"tok-{self.token}",
                new_execution_state=CheckpointUpdatedExecutionState(
                    operations=[c for c in changed if c is not None], next_marker=None
                ),
            )

    def get_execution_state(self, durable_execution_arn, checkpoint_token, next_marker, max_items=1000):
        with self.lock:
            start = int(next_marker)
            ids = self.order[start : start + self.page_size]
            nxt = start + self.page_size
            return StateOutput(
                operations=[self.ops[i] for i in ids],
                next_marker=str(nxt) if nxt < len(self.order) else None,
            )

    # -- state machine
    def _apply(self, u):
        now = datetime.datetime.now(tz=UTC)
        old = self.ops.get(u.operation_id)
        if old is not None and old.status in TERMINAL and u.operation_type is not OperationType.EXECUTION:
            self.violations.append(f"update {u.action} for terminal operation {u.name or u.operation_id}")
        t = u.operation_type
        base = old or Operation(
            operation_id=u.operation_id,
            operation_type=t,
            status=OperationStatus.STARTED,
            parent_id=u.parent_id,
            name=u.name,
            sub_type=u.sub_type,
            start_timestamp=now,
        )
        if t is OperationType.EXECUTION:
            self.exec_result = u
            return
        if t is OperationType.STEP:
            sd = base.step_details or StepDetails()
            if u.action is OperationAction.START:
                op = replace(base, status=OperationStatus.STARTED, step_details=sd)
            elif u.action is OperationAction.SUCCEED:
                op = replace(base, status=OperationStatus.SUCCEEDED, step_details=replace(sd, result=u.payload))
            elif u.action is OperationAction.FAIL:
                op = replace(base, status=OperationStatus.FAILED, step_details=replace(sd, error=u.error))
            elif u.action is OperationAction.RETRY:
                op = replace(
                    base,
                    status=OperationStatus.PENDING,
                    step_details=replace(
                        sd,
                        attempt=sd.attempt + 1,
                        result=u.payload,
                        error=u.error,
                        next_attempt_timestamp=now
                        + datetime.timedelta(seconds=u.step_options.next_attempt_delay_seconds),
                    ),
                )
            else:
                raise AssertionError(u)
        elif t is OperationType.WAIT:
            op = replace(
                base,
                status=OperationStatus.STARTED,
                wait_details=WaitDetails(
                    scheduled_end_timestamp=now + datetime.timedelta(seconds=u.wait_options.wait_seconds)
                ),
            )
        elif t is OperationType.CALLBACK:
            op = replace(base, status=OperationStatus.STARTED, callback_details=CallbackDetails(callback_id=f"cb-{u.operation_id[:8]}"))
        elif t is OperationType.CHAINED_INVOKE:
            op = replace(base, status=OperationStatus.STARTED, chained_invoke_details=ChainedInvokeDetails())
        elif t is OperationType.CONTEXT:
            if u.action is OperationAction.START:
                op = replace(base, status=OperationStatus.STARTED)
            elif u.action is OperationAction.SUCCEED:
                op = replace(
                    base,
                    status=OperationStatus.SUCCEEDED,
                    context_details=ContextDetails(
                        replay_children=bool(u.context_options and u.context_options.replay_children),
                        result=u.payload,
                    ),
                )
            else:
                op = replace(base, status=OperationStatus.FAILED, context_details=ContextDetails(error=u.error))
        else:
            raise AssertionError(u)
        self._put(op)

    # -- what the service does between invocations
    def deliver(self):
        """Complete everything the execution is waiting for."""
        with self.lock:
            for i, op in list(self.ops.items()):
                if op.operation_type is OperationType.WAIT and op.status is OperationStatus.STARTED:
                    self.ops[i] = replace(op, status=OperationStatus.SUCCEEDED)
                elif op.operation_type is OperationType.STEP and op.status is OperationStatus.PENDING:
                    self.ops[i] = replace(op, status=OperationStatus.READY)
                elif op.operation_type is OperationType.CALLBACK and op.status is OperationStatus.STARTED:
                    self.ops[i] = replace(
                        op,
                        status=OperationStatus.SUCCEEDED,
                        callback_details=replace(op.callback_details, result='"cb-result"'),
                    )
                elif op.operation_type is OperationType.CHAINED_INVOKE and op.status is OperationStatus.STARTED:
                    self.ops[i] = replace(
                        op,
                        status=OperationStatus.SUCCEEDED,
                        chained_invoke_details=ChainedInvokeDetails(result='"invoke-result"'),
                    )

    def wakeable(self):
        out = []
        for op in self.ops.values():
            if op.operation_type in (OperationType.WAIT, OperationType.CALLBACK, OperationType.CHAINED_INVOKE) and op.status is OperationStatus.STARTED:
                out.append(op)
            if op.operation_type is OperationType.STEP and op.status is OperationStatus.PENDING:
                out.append(op)
        return out

    def invocation_input(self):
        with self.lock:
            first = [self.ops[i] for i in self.order[: self.page_size]]
            marker = str(self.page_size) if len(self.order) > self.page_size else ""
        return DurableExecutionInvocationInputWithClient(
            durable_execution_arn="arn:test",
            checkpoint_token=f"tok-{self.token}",
            initial_execution_state=InitialExecutionState(operations=first, next_marker=marker),
            service_client=self,
        )


_current_backend: Backend | None = None
_orig_process = op_base.OperationExecutor.process


def _checked_process(self):
    backend = _current_backend
    oid = self.operation_identifier.operation_id
    label = self.operation_identifier.name or oid[:8]
    kind = type(self).__name__
    try:
        result = _orig_process(self)
    except Exception as e:  # a final error handed to user code (BaseException = control flow)
        if backend is not None:
            with backend.lock:
                op = backend.ops.get(oid)
            if op is None or op.status not in TERMINAL:
                backend.violations.append(
                    f"{kind} {label}: raised {type(e).__name__}({e}) but backend status is {op.status if op else None}"
                )
        raise
    if backend is not None:
        with backend.lock:
            op = backend.ops.get(oid)
        if kind == "CallbackOperationExecutor":
            ok = op is not None
        else:
            ok = op is not None and op.status in TERMINAL
        if not ok:
            backend.violations.append(
                f"{kind} {label}: returned {result!r} but backend status is {op.status if op else None}"
            )
    return result


def install():
    op_base.OperationExecutor.process = _checked_process


def lambda_context():
    ctx = Mock()
    ctx.aws_request_id = "req"
    ctx.client_context = None
    ctx.identity = None
    ctx._epoch_deadline_time_in_ms = 0  # noqa: SLF001
    ctx.invoked_function_arn = "arn"
    ctx.tenant_id = None
    return ctx


def run_execution(handler, backend: Backend, max_invocations=12, timeout=30.0):
    """Drive an execution to its end. Returns list of (status-or-exception) per invocation."""
    global _current_backend
    install()
    _current_backend = backend
    wrapped = durable_execution(handler)
    outcomes = []
    for _ in range(max_invocations):
        calls_failed_before = backend.failed_calls
        box = {}

        def target():
            try:
                box["out"] = wrapped(backend.invocation_input(), lambda_context())
            except BaseException as e:  # noqa: BLE001
                box["exc"] = e

        t = threading.Thread(target=target, daemon=True)
        t.start()
        t.join(timeout)
        if t.is_alive():
            outcomes.append("HANG")
            backend.violations.append("invocation hung")
            break
        failed_now = backend.failed_calls > calls_failed_before
        if "exc" in box:
            outcomes.append(f"raised {type(box['exc']).__name__}")
            if failed_now:
                # the invocation died; the service retries it (stop injecting)
                backend.fail_at = None
                continue
            break
        status = box["out"]["Status"]
        outcomes.append(status)
        if failed_now and status in ("SUCCEEDED", "PENDING"):
            backend.violations.append(f"invocation answered {status} although a checkpoint call failed")
        if status == "PENDING":
            if not backend.wakeable():
                backend.violations.append("PENDING but the backend holds nothing that wakes the execution")
            backend.deliver()
            continue
        if status == "FAILED" and failed_now:
            break
        break
    _current_backend = None
    return outcomes
