"""C03 finding 1: ctx.step() hands an error to user code although no terminal record (FAIL / RETRY)
was ever offered to the backend, when the step's retry strategy raises.

StepOperationExecutor.execute() catches the exception of the step function and calls
retry_handler(), which calls the user's retry strategy OUTSIDE any protection.  If the strategy
raises (here: it looks at `error.response[...]`, which only botocore's ClientError has), that
exception leaves ctx.step() as an ordinary `Exception`: user code catches it, takes its
"payment failed" path and the invocation answers PENDING / SUCCEEDED - while the backend still
holds the step as STARTED.  On the re-invocation the step is executed again, may well succeed
this time, and user code takes the other path: the outcome that was visible in the first invocation
was never recorded.

Run:  PYTHONPATH=src python finding_1.py      (exits non-zero on the current code)
"""

from __future__ import annotations

import datetime
import logging
import threading
from dataclasses import replace
from unittest.mock import Mock

from aws_durable_execution_sdk_python.config import Duration, StepConfig
from aws_durable_execution_sdk_python.execution import (
    DurableExecutionInvocationInputWithClient,
    InitialExecutionState,
    durable_execution,
)
from aws_durable_execution_sdk_python.lambda_service import (
    CheckpointOutput,
    CheckpointUpdatedExecutionState,
    ExecutionDetails,
    Operation,
    OperationAction,
    OperationStatus,
    OperationType,
    StateOutput,
    StepDetails,
    WaitDetails,
)
from aws_durable_execution_sdk_python.retries import RetryDecision

logging.disable(logging.CRITICAL)
UTC = datetime.UTC
TERMINAL = {OperationStatus.SUCCEEDED, OperationStatus.FAILED}


class Backend:
    """Minimal in-memory durable-execution backend (steps and waits)."""

    def __init__(self):
        self.lock = threading.Lock()
        self.ops: dict[str, Operation] = {
            "exec": Operation(
                operation_id="exec",
                operation_type=OperationType.EXECUTION,
                status=OperationStatus.STARTED,
                execution_details=ExecutionDetails(input_payload="{}"),
            )
        }
        self.updates = []

    def checkpoint(self, durable_execution_arn, checkpoint_token, updates, client_token):
        with self.lock:
            changed = []
            for u in updates:
                self.updates.append(u)
                old = self.ops.get(u.operation_id) or Operation(
                    operation_id=u.operation_id,
                    operation_type=u.operation_type,
                    status=OperationStatus.STARTED,
                    parent_id=u.parent_id,
                    name=u.name,
                    sub_type=u.sub_type,
                )
                if u.operation_type is OperationType.STEP:
                    sd = old.step_details or StepDetails()
                    if u.action is OperationAction.START:
                        new = replace(old, status=OperationStatus.STARTED, step_details=sd)
                    elif u.action is OperationAction.SUCCEED:
                        new = replace(old, status=OperationStatus.SUCCEEDED, step_details=replace(sd, result=u.payload))
                    elif u.action is OperationAction.FAIL:
                        new = replace(old, status=OperationStatus.FAILED, step_details=replace(sd, error=u.error))
                    else:  # RETRY
                        new = replace(
                            old,
                            status=OperationStatus.PENDING,
                            step_details=replace(
                                sd,
                                attempt=sd.attempt + 1,
                                error=u.error,
                                next_attempt_timestamp=datetime.datetime.now(tz=UTC)
                                + datetime.timedelta(seconds=u.step_options.next_attempt_delay_seconds),
                            ),
                        )
                elif u.operation_type is OperationType.WAIT:
                    new = replace(old, status=OperationStatus.STARTED, wait_details=WaitDetails())
                else:
                    raise AssertionError(u)
                self.ops[u.operation_id] = new
                changed.append(new)
            return CheckpointOutput(
                checkpoint_token="t",
                new_execution_state=CheckpointUpdatedExecutionState(operations=changed),
            )

    def get_execution_state(self, *a, **k):
        return StateOutput(operations=[], next_marker=None)

    def by_name(self, name):
        with self.lock:
            return next((o for o in self.ops.values() if o.name == name), None)

    def finish_waits(self):
        with self.lock:
            for i, o in list(self.ops.items()):
                if o.operation_type is OperationType.WAIT:
                    self.ops[i] = replace(o, status=OperationStatus.SUCCEEDED)

    def invocation_input(self):
        with self.lock:
            ops = list(self.ops.values())
        return DurableExecutionInvocationInputWithClient(
            durable_execution_arn="arn:test",
            checkpoint_token="t0",
            initial_execution_state=InitialExecutionState(operations=ops, next_marker=""),
            service_client=self,
        )


def lambda_context():
    ctx = Mock()
    ctx.aws_request_id = "req"
    ctx.client_context = None
    ctx.identity = None
    ctx._epoch_deadline_time_in_ms = 0  # noqa: SLF001
    ctx.invoked_function_arn = "arn"
    ctx.tenant_id = None
    return ctx


backend = Backend()
observed: list[tuple[int, str, str | None]] = []  # (invocation, what user code saw, backend status then)
invocation = {"n": 0}
charge_attempts = {"n": 0}


def retry_throttling_only(error: Exception, attempt: int) -> RetryDecision:
    """A perfectly ordinary strategy for steps that call AWS: retry throttling, nothing else."""
    code = error.response["Error"]["Code"]  # AttributeError for anything but botocore's ClientError
    if code == "ThrottlingException" and attempt < 5:
        return RetryDecision.retry(Duration(seconds=2))
    return RetryDecision.no_retry()


def charge(_step_context):
    charge_attempts["n"] += 1
    if charge_attempts["n"] == 1:
        raise ConnectionError("payment gateway unreachable")  # a flaky dependency: exactly what steps are for
    return "charged"


def handler(event, ctx):
    try:
        r = ctx.step(charge, name="charge", config=StepConfig(retry_strategy=retry_throttling_only))
        saw = f"result {r!r}"
    except Exception as e:  # noqa: BLE001 - the documented way to deal with a step that finally failed
        saw = f"error {type(e).__name__}"
    op = backend.by_name("charge")
    observed.append((invocation["n"], saw, op.status.value if op else None))
    ctx.wait(Duration(seconds=1), name="cool-down")
    return saw


def main() -> None:
    wrapped = durable_execution(handler)

    invocation["n"] = 1
    out1 = wrapped(backend.invocation_input(), lambda_context())
    backend.finish_waits()
    invocation["n"] = 2
    out2 = wrapped(backend.invocation_input(), lambda_context())

    print("invocation 1 answered", out1)
    print("invocation 2 answered", out2)
    print("user code observed   ", observed)
    print("updates offered to the backend:", [(u.name, u.action.value) for u in backend.updates])

    first = observed[0]
    # (1) the error was visible to user code before any terminal record of the step was accepted
    assert first[2] in {"FAILED", "SUCCEEDED"}, (
        f"C03 violated: ctx.step('charge') raised to user code ({first[1]}) while the backend holds the "
        f"step as {first[2]} - no FAIL/RETRY record was ever sent, yet the invocation answered {out1['Status']}"
    )
    # (2) ... and consequently the replay shows user code a different outcome of the same call
    assert observed[0][1] == observed[1][1], f"outcome changed on replay: {observed}"


if __name__ == "__main__":
    main()
