"""C06 finding 3 (needs a forced thread interleaving): a SYNCHRONOUS timer-driven resubmission checkpoint fails,
its caller is woken with the failure - and the invocation still returns PENDING.

Program (legal public API): a parallel with a branch that waits 1 s and a branch that, after some plain
computation, suspends on a callback at about the time the wait is due.

Interleaving (forced below by delaying the return of ConcurrentExecutor.should_execution_suspend, i.e. by
modelling a pre-emption of the pool thread that runs _on_task_complete; nothing else is touched):
  1. branch "y" finishes with SuspendExecution; _on_task_complete -> should_execution_suspend() sees branch
     "x" still SUSPENDED_WITH_TIMEOUT and decides "suspend the whole invocation" (TimedSuspendExecution);
  2. before that verdict is published, the TimerScheduler thread pops "x" (its wait is due), resets it to
     PENDING and the resubmitter calls execution_state.create_checkpoint()  -> a checkpoint API call is made;
  3. the verdict of (1) is published; execute() wakes up, finds _fatal_exception still None (the API call is
     in flight), and raises the stale TimedSuspendExecution.  Leaving `with TimerScheduler(...)` it even waits
     for the timer thread (TimerScheduler.shutdown takes the scheduler lock the timer thread holds);
  4. the API call FAILS; the timer thread is woken with BackgroundThreadError and stores it in
     _fatal_exception - which nobody reads any more (concurrency/executor.py: ConcurrentExecutor.execute does
     not re-check it after the scheduler has been shut down);
  5. the wrapper (execution.py: durable_execution.wrapper, `except SuspendExecution`) returns PENDING without
     looking at ExecutionState._checkpointing_failed.

Without the forced delay the window between (1) and the scheduler shutdown is well below a millisecond
(measured: the outcome flips between d=1.100 s and d=1.101 s of plain computation in branch "y"), so this is
a rare schedule - but the property is stated for every schedule.

Run:  PYTHONPATH=/tmp/wt/h1_C06/src /venv/bin/python /tmp/wt/h1_C06/finding_3.py     (takes ~3 s)
"""


from __future__ import annotations

import datetime
import logging
import sys
import threading
import time
from concurrent.futures import ThreadPoolExecutor

from aws_durable_execution_sdk_python.concurrency.executor import ConcurrentExecutor
from aws_durable_execution_sdk_python.config import Duration
from aws_durable_execution_sdk_python.exceptions import (
    CheckpointError,
    CheckpointErrorCategory,
    TimedSuspendExecution,
)
from aws_durable_execution_sdk_python.execution import (
    DurableExecutionInvocationInputWithClient,
    InitialExecutionState,
    durable_execution,
)
from aws_durable_execution_sdk_python.lambda_service import (
    CallbackDetails,
    CheckpointOutput,
    CheckpointUpdatedExecutionState,
    ExecutionDetails,
    Operation,
    OperationStatus,
    OperationType,
    StateOutput,
    WaitDetails,
)

logging.disable(logging.CRITICAL)  # the SDK logs the (expected) injected failure; keep the output readable

resubmission_call_started = threading.Event()


class FakeBackend:
    """In-memory checkpoint service. Fails the first EMPTY checkpoint call (= a timer-driven resubmission)."""

    def __init__(self, error: Exception):
        self.error = error
        self.calls: list[list[tuple[str | None, str]]] = []
        self.failed_call: int | None = None
        self.calls_after_failure = 0
        self.lock = threading.Lock()

    def checkpoint(self, durable_execution_arn, checkpoint_token, updates, client_token):
        with self.lock:
            self.calls.append([(u.name, u.action.value) for u in updates])
            if self.failed_call is not None:
                self.calls_after_failure += 1
            fail = self.failed_call is None and not updates
            if fail:
                self.failed_call = len(self.calls)
        if fail:
            resubmission_call_started.set()
            time.sleep(0.05)  # the call is in flight for 50 ms, then fails
            raise self.error
        ops = [self._apply(u) for u in updates]
        return CheckpointOutput(
            checkpoint_token=f"tok-{len(self.calls)}",
            new_execution_state=CheckpointUpdatedExecutionState(operations=ops, next_marker=None),
        )

    def get_execution_state(self, durable_execution_arn, checkpoint_token, next_marker, max_items=1000):
        return StateOutput(operations=[], next_marker=None)

    @staticmethod
    def _apply(u) -> Operation:
        kw = dict(operation_id=u.operation_id, operation_type=u.operation_type, parent_id=u.parent_id, name=u.name, sub_type=u.sub_type)
        if u.operation_type is OperationType.WAIT:
            end = datetime.datetime.now(tz=datetime.UTC) + datetime.timedelta(seconds=u.wait_options.wait_seconds)
            return Operation(status=OperationStatus.STARTED, wait_details=WaitDetails(scheduled_end_timestamp=end), **kw)
        if u.operation_type is OperationType.CALLBACK:
            return Operation(status=OperationStatus.STARTED, callback_details=CallbackDetails(callback_id="cb-1"), **kw)
        return Operation(status=OperationStatus.STARTED, **kw)  # CONTEXT START


# --- the forced interleaving: the thread that just decided "suspend" is pre-empted until the timer thread
# --- has issued the resubmission checkpoint (at most 3 s; normally ~100 ms)
_original_should_execution_suspend = ConcurrentExecutor.should_execution_suspend


def _preempted_should_execution_suspend(self):
    verdict = _original_should_execution_suspend(self)
    if verdict.should_suspend and isinstance(verdict.exception, TimedSuspendExecution):
        resubmission_call_started.wait(timeout=3)
    return verdict


ConcurrentExecutor.should_execution_suspend = _preempted_should_execution_suspend


def handler(event, ctx):
    approval = ctx.create_callback(name="approval")

    def x(c):
        c.wait(Duration.from_seconds(1), name="cool-down")
        return "x"

    def y(c):
        time.sleep(0.9)  # plain computation
        return approval.result()

    return ctx.parallel([x, y], name="par").success_count


def invoke(error: Exception):
    backend = FakeBackend(error)
    event = DurableExecutionInvocationInputWithClient(
        durable_execution_arn="arn:finding3",
        checkpoint_token="tok-0",
        initial_execution_state=InitialExecutionState(
            operations=[
                Operation(
                    operation_id="exec",
                    operation_type=OperationType.EXECUTION,
                    status=OperationStatus.STARTED,
                    execution_details=ExecutionDetails(input_payload="{}"),
                )
            ],
            next_marker="",
        ),
        service_client=backend,
    )
    pool = ThreadPoolExecutor(max_workers=1)
    fut = pool.submit(durable_execution(handler), event, None)
    try:
        res = ("returned", fut.result(timeout=30))
    except BaseException as e:  # noqa: BLE001
        res = ("raised", e)
    pool.shutdown(wait=False)
    return backend, res


def main() -> int:
    problems: list[str] = []
    cases = [
        ("retriable (category EXECUTION -> must raise for Lambda retry)", CheckpointError("injected 4xx", CheckpointErrorCategory.EXECUTION), "raise"),
        ("non-retriable (category INVOCATION -> must return FAILED)", CheckpointError("injected 5xx", CheckpointErrorCategory.INVOCATION), "FAILED"),
    ]
    for label, error, expected in cases:
        resubmission_call_started.clear()
        backend, (kind, value) = invoke(error)
        print(f"--- {label}")
        for n, c in enumerate(backend.calls, 1):
            print(f"    API call {n}: {c}{'   <-- FAILED (synchronous, timer-driven resubmission)' if n == backend.failed_call else ''}")
        print(f"    invocation outcome: {kind} {value!r}")
        if backend.failed_call is None:
            print("    inconclusive: the failing call was never issued")
            continue
        assert backend.calls_after_failure == 0
        if kind == "returned" and value.get("Status") in ("PENDING", "SUCCEEDED"):
            problems.append(
                f"{label}: checkpoint API call #{backend.failed_call} failed, yet the invocation returned "
                f"{value} (expected: {expected})"
            )
    assert not problems, "C06 violated - checkpoint failure was not fail-stop:\n  " + "\n  ".join(problems)
    print("no violation observed")
    return 0


if __name__ == "__main__":
    sys.exit(main())
