"""Exploration harness for C06 (not a deliverable): fake backend + property checker."""

from __future__ import annotations

import datetime
import threading
import time
import traceback
from concurrent.futures import ThreadPoolExecutor
from concurrent.futures import TimeoutError as FutTimeout

from aws_durable_execution_sdk_python import state as state_mod
from aws_durable_execution_sdk_python.exceptions import CheckpointError, CheckpointErrorCategory
from aws_durable_execution_sdk_python.execution import (
    DurableExecutionInvocationInputWithClient,
    InitialExecutionState,
    durable_execution,
)
from aws_durable_execution_sdk_python.lambda_service import (
    CallbackDetails,
    ChainedInvokeDetails,
    CheckpointOutput,
    CheckpointUpdatedExecutionState,
    ContextDetails,
    ExecutionDetails,
    Operation,
    OperationAction,
    OperationStatus,
    OperationType,
    StateOutput,
    StepDetails,
    WaitDetails,
)

ARN = "arn:test"


def retriable_error():
    # category EXECUTION => is_retriable() => wrapper raises
    return CheckpointError("boom-retriable", CheckpointErrorCategory.EXECUTION)


def nonretriable_error():
    # category INVOCATION => wrapper returns FAILED
    return CheckpointError("boom-nonretriable", CheckpointErrorCategory.INVOCATION)


class FakeBackend:
    def __init__(self, fail_at=None, error_factory=retriable_error, fail_pred=None, delay=0.0):
        self.ops: dict[str, Operation] = {}
        self.order: list[str] = []
        self.calls = 0
        self.call_log: list[tuple[int, list]] = []
        self.fail_at = fail_at
        self.fail_pred = fail_pred
        self.error_factory = error_factory
        self.failed_at_call: int | None = None
        self.calls_after_failure = 0
        self.lock = threading.Lock()
        self.token = 0
        self.delay = delay
        self.state_calls = 0
        self.failed_event = threading.Event()
        self.add(
            Operation(
                operation_id="exec",
                operation_type=OperationType.EXECUTION,
                status=OperationStatus.STARTED,
                execution_details=ExecutionDetails(input_payload="{}"),
            )
        )

    def add(self, op):
        if op.operation_id not in self.ops:
            self.order.append(op.operation_id)
        self.ops[op.operation_id] = op

    # --- service client protocol
    def checkpoint(self, durable_execution_arn, checkpoint_token, updates, client_token):
        with self.lock:
            self.calls += 1
            n = self.calls
            self.call_log.append((n, list(updates)))
            if self.failed_at_call is not None:
                self.calls_after_failure += 1
            do_fail = (self.fail_at is not None and n == self.fail_at) or (
                self.fail_pred is not None and self.failed_at_call is None and self.fail_pred(n, updates)
            )
        if self.delay:
            time.sleep(self.delay)
        if do_fail:
            with self.lock:
                self.failed_at_call = n
            self.failed_event.set()
            raise self.error_factory()
        changed = []
        with self.lock:
            for u in updates:
                changed.append(self.apply(u))
            changed += self.tick()
            self.token += 1
            tok = f"tok-{self.token}"
        return CheckpointOutput(
            checkpoint_token=tok,
            new_execution_state=CheckpointUpdatedExecutionState(operations=changed, next_marker=None),
        )

    def get_execution_state(self, durable_execution_arn, checkpoint_token, next_marker, max_items=1000):
        self.state_calls += 1
        return StateOutput(operations=[], next_marker=None)

    def apply(self, u):
        prev = self.ops.get(u.operation_id)
        now = datetime.datetime.now(tz=datetime.UTC)
        kw = dict(
            operation_id=u.operation_id,
            operation_type=u.operation_type,
            parent_id=u.parent_id,
            name=u.name,
            sub_type=u.sub_type,
        )
        t, a = u.operation_type, u.action
        if t is OperationType.STEP:
            attempt = prev.step_details.attempt if prev and prev.step_details else 0
            if a is OperationAction.START:
                op = Operation(status=OperationStatus.STARTED, step_details=StepDetails(attempt=attempt), **kw)
            elif a is OperationAction.SUCCEED:
                op = Operation(status=OperationStatus.SUCCEEDED, step_details=StepDetails(attempt=attempt + 1, result=u.payload), **kw)
            elif a is OperationAction.FAIL:
                op = Operation(status=OperationStatus.FAILED, step_details=StepDetails(attempt=attempt + 1, error=u.error), **kw)
            elif a is OperationAction.RETRY:
                delay = u.step_options.next_attempt_delay_seconds if u.step_options else 1
                op = Operation(
                    status=OperationStatus.PENDING,
                    step_details=StepDetails(
                        attempt=attempt + 1,
                        next_attempt_timestamp=now + datetime.timedelta(seconds=delay),
                        result=u.payload,
                        error=u.error,
                    ),
                    **kw,
                )
            else:
                raise AssertionError(a)
        elif t is OperationType.CONTEXT:
            if a is OperationAction.START:
                op = Operation(status=OperationStatus.STARTED, **kw)
            elif a is OperationAction.SUCCEED:
                rc = bool(u.context_options and u.context_options.replay_children)
                op = Operation(status=OperationStatus.SUCCEEDED, context_details=ContextDetails(replay_children=rc, result=u.payload), **kw)
            else:
                op = Operation(status=OperationStatus.FAILED, context_details=ContextDetails(error=u.error), **kw)
        elif t is OperationType.WAIT:
            secs = u.wait_options.wait_seconds if u.wait_options else 1
            op = Operation(status=OperationStatus.STARTED, wait_details=WaitDetails(scheduled_end_timestamp=now + datetime.timedelta(seconds=secs)), **kw)
        elif t is OperationType.CALLBACK:
            op = Operation(status=OperationStatus.STARTED, callback_details=CallbackDetails(callback_id=f"cb-{u.operation_id[:8]}"), **kw)
        elif t is OperationType.CHAINED_INVOKE:
            op = Operation(status=OperationStatus.STARTED, chained_invoke_details=ChainedInvokeDetails(), **kw)
        elif t is OperationType.EXECUTION:
            op = Operation(
                status=OperationStatus.SUCCEEDED if a is OperationAction.SUCCEED else OperationStatus.FAILED,
                execution_details=ExecutionDetails(input_payload="{}"),
                **{**kw, "operation_id": "exec"},
            )
        else:
            raise AssertionError(t)
        self.add(op)
        return op

    def tick(self):
        now = datetime.datetime.now(tz=datetime.UTC)
        out = []
        for oid, op in list(self.ops.items()):
            if (op.operation_type is OperationType.WAIT and op.status is OperationStatus.STARTED
                    and op.wait_details and op.wait_details.scheduled_end_timestamp <= now):
                self.ops[oid] = Operation(**{**op.__dict__, "status": OperationStatus.SUCCEEDED})
                out.append(self.ops[oid])
            if (op.operation_type is OperationType.STEP and op.status is OperationStatus.PENDING
                    and op.step_details.next_attempt_timestamp <= now):
                self.ops[oid] = Operation(**{**op.__dict__, "status": OperationStatus.READY})
                out.append(self.ops[oid])
        return out

    # --- backend-side events between invocations
    def complete_waits(self):
        for oid, op in list(self.ops.items()):
            if op.operation_type is OperationType.WAIT and op.status is OperationStatus.STARTED:
                self.ops[oid] = Operation(**{**op.__dict__, "status": OperationStatus.SUCCEEDED})
            if op.operation_type is OperationType.STEP and op.status is OperationStatus.PENDING:
                self.ops[oid] = Operation(**{**op.__dict__, "status": OperationStatus.READY})

    def complete_callbacks(self, result="\"cbres\""):
        for oid, op in list(self.ops.items()):
            if op.operation_type is OperationType.CALLBACK and op.status is OperationStatus.STARTED:
                self.ops[oid] = Operation(
                    **{**op.__dict__, "status": OperationStatus.SUCCEEDED,
                       "callback_details": CallbackDetails(callback_id=op.callback_details.callback_id, result=result)}
                )

    def history(self):
        return [self.ops[i] for i in self.order]


class Outcome:
    def __init__(self):
        self.kind = None  # 'raised' | 'returned' | 'hang'
        self.exc = None
        self.value = None
        self.elapsed = None

    def __repr__(self):
        if self.kind == "raised":
            return f"<raised {type(self.exc).__name__}: {self.exc} in {self.elapsed:.2f}s>"
        return f"<{self.kind} {self.value} in {self.elapsed:.2f}s>"


def fast_batcher(seconds=0.02):
    """Exploration only: make ExecutionState default to a short batch window."""
    orig = state_mod.ExecutionState.__init__

    def patched(self, *a, **kw):
        if kw.get("batcher_config") is None:
            kw["batcher_config"] = state_mod.CheckpointBatcherConfig(max_batch_time_seconds=seconds)
        orig(self, *a, **kw)

    state_mod.ExecutionState.__init__ = patched
    return orig


def invoke(handler, backend: FakeBackend, timeout=20.0) -> Outcome:
    wrapped = durable_execution(handler)
    hist = backend.history()
    event = DurableExecutionInvocationInputWithClient(
        durable_execution_arn=ARN,
        checkpoint_token="tok-init",
        initial_execution_state=InitialExecutionState(operations=hist, next_marker=""),
        service_client=backend,
    )
    out = Outcome()
    pool = ThreadPoolExecutor(max_workers=1)
    t0 = time.time()
    fut = pool.submit(wrapped, event, None)
    try:
        out.value = fut.result(timeout=timeout)
        out.kind = "returned"
    except FutTimeout:
        out.kind = "hang"
    except BaseException as e:  # noqa: BLE001
        out.kind = "raised"
        out.exc = e
    out.elapsed = time.time() - t0
    pool.shutdown(wait=False)
    return out


def check_failstop(out: Outcome, backend: FakeBackend, retriable: bool, label=""):
    """Return list of violation strings."""
    v = []
    if backend.failed_at_call is None:
        return v
    if out.kind == "hang":
        v.append(f"{label}: HANG")
        return v
    if backend.calls_after_failure:
        v.append(f"{label}: {backend.calls_after_failure} API calls after the failing one")
    if out.kind == "returned":
        st = out.value.get("Status")
        if st in ("SUCCEEDED", "PENDING"):
            v.append(f"{label}: returned {st} after checkpoint failure: {out.value}")
        elif retriable:
            v.append(f"{label}: returned {st} but error retriable (should raise): {out.value}")
    else:
        if not retriable:
            v.append(f"{label}: raised {out.exc!r} but error non-retriable (should return FAILED)")
        elif not isinstance(out.exc, CheckpointError):
            v.append(f"{label}: raised unexpected {out.exc!r}")
    return v
