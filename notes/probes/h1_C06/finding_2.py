"""C06 finding 2: the invocation returns SUCCEEDED although a checkpoint API call of this invocation failed
(the failing call is a timer-driven resubmission issued from inside a parallel branch).

Program (legal public API): a "first successful wins" parallel.  The losing branch contains a nested
parallel with a 1-second wait next to a long-running step.  After the outer parallel has completed
(min_successful=1 reached by the fast branch) the handler does a little plain post-processing and returns.

What happens:
  * the outer parallel completes and the handler carries on; the slow branch keeps running in its pool
    thread (by design - its *operation* checkpoints would be rejected as orphaned);
  * 1 s later the TimerScheduler of the NESTED executor resubmits the waiting inner branch.  The
    resubmitter (concurrency/executor.py: ConcurrentExecutor.execute.resubmitter) first calls
    execution_state.create_checkpoint() - an EMPTY checkpoint, which is not subject to the orphan
    check - so a real CheckpointDurableExecution API call is made on behalf of the orphaned subtree;
  * that API call FAILS.  ExecutionState._checkpointing_failed is set, the timer thread stores the
    BackgroundThreadError in the nested executor's _fatal_exception, the nested execute() re-raises it
    in the orphaned branch thread, the outer executor's _on_task_complete stores it in ITS
    _fatal_exception - but nobody waits on that executor any more;
  * the handler returns and the wrapper (execution.py: durable_execution.wrapper, success path)
    returns {"Status": "SUCCEEDED"} without looking at ExecutionState._checkpointing_failed.

Property clauses violated: "the invocation terminates promptly - raising for Lambda retry or returning
FAILED according to the error's classification - and never returns SUCCEEDED or PENDING.  This holds
wherever the failing call was issued from, including inside map/parallel branches and timer-driven
resubmissions."

Run:  PYTHONPATH=/tmp/wt/h1_C06/src /venv/bin/python /tmp/wt/h1_C06/finding_2.py     (takes ~6 s)
"""

from __future__ import annotations

import datetime
import logging
import sys
import threading
import time
from concurrent.futures import ThreadPoolExecutor

from aws_durable_execution_sdk_python.config import CompletionConfig, Duration, ParallelConfig
from aws_durable_execution_sdk_python.exceptions import CheckpointError, CheckpointErrorCategory
from aws_durable_execution_sdk_python.execution import (
    DurableExecutionInvocationInputWithClient,
    InitialExecutionState,
    durable_execution,
)
from aws_durable_execution_sdk_python.lambda_service import (
    CheckpointOutput,
    CheckpointUpdatedExecutionState,
    ContextDetails,
    ExecutionDetails,
    Operation,
    OperationAction,
    OperationStatus,
    OperationType,
    StateOutput,
    StepDetails,
    WaitDetails,
)

logging.disable(logging.CRITICAL)  # the SDK logs the (expected) injected failure; keep the output readable


class FakeBackend:
    """In-memory checkpoint service. Fails the first EMPTY checkpoint call (= a timer-driven resubmission)."""

    def __init__(self, error: Exception):
        self.error = error
        self.calls: list[list[tuple[str | None, str]]] = []
        self.failed_call: int | None = None
        self.failed_at_time: float | None = None
        self.calls_after_failure = 0
        self.lock = threading.Lock()

    def checkpoint(self, durable_execution_arn, checkpoint_token, updates, client_token):
        with self.lock:
            self.calls.append([(u.name, u.action.value) for u in updates])
            if self.failed_call is not None:
                self.calls_after_failure += 1
            if self.failed_call is None and not updates:
                self.failed_call = len(self.calls)
                self.failed_at_time = time.time()
                raise self.error
            ops = [self._apply(u) for u in updates]
            return CheckpointOutput(
                checkpoint_token=f"tok-{len(self.calls)}",
                new_execution_state=CheckpointUpdatedExecutionState(operations=ops, next_marker=None),
            )

    def get_execution_state(self, durable_execution_arn, checkpoint_token, next_marker, max_items=1000):
        return StateOutput(operations=[], next_marker=None)

    @staticmethod
    def _apply(u) -> Operation:
        kw = dict(operation_id=u.operation_id, operation_type=u.operation_type, parent_id=u.parent_id, name=u.name, sub_type=u.sub_type)
        if u.operation_type is OperationType.WAIT:
            end = datetime.datetime.now(tz=datetime.UTC) + datetime.timedelta(seconds=u.wait_options.wait_seconds)
            return Operation(status=OperationStatus.STARTED, wait_details=WaitDetails(scheduled_end_timestamp=end), **kw)
        if u.operation_type is OperationType.STEP:
            if u.action is OperationAction.START:
                return Operation(status=OperationStatus.STARTED, step_details=StepDetails(), **kw)
            return Operation(status=OperationStatus.SUCCEEDED, step_details=StepDetails(attempt=1, result=u.payload), **kw)
        if u.action is OperationAction.START:  # CONTEXT
            return Operation(status=OperationStatus.STARTED, **kw)
        return Operation(status=OperationStatus.SUCCEEDED, context_details=ContextDetails(result=u.payload), **kw)


returned_at: list[float] = []


def handler(event, ctx):
    def fast(c):
        return c.step(lambda s: "fast", name="fast")

    def slow(c):
        def waiter(cc):
            cc.wait(Duration.from_seconds(1), name="cool-down")
            return "waited"

        def worker(cc):
            return cc.step(lambda s: (time.sleep(3), "worked")[1], name="long-work")

        return c.parallel([waiter, worker], name="inner").success_count

    winner = ctx.parallel(
        [fast, slow],
        name="first-wins",
        config=ParallelConfig(completion_config=CompletionConfig.first_successful()),
    )
    time.sleep(2)  # plain (non-durable) post-processing of the result
    returned_at.append(time.time())
    return winner.success_count


def invoke(error: Exception):
    backend = FakeBackend(error)
    event = DurableExecutionInvocationInputWithClient(
        durable_execution_arn="arn:finding2",
        checkpoint_token="tok-0",
        initial_execution_state=InitialExecutionState(
            operations=[
                Operation(
                    operation_id="exec",
                    operation_type=OperationType.EXECUTION,
                    status=OperationStatus.STARTED,
                    execution_details=ExecutionDetails(input_payload="{}"),
                )
            ],
            next_marker="",
        ),
        service_client=backend,
    )
    pool = ThreadPoolExecutor(max_workers=1)
    fut = pool.submit(durable_execution(handler), event, None)
    try:
        res = ("returned", fut.result(timeout=30))
    except BaseException as e:  # noqa: BLE001
        res = ("raised", e)
    pool.shutdown(wait=False)
    return backend, res


def main() -> int:
    problems: list[str] = []
    cases = [
        ("retriable (category EXECUTION -> must raise for Lambda retry)", CheckpointError("injected 4xx", CheckpointErrorCategory.EXECUTION), "raise"),
        ("non-retriable (category INVOCATION -> must return FAILED)", CheckpointError("injected 5xx", CheckpointErrorCategory.INVOCATION), "FAILED"),
    ]
    for label, error, expected in cases:
        returned_at.clear()
        backend, (kind, value) = invoke(error)
        print(f"--- {label}")
        for n, c in enumerate(backend.calls, 1):
            print(f"    API call {n}: {c}{'   <-- FAILED (timer-driven resubmission, empty checkpoint)' if n == backend.failed_call else ''}")
        print(f"    invocation outcome: {kind} {value!r}")
        if backend.failed_call is None:
            print("    inconclusive: the failing call was never issued")
            continue
        assert backend.calls_after_failure == 0
        if returned_at:
            print(f"    the API call failed {returned_at[0] - backend.failed_at_time:.2f}s BEFORE the handler returned")
        if kind == "returned" and value.get("Status") in ("PENDING", "SUCCEEDED"):
            problems.append(
                f"{label}: checkpoint API call #{backend.failed_call} failed, yet the invocation returned "
                f"{value} (expected: {expected})"
            )
    assert not problems, "C06 violated - checkpoint failure was not fail-stop:\n  " + "\n  ".join(problems)
    print("no violation observed")
    return 0


if __name__ == "__main__":
    rc = 1
    try:
        rc = main()
    finally:
        sys.stdout.flush()
        sys.stderr.flush()
    sys.exit(rc)
