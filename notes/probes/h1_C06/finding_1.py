"""C06 finding 1: the invocation returns PENDING although a checkpoint API call of this invocation failed.

Program (legal public API): create callbacks, hand their ids to the outside world in a step, then
"await all" of them with ctx.map(callbacks, lambda c, cb, i, items: cb.result()).

The map START and the per-item context STARTs are asynchronous (fire-and-forget) checkpoints; every
branch then suspends on Callback.result() WITHOUT issuing a synchronous checkpoint, so nobody ever
blocks on (or re-checks) the batcher.  The batch [map START, item START, item START] is sent by the
background thread and the API call FAILS.  The wrapper (execution.py: durable_execution.wrapper,
`except SuspendExecution`) returns {"Status": "PENDING"} without looking at
ExecutionState._checkpointing_failed: the failure - retriable or not - is silently swallowed.

Property clause violated: "... the invocation terminates promptly - raising for Lambda retry or
returning FAILED according to the error's classification - and never returns SUCCEEDED or PENDING."

Run:  PYTHONPATH=/tmp/wt/h1_C06/src /venv/bin/python /tmp/wt/h1_C06/finding_1.py
"""

from __future__ import annotations

import logging
import sys
import threading
from concurrent.futures import ThreadPoolExecutor

from aws_durable_execution_sdk_python.exceptions import CheckpointError, CheckpointErrorCategory
from aws_durable_execution_sdk_python.execution import (
    DurableExecutionInvocationInputWithClient,
    InitialExecutionState,
    durable_execution,
)
from aws_durable_execution_sdk_python.lambda_service import (
    CallbackDetails,
    CheckpointOutput,
    CheckpointUpdatedExecutionState,
    ExecutionDetails,
    Operation,
    OperationAction,
    OperationStatus,
    OperationType,
    StateOutput,
    StepDetails,
)

logging.disable(logging.CRITICAL)  # the SDK logs the (expected) injected failure; keep the output readable


class FakeBackend:
    """In-memory checkpoint service. Fails the first call that carries the START of the op named `fail_on_name`."""

    def __init__(self, fail_on_name: str, error: Exception):
        self.fail_on_name = fail_on_name
        self.error = error
        self.calls: list[list[tuple[str | None, str]]] = []
        self.failed_call: int | None = None
        self.calls_after_failure = 0
        self.failed = threading.Event()
        self.lock = threading.Lock()

    def checkpoint(self, durable_execution_arn, checkpoint_token, updates, client_token):
        with self.lock:
            self.calls.append([(u.name, u.action.value) for u in updates])
            if self.failed_call is not None:
                self.calls_after_failure += 1
            if self.failed_call is None and any(u.name == self.fail_on_name for u in updates):
                self.failed_call = len(self.calls)
                self.failed.set()
                raise self.error
            ops = [self._apply(u) for u in updates]
            return CheckpointOutput(
                checkpoint_token=f"tok-{len(self.calls)}",
                new_execution_state=CheckpointUpdatedExecutionState(operations=ops, next_marker=None),
            )

    def get_execution_state(self, durable_execution_arn, checkpoint_token, next_marker, max_items=1000):
        return StateOutput(operations=[], next_marker=None)

    @staticmethod
    def _apply(u) -> Operation:
        kw = dict(operation_id=u.operation_id, operation_type=u.operation_type, parent_id=u.parent_id, name=u.name, sub_type=u.sub_type)
        if u.operation_type is OperationType.CALLBACK:
            return Operation(status=OperationStatus.STARTED, callback_details=CallbackDetails(callback_id=f"cb-{u.operation_id[:6]}"), **kw)
        if u.operation_type is OperationType.STEP:
            if u.action is OperationAction.START:
                return Operation(status=OperationStatus.STARTED, step_details=StepDetails(), **kw)
            return Operation(status=OperationStatus.SUCCEEDED, step_details=StepDetails(attempt=1, result=u.payload), **kw)
        return Operation(status=OperationStatus.STARTED, **kw)  # CONTEXT START


def handler(event, ctx):
    callbacks = [ctx.create_callback(name=f"approval-{i}") for i in range(2)]
    ctx.step(lambda s: [cb.callback_id for cb in callbacks], name="send-callback-ids")
    # "await all callbacks": each item only reads the result of a callback created above
    results = ctx.map(callbacks, lambda c, cb, i, items: cb.result(), name="await-all")
    return results.success_count


def invoke(error: Exception):
    backend = FakeBackend("await-all", error)
    event = DurableExecutionInvocationInputWithClient(
        durable_execution_arn="arn:finding1",
        checkpoint_token="tok-0",
        initial_execution_state=InitialExecutionState(
            operations=[
                Operation(
                    operation_id="exec",
                    operation_type=OperationType.EXECUTION,
                    status=OperationStatus.STARTED,
                    execution_details=ExecutionDetails(input_payload="{}"),
                )
            ],
            next_marker="",
        ),
        service_client=backend,
    )
    with ThreadPoolExecutor(max_workers=1) as pool:
        fut = pool.submit(durable_execution(handler), event, None)
        try:
            return backend, ("returned", fut.result(timeout=30))
        except BaseException as e:  # noqa: BLE001
            return backend, ("raised", e)


def main() -> int:
    problems: list[str] = []
    cases = [
        ("retriable (category EXECUTION -> must raise for Lambda retry)", CheckpointError("injected 4xx", CheckpointErrorCategory.EXECUTION), "raise"),
        ("non-retriable (category INVOCATION -> must return FAILED)", CheckpointError("injected 5xx", CheckpointErrorCategory.INVOCATION), "FAILED"),
    ]
    for label, error, expected in cases:
        for _attempt in range(3):  # the late batch is normally sent; retry in the unlikely case it was not
            backend, (kind, value) = invoke(error)
            if backend.failed_call is not None:
                break
        print(f"--- {label}")
        for n, c in enumerate(backend.calls, 1):
            print(f"    API call {n}: {c}{'   <-- FAILED' if n == backend.failed_call else ''}")
        print(f"    invocation outcome: {kind} {value!r}")
        if backend.failed_call is None:
            print("    inconclusive: the failing call was never issued")
            continue
        assert backend.calls_after_failure == 0
        if kind == "returned" and value.get("Status") in ("PENDING", "SUCCEEDED"):
            problems.append(
                f"{label}: checkpoint API call #{backend.failed_call} failed, yet the invocation returned "
                f"{value} (expected: {expected})"
            )
    assert not problems, "C06 violated - checkpoint failure was not fail-stop:\n  " + "\n  ".join(problems)
    print("no violation observed")
    return 0


if __name__ == "__main__":
    sys.exit(main())
