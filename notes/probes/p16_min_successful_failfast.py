"""C09 finding 1: a single failed branch ends a map/parallel whose completion policy tolerates failures.

Run:  PYTHONPATH=/tmp/wt/h1_C09/src /venv/bin/python /tmp/wt/h1_C09/finding_1.py

Policy used: CompletionConfig.first_successful()  (min_successful=1, no failure limits; docs/core/parallel.md:
"Continues until one branch succeeds - ignores failures until at least one succeeds"; CompletionConfig docstring:
"tolerated_failure_count ... If None, no limit on failure count").

Three branches: branch 0 fails at once, branches 1 and 2 need a little longer and then succeed.
Expected: the call returns when branch 1 or 2 succeeded (reason MIN_SUCCESSFUL_REACHED), or - if everything failed -
when all branches finished.
Actual: the call returns right after the failure of branch 0, although the policy is not decided (not all finished,
minimum not reached, no tolerance exceeded), reports the two healthy branches as STARTED and labels the result
ALL_COMPLETED - a reason that contradicts the item statuses.
"""

from __future__ import annotations

import datetime
import sys
import threading
import time
from unittest.mock import Mock

from aws_durable_execution_sdk_python.config import CompletionConfig, ParallelConfig
from aws_durable_execution_sdk_python.execution import (
    DurableExecutionInvocationInputWithClient,
    InitialExecutionState,
    durable_execution,
)
from aws_durable_execution_sdk_python.lambda_service import (
    CheckpointOutput,
    CheckpointUpdatedExecutionState,
    ContextDetails,
    ExecutionDetails,
    Operation,
    OperationAction,
    OperationStatus,
    OperationType,
    StateOutput,
    StepDetails,
)


class FakeBackend:
    """In-memory durable backend: applies checkpoint updates, plays them back as history."""

    def __init__(self):
        self.lock = threading.Lock()
        self.ops: dict[str, Operation] = {}
        self.token = 0
        self.ops["exec-0"] = Operation(
            operation_id="exec-0",
            operation_type=OperationType.EXECUTION,
            status=OperationStatus.STARTED,
            execution_details=ExecutionDetails(input_payload="{}"),
        )

    def checkpoint(self, durable_execution_arn, checkpoint_token, updates, client_token=None):
        changed = []
        with self.lock:
            for u in updates:
                old = self.ops.get(u.operation_id)
                base = dict(
                    operation_id=u.operation_id,
                    operation_type=u.operation_type,
                    parent_id=u.parent_id or (old.parent_id if old else None),
                    name=u.name or (old.name if old else None),
                    sub_type=u.sub_type or (old.sub_type if old else None),
                    start_timestamp=datetime.datetime.now(tz=datetime.UTC),
                )
                details = {}
                if u.operation_type is OperationType.CONTEXT:
                    details["context_details"] = ContextDetails(
                        replay_children=bool(u.context_options and u.context_options.replay_children),
                        result=u.payload,
                        error=u.error,
                    )
                elif u.operation_type is OperationType.STEP:
                    details["step_details"] = StepDetails(attempt=1, result=u.payload, error=u.error)
                status = {
                    OperationAction.START: OperationStatus.STARTED,
                    OperationAction.SUCCEED: OperationStatus.SUCCEEDED,
                    OperationAction.FAIL: OperationStatus.FAILED,
                }[u.action]
                op = Operation(status=status, **base, **details)
                self.ops[u.operation_id] = op
                changed.append(op)
            self.token += 1
            return CheckpointOutput(
                checkpoint_token=f"tok-{self.token}",
                new_execution_state=CheckpointUpdatedExecutionState(operations=changed, next_marker=None),
            )

    def get_execution_state(self, durable_execution_arn, checkpoint_token, next_marker, max_items=1000):
        return StateOutput(operations=[], next_marker=None)

    def history(self):
        with self.lock:
            return list(self.ops.values())


def invoke(handler, backend, timeout=30.0):
    ctx = Mock()
    ctx.aws_request_id = "req"
    ctx.invoked_function_arn = "arn"
    ctx.tenant_id = None
    event = DurableExecutionInvocationInputWithClient(
        durable_execution_arn="arn:exec",
        checkpoint_token="tok",
        initial_execution_state=InitialExecutionState(operations=backend.history(), next_marker=""),
        service_client=backend,
    )
    out = {}

    def run():
        try:
            out["result"] = durable_execution(handler)(event, ctx)
        except BaseException as e:  # noqa: BLE001
            out["exc"] = e

    t = threading.Thread(target=run, daemon=True)
    t.start()
    t.join(timeout)
    assert not t.is_alive(), "invocation hung"
    if "exc" in out:
        raise out["exc"]
    return out["result"]


# --------------------------------------------------------------------------------------------------------------------
release = threading.Event()
seen = {}


def failing(ctx):
    msg = "boom"
    raise ValueError(msg)


def healthy(ctx):
    release.wait(5)  # still running when branch 0 fails
    return ctx.step(lambda _: "ok", name="work")


def handler(event, context):
    t0 = time.time()
    result = context.parallel(
        [failing, healthy, healthy],
        config=ParallelConfig(completion_config=CompletionConfig.first_successful()),
    )
    seen["elapsed"] = time.time() - t0
    seen["reason"] = result.completion_reason.value
    seen["statuses"] = [i.status.value for i in result.all]
    seen["started_count"] = result.started_count
    seen["success_count"] = result.success_count
    return "done"


def main():
    backend = FakeBackend()
    # the healthy branches are released 1.5 s after the start; a call that honours the policy returns only then
    threading.Timer(1.5, release.set).start()
    out = invoke(handler, backend)
    release.set()
    print("invocation:", out)
    print("observed  :", seen)

    problems = []
    if seen["success_count"] < 1 and seen["started_count"] > 0:
        problems.append(
            "parallel(first_successful) returned after %.2fs with %d branch(es) still STARTED and %d successes: "
            "the policy (min_successful=1, unlimited failures) was not decided yet"
            % (seen["elapsed"], seen["started_count"], seen["success_count"])
        )
    if seen["reason"] == "ALL_COMPLETED" and seen["started_count"] > 0:
        problems.append(
            "completion_reason is ALL_COMPLETED although statuses are %s" % seen["statuses"]
        )
    assert not problems, "C09 violated: " + " | ".join(problems)
    print("OK - property holds")


if __name__ == "__main__":
    try:
        main()
    except AssertionError as e:
        print("ASSERTION FAILED:", e)
        sys.exit(1)
