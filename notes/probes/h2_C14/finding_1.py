"""C14 finding 1: an empty-string callback payload is turned into None when the history is handed to
the re-invocation through the SDK's own serializer pair (to_json_dict -> from_json_dict).

Clause: "result() ... afterwards returns exactly the delivered payload" (all payloads, history handed
to a re-invocation).

Run:  PYTHONPATH=/tmp/wt/h2_C14/src /venv/bin/python /tmp/wt/h2_C14/finding_1.py
"""

from __future__ import annotations

import json
import logging
import sys
from unittest.mock import Mock

from aws_durable_execution_sdk_python.execution import (
    DurableExecutionInvocationInput,
    DurableExecutionInvocationInputWithClient,
    InitialExecutionState,
    durable_execution,
)
from aws_durable_execution_sdk_python.lambda_service import (
    CallbackDetails,
    CheckpointOutput,
    CheckpointUpdatedExecutionState,
    ExecutionDetails,
    Operation,
    OperationStatus,
    OperationType,
)

logging.disable(logging.CRITICAL)

DELIVERED_PAYLOAD = ""  # what the external system sent with SendDurableExecutionCallbackSuccess


class Backend:
    """Minimal in-memory backend: records the callback, hands back its id."""

    def __init__(self):
        self.ops: dict[str, Operation] = {
            "exec": Operation(
                operation_id="exec",
                operation_type=OperationType.EXECUTION,
                status=OperationStatus.STARTED,
                execution_details=ExecutionDetails(input_payload="{}"),
            )
        }

    def checkpoint(self, durable_execution_arn, checkpoint_token, updates, client_token):
        changed = []
        for u in updates:
            assert u.operation_type is OperationType.CALLBACK, u
            op = Operation(
                operation_id=u.operation_id,
                operation_type=OperationType.CALLBACK,
                status=OperationStatus.STARTED,
                name=u.name,
                sub_type=u.sub_type,
                callback_details=CallbackDetails(callback_id="cb-1"),
            )
            self.ops[op.operation_id] = op
            changed.append(op)
        return CheckpointOutput(
            checkpoint_token="t2",  # noqa: S106
            new_execution_state=CheckpointUpdatedExecutionState(operations=changed),
        )

    def get_execution_state(self, *a, **k):  # pragma: no cover - history is never paginated here
        raise AssertionError("not expected")

    def invocation_input(self) -> DurableExecutionInvocationInput:
        return DurableExecutionInvocationInput(
            durable_execution_arn="arn:test",
            checkpoint_token="t",  # noqa: S106
            initial_execution_state=InitialExecutionState(
                operations=list(self.ops.values()), next_marker=""
            ),
        )


def user_handler(event, ctx):
    cb = ctx.create_callback(name="approval")
    payload = cb.result()
    # make None and "" distinguishable in the (JSON) result of the execution
    return {"callback_id": cb.callback_id, "payload_repr": repr(payload)}


def main() -> int:
    backend = Backend()
    handler_with_injected_client = durable_execution(user_handler)

    # invocation 1: creates the callback and suspends
    first = handler_with_injected_client(
        DurableExecutionInvocationInputWithClient.from_durable_execution_invocation_input(
            backend.invocation_input(), backend
        ),
        Mock(),
    )
    assert first == {"Status": "PENDING"}, first

    # the external system completes the callback with an empty payload
    (cb_op,) = [o for o in backend.ops.values() if o.operation_type is OperationType.CALLBACK]
    backend.ops[cb_op.operation_id] = Operation(
        operation_id=cb_op.operation_id,
        operation_type=OperationType.CALLBACK,
        status=OperationStatus.SUCCEEDED,
        name=cb_op.name,
        sub_type=cb_op.sub_type,
        callback_details=CallbackDetails(callback_id="cb-1", result=DELIVERED_PAYLOAD),
    )

    # invocation 2a: history handed over as objects -> the reference behaviour
    direct = handler_with_injected_client(
        DurableExecutionInvocationInputWithClient.from_durable_execution_invocation_input(
            backend.invocation_input(), backend
        ),
        Mock(),
    )
    assert direct["Status"] == "SUCCEEDED", direct
    direct_repr = json.loads(direct["Result"])["payload_repr"]
    assert direct_repr == repr(DELIVERED_PAYLOAD), direct

    # invocation 2b: the very same history, handed over as the JSON event that the SDK itself
    # produces for it (DurableExecutionInvocationInput.to_json_dict) and parses (from_json_dict)
    event = json.loads(json.dumps(backend.invocation_input().to_json_dict()))
    handler_with_boto_client = durable_execution(user_handler, boto3_client=Mock())
    via_event = handler_with_boto_client(event, Mock())
    assert via_event["Status"] == "SUCCEEDED", via_event
    event_repr = json.loads(via_event["Result"])["payload_repr"]

    print("delivered payload            :", repr(DELIVERED_PAYLOAD))
    print("result() - history as objects:", direct_repr)
    print("result() - history as event  :", event_repr)

    # the lossy step in isolation
    completed = backend.ops[cb_op.operation_id]
    round_tripped = Operation.from_json_dict(completed.to_json_dict())
    print("CallbackDetails after to_json_dict/from_json_dict:", round_tripped.callback_details)

    assert event_repr == repr(DELIVERED_PAYLOAD), (
        "C14 violated: the callback was completed with the payload '' but Callback.result() returned "
        f"{event_repr} after the history went through Operation.to_json_dict()/from_json_dict() "
        "(Operation.to_dict drops a falsy CallbackDetails.result)"
    )
    return 0


if __name__ == "__main__":
    sys.exit(main())
