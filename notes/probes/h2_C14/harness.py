"""In-memory fake backend for driving the real durable_execution wrapper across invocations."""

from __future__ import annotations

import concurrent.futures
import dataclasses
import threading
from unittest.mock import Mock

from aws_durable_execution_sdk_python.execution import (
    DurableExecutionInvocationInputWithClient,
    InitialExecutionState,
)
from aws_durable_execution_sdk_python.lambda_service import (
    CallbackDetails,
    ChainedInvokeDetails,
    CheckpointOutput,
    CheckpointUpdatedExecutionState,
    ContextDetails,
    ErrorObject,
    ExecutionDetails,
    Operation,
    OperationAction,
    OperationStatus,
    OperationType,
    StateOutput,
    StepDetails,
    WaitDetails,
)

ARN = "arn:test"


class FakeBackend:
    def __init__(self, input_payload: str = "{}", page_size: int | None = None):
        self.lock = threading.Lock()
        self.ops: dict[str, Operation] = {}
        self.order: list[str] = []
        self.calls: list[list] = []  # every checkpoint call's updates
        self.all_updates: list = []
        self.cb_counter = 0
        self.page_size = page_size
        self.token = 0
        self._dirty = []
        self.on_update = None  # hook(update) called under lock after applying
        self._put(
            Operation(
                operation_id="exec-0",
                operation_type=OperationType.EXECUTION,
                status=OperationStatus.STARTED,
                execution_details=ExecutionDetails(input_payload=input_payload),
            )
        )

    def _put(self, op: Operation):
        if op.operation_id not in self.ops:
            self.order.append(op.operation_id)
        self.ops[op.operation_id] = op

    # --- service client protocol
    def checkpoint(self, durable_execution_arn, checkpoint_token, updates, client_token):
        with self.lock:
            self.calls.append(list(updates))
            changed: list[str] = []
            for u in updates:
                self.all_updates.append(u)
                self._apply(u)
                if u.operation_id not in changed:
                    changed.append(u.operation_id)
                if self.on_update:
                    for extra in self.on_update(u) or ():
                        if extra not in changed:
                            changed.append(extra)
            # also report externally changed operations not yet delivered
            for oid in self._dirty:
                if oid not in changed:
                    changed.append(oid)
            self._dirty.clear()
            self.token += 1
            return CheckpointOutput(
                checkpoint_token=f"tok-{self.token}",
                new_execution_state=CheckpointUpdatedExecutionState(
                    operations=[self.ops[i] for i in changed if i in self.ops]
                ),
            )

    def get_execution_state(self, durable_execution_arn, checkpoint_token, next_marker, max_items=1000):
        with self.lock:
            start = int(next_marker)
            ids = self.order[start : start + (self.page_size or 1000)]
            nxt = start + len(ids)
            return StateOutput(
                operations=[self.ops[i] for i in ids],
                next_marker=str(nxt) if nxt < len(self.order) else None,
            )

    def _apply(self, u):
        existing = self.ops.get(u.operation_id)
        t, a = u.operation_type, u.action
        base = dict(
            operation_id=u.operation_id,
            operation_type=t,
            parent_id=u.parent_id,
            name=u.name,
            sub_type=u.sub_type,
        )
        if t is OperationType.EXECUTION:
            return
        if existing and existing.status in {
            OperationStatus.SUCCEEDED,
            OperationStatus.FAILED,
            OperationStatus.CANCELLED,
            OperationStatus.TIMED_OUT,
            OperationStatus.STOPPED,
        }:
            raise RuntimeError(f"update for terminal operation {u.operation_id} {u}")
        if t is OperationType.CALLBACK:
            assert a is OperationAction.START
            if existing:
                raise RuntimeError("callback started twice")
            self.cb_counter += 1
            self._put(
                Operation(
                    **base,
                    status=OperationStatus.STARTED,
                    callback_details=CallbackDetails(callback_id=f"cb-{self.cb_counter}"),
                )
            )
        elif t is OperationType.CHAINED_INVOKE:
            assert a is OperationAction.START
            if existing:
                raise RuntimeError("invoke started twice")
            self._put(
                Operation(
                    **base,
                    status=OperationStatus.STARTED,
                    chained_invoke_details=ChainedInvokeDetails(),
                )
            )
        elif t is OperationType.CONTEXT:
            if a is OperationAction.START:
                self._put(Operation(**base, status=OperationStatus.STARTED))
            elif a is OperationAction.SUCCEED:
                self._put(
                    Operation(
                        **base,
                        status=OperationStatus.SUCCEEDED,
                        context_details=ContextDetails(
                            replay_children=bool(u.context_options and u.context_options.replay_children),
                            result=u.payload,
                        ),
                    )
                )
            elif a is OperationAction.FAIL:
                self._put(
                    Operation(
                        **base,
                        status=OperationStatus.FAILED,
                        context_details=ContextDetails(error=u.error),
                    )
                )
        elif t is OperationType.STEP:
            attempt = existing.step_details.attempt if existing and existing.step_details else 0
            if a is OperationAction.START:
                self._put(Operation(**base, status=OperationStatus.STARTED, step_details=StepDetails(attempt=attempt + 1)))
            elif a is OperationAction.SUCCEED:
                self._put(Operation(**base, status=OperationStatus.SUCCEEDED, step_details=StepDetails(attempt=attempt, result=u.payload)))
            elif a is OperationAction.FAIL:
                self._put(Operation(**base, status=OperationStatus.FAILED, step_details=StepDetails(attempt=attempt, error=u.error)))
            elif a is OperationAction.RETRY:
                self._put(Operation(**base, status=OperationStatus.PENDING, step_details=StepDetails(attempt=attempt, error=u.error, result=u.payload)))
        elif t is OperationType.WAIT:
            self._put(Operation(**base, status=OperationStatus.STARTED, wait_details=WaitDetails()))

    # --- external events
    def find(self, op_type: OperationType, name: str | None = None):
        return [
            self.ops[i]
            for i in self.order
            if self.ops[i].operation_type is op_type and (name is None or self.ops[i].name == name)
        ]

    def set_op(self, op: Operation, deliver_in_next_response: bool = False):
        with self.lock:
            self._set_op_locked(op, deliver_in_next_response)

    def _set_op_locked(self, op, deliver_in_next_response=False):
        self._put(op)
        if deliver_in_next_response:
            self._dirty.append(op.operation_id)

    def complete_callback(self, callback_id: str, status=OperationStatus.SUCCEEDED, result=None, error=None, locked=False, deliver=False):
        def doit():
            for op in self.ops.values():
                if op.callback_details and op.callback_details.callback_id == callback_id:
                    new = dataclasses.replace(
                        op,
                        status=status,
                        callback_details=CallbackDetails(callback_id=callback_id, result=result, error=error),
                    )
                    self._set_op_locked(new, deliver)
                    return new.operation_id
            raise KeyError(callback_id)

        if locked:
            return doit()
        with self.lock:
            return doit()

    def complete_invoke(self, op_id: str, status=OperationStatus.SUCCEEDED, result=None, error=None, deliver=False):
        with self.lock:
            op = self.ops[op_id]
            new = dataclasses.replace(op, status=status, chained_invoke_details=ChainedInvokeDetails(result=result, error=error))
            self._set_op_locked(new, deliver)

    def complete_waits(self):
        with self.lock:
            for op in list(self.ops.values()):
                if op.operation_type is OperationType.WAIT and op.status is OperationStatus.STARTED:
                    self._put(dataclasses.replace(op, status=OperationStatus.SUCCEEDED))

    # --- invocation
    def invoke(self, handler, timeout: float = 30.0, first_page: int | None = None):
        """Run one invocation of a @durable_execution handler against the recorded history."""
        with self.lock:
            all_ops = [self.ops[i] for i in self.order]
            self._dirty.clear()
        if first_page is None:
            first, marker = all_ops, ""
        else:
            first, marker = all_ops[:first_page], (str(first_page) if first_page < len(all_ops) else "")
        event = DurableExecutionInvocationInputWithClient(
            durable_execution_arn=ARN,
            checkpoint_token=f"tok-{self.token}",
            initial_execution_state=InitialExecutionState(operations=first, next_marker=marker),
            service_client=self,
        )
        lambda_context = Mock()
        lambda_context.aws_request_id = "req"
        lambda_context.invoked_function_arn = "fn"
        lambda_context.tenant_id = None
        pool = concurrent.futures.ThreadPoolExecutor(max_workers=1)
        fut = pool.submit(handler, event, lambda_context)
        try:
            return fut.result(timeout=timeout)
        finally:
            pool.shutdown(wait=False)


def err(message="boom", type_="SomeError", data=None):
    return ErrorObject(message=message, type=type_, data=data, stack_trace=None)
