"""C20 - an aware timestamp inside a DST fold does not survive the JSON codec.

botocore attaches dateutil's tzlocal() to every timestamp it parses, so the Operation objects that
LambdaClient.checkpoint() / get_execution_state() produce carry a rule-based zone whenever the
process runs with a TZ that has daylight saving.  For an instant inside the repeated hour the
round trip Operation -> to_json_dict() -> from_json_dict() yields an object that is NOT equal:
from_unix_millis() answers in UTC, and Python (PEP 495) defines an aware datetime whose UTC offset
depends on `fold` as unequal to every datetime of another zone.  The instant is whole-second, so
millisecond truncation is not involved.  Same for zoneinfo.ZoneInfo.

Run:  PYTHONPATH=/tmp/wt/h3_C20/src /venv/bin/python finding_2.py
"""
import datetime
import json
import os
import time

os.environ["TZ"] = "America/New_York"
time.tzset()
os.environ.setdefault("AWS_DEFAULT_REGION", "us-east-1")

import boto3
from botocore.awsrequest import AWSResponse

from aws_durable_execution_sdk_python.lambda_service import (
    LambdaClient,
    Operation,
    OperationStatus,
    OperationType,
    StepDetails,
)

# 2024-11-03 05:30:00Z == 01:30 EDT, the first pass through the repeated hour in New York
IN_FOLD = 1730611800
# ---- real botocore response parsing (only the HTTP transport is replaced)
client = boto3.client(
    "lambda", region_name="us-east-1", aws_access_key_id="x", aws_secret_access_key="y"
)


class _Raw:
    def __init__(self, body):
        self._body = body

    def stream(self, **_):
        yield self._body

    def read(self, *_, **__):
        return self._body


def _answer(request, **_):
    body = json.dumps(
        {
            "Operations": [
                {
                    "Id": "1",
                    "Type": "STEP",
                    "Status": "PENDING",
                    "StartTimestamp": IN_FOLD,
                    "StepDetails": {"Attempt": 1, "NextAttemptTimestamp": IN_FOLD},
                }
            ]
        }
    ).encode()
    return AWSResponse(request.url, 200, {"Content-Type": "application/json"}, _Raw(body))


client.meta.events.register("before-send.lambda.*", _answer)
op = LambdaClient(client).get_execution_state("arn", "tok", "m").operations[0]
print("from botocore:", repr(op.step_details.next_attempt_timestamp))

back = Operation.from_json_dict(json.loads(json.dumps(op.to_json_dict())))
print("after JSON   :", repr(back.step_details.next_attempt_timestamp))
same_instant = (
    back.step_details.next_attempt_timestamp.timestamp()
    == op.step_details.next_attempt_timestamp.timestamp()
)
print("same instant :", same_instant)

# control: one day later (outside the fold) the same path is lossless
ctrl = Operation(
    "1",
    OperationType.STEP,
    OperationStatus.PENDING,
    start_timestamp=op.start_timestamp + datetime.timedelta(days=1),
    step_details=StepDetails(1, op.start_timestamp + datetime.timedelta(days=1)),
)
assert Operation.from_json_dict(json.loads(json.dumps(ctrl.to_json_dict()))) == ctrl

assert back.step_details == op.step_details, (
    "C20 violated: StepDetails (attempt / next-attempt time) not equal after the JSON round trip: "
    f"{op.step_details!r} -> {back.step_details!r}"
)
assert back == op, "C20 violated: Operation JSON round trip is not the identity"
