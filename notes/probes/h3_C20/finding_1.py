"""C20 - a naive datetime in a timestamp field does not survive the JSON codec.

Operation.to_json_dict() / from_json_dict() (and therefore InitialExecutionState /
DurableExecutionInvocationInput.to_json_dict() / from_json_dict()) turn every naive
datetime into an aware one: TimestampConverter.to_unix_millis() reads it as local time,
TimestampConverter.from_unix_millis() always answers with tzinfo=UTC.  A naive and an aware
datetime never compare equal, so object -> JSON dict -> object is not the identity although the
value is whole-millisecond (nothing to truncate).  The plain wire codec to_dict()/from_dict()
keeps the very same object unchanged, so the two codecs of the same class disagree.

Run:  PYTHONPATH=/tmp/wt/h3_C20/src /venv/bin/python finding_1.py
"""
import datetime
import json
import os
import time

os.environ["TZ"] = "UTC"  # the most favourable setting: local time == UTC, no DST
time.tzset()

from aws_durable_execution_sdk_python.execution import (
    DurableExecutionInvocationInput,
    InitialExecutionState,
)
from aws_durable_execution_sdk_python.lambda_service import (
    Operation,
    OperationStatus,
    OperationType,
    StepDetails,
)

naive = datetime.datetime(2024, 1, 1, 12, 0, 0, 123000)  # whole milliseconds, well-typed datetime
op = Operation(
    operation_id="1",
    operation_type=OperationType.STEP,
    status=OperationStatus.PENDING,
    start_timestamp=naive,
    step_details=StepDetails(attempt=1, next_attempt_timestamp=naive),
)

# the wire-dictionary codec is lossless for this object ...
assert Operation.from_dict(op.to_dict()) == op

# ... the JSON codec is not
back = Operation.from_json_dict(json.loads(json.dumps(op.to_json_dict())))
inp = DurableExecutionInvocationInput("arn", "tok", InitialExecutionState([op], ""))
inp_back = DurableExecutionInvocationInput.from_json_dict(
    json.loads(json.dumps(inp.to_json_dict()))
)
print("before:", op.start_timestamp, op.step_details.next_attempt_timestamp)
print("after :", back.start_timestamp, back.step_details.next_attempt_timestamp)
assert back.step_details.next_attempt_timestamp == op.step_details.next_attempt_timestamp, (
    "C20 violated: next-attempt time altered by the JSON round trip "
    f"({op.step_details.next_attempt_timestamp!r} -> {back.step_details.next_attempt_timestamp!r})"
)
assert back == op, "C20 violated: Operation JSON round trip is not the identity"
assert inp_back == inp, "C20 violated: invocation input JSON round trip is not the identity"
