"""In-memory fake backend + driver for the durable_execution wrapper (scratch harness for C12)."""

from __future__ import annotations

import datetime
import threading
from dataclasses import replace
from unittest.mock import Mock

from aws_durable_execution_sdk_python.execution import (
    DurableExecutionInvocationInputWithClient,
    InitialExecutionState,
)
from aws_durable_execution_sdk_python.lambda_service import (
    CallbackDetails,
    CheckpointOutput,
    CheckpointUpdatedExecutionState,
    ContextDetails,
    ExecutionDetails,
    Operation,
    OperationAction,
    OperationStatus,
    OperationType,
    StateOutput,
    StepDetails,
    WaitDetails,
)

UTC = datetime.UTC
TERMINAL = {
    OperationStatus.SUCCEEDED,
    OperationStatus.FAILED,
    OperationStatus.CANCELLED,
    OperationStatus.STOPPED,
    OperationStatus.TIMED_OUT,
}


class Crash(Exception):
    """Simulated loss of the sandbox / of the checkpoint response."""


class BackendViolation(AssertionError):
    pass


class Backend:
    def __init__(self, input_payload: str = "{}", page_size: int | None = None):
        self.lock = threading.RLock()
        self.ops: dict[str, Operation] = {
            "exec": Operation(
                operation_id="exec",
                operation_type=OperationType.EXECUTION,
                status=OperationStatus.STARTED,
                execution_details=ExecutionDetails(input_payload=input_payload),
            )
        }
        self.log: list[tuple] = []  # (action, op_id, name, extra)
        self.calls = 0
        self.updates_seen = 0
        self.crash_before_update: int | None = None  # crash before applying update number n (0-based, global)
        self.crash_after_update: int | None = None  # crash after applying update number n
        self.violations: list[str] = []
        self.page_size = page_size
        self.auto_ready = True  # flip PENDING->READY when due on every call
        self.token = 0

    # -- helpers
    def now(self):
        return datetime.datetime.now(tz=UTC)

    def _flip_due(self):
        for oid, op in list(self.ops.items()):
            if (
                op.operation_type is OperationType.STEP
                and op.status is OperationStatus.PENDING
                and op.step_details
                and op.step_details.next_attempt_timestamp
                and op.step_details.next_attempt_timestamp <= self.now()
            ):
                self.ops[oid] = replace(op, status=OperationStatus.READY)
            if (
                op.operation_type is OperationType.WAIT
                and op.status is OperationStatus.STARTED
                and op.wait_details
                and op.wait_details.scheduled_end_timestamp
                and op.wait_details.scheduled_end_timestamp <= self.now()
            ):
                self.ops[oid] = replace(op, status=OperationStatus.SUCCEEDED)

    def fire_all_timers(self):
        """Simulate the passage of time: every pending retry / wait becomes due."""
        with self.lock:
            for oid, op in list(self.ops.items()):
                if op.operation_type is OperationType.STEP and op.status is OperationStatus.PENDING:
                    self.ops[oid] = replace(op, status=OperationStatus.READY)
                if op.operation_type is OperationType.WAIT and op.status is OperationStatus.STARTED:
                    self.ops[oid] = replace(op, status=OperationStatus.SUCCEEDED)

    def _apply(self, u):
        cur = self.ops.get(u.operation_id)
        if cur is not None and cur.status in TERMINAL:
            self.violations.append(f"update {u.action.value} for terminal op {u.operation_id} ({cur.status.value})")
            raise BackendViolation(self.violations[-1])
        t = u.operation_type
        base = dict(
            operation_id=u.operation_id,
            operation_type=t,
            parent_id=u.parent_id,
            name=u.name,
            sub_type=u.sub_type,
        )
        if t is OperationType.STEP:
            attempt = cur.step_details.attempt if cur and cur.step_details else 0
            if u.action is OperationAction.START:
                if cur is not None and cur.status not in {OperationStatus.READY}:
                    self.violations.append(f"START for step in status {cur.status.value}")
                    raise BackendViolation(self.violations[-1])
                op = Operation(status=OperationStatus.STARTED, step_details=StepDetails(attempt=attempt), **base)
            elif u.action is OperationAction.RETRY:
                delay = u.step_options.next_attempt_delay_seconds if u.step_options else 0
                if delay < 1:
                    self.violations.append(f"RETRY with delay {delay}")
                    raise BackendViolation(self.violations[-1])
                op = Operation(
                    status=OperationStatus.PENDING,
                    step_details=StepDetails(
                        attempt=attempt + 1,
                        next_attempt_timestamp=self.now() + datetime.timedelta(seconds=delay),
                        error=u.error,
                    ),
                    **base,
                )
                self.log.append(("RETRY", u.operation_id, u.name, delay))
            elif u.action is OperationAction.SUCCEED:
                op = Operation(status=OperationStatus.SUCCEEDED, step_details=StepDetails(attempt=attempt, result=u.payload), **base)
            elif u.action is OperationAction.FAIL:
                op = Operation(status=OperationStatus.FAILED, step_details=StepDetails(attempt=attempt, error=u.error), **base)
            else:
                raise BackendViolation(f"bad step action {u.action}")
            if u.action is not OperationAction.RETRY:
                self.log.append((u.action.value, u.operation_id, u.name, attempt))
        elif t is OperationType.CONTEXT:
            if u.action is OperationAction.START:
                op = Operation(status=OperationStatus.STARTED, **base)
            elif u.action is OperationAction.SUCCEED:
                op = Operation(
                    status=OperationStatus.SUCCEEDED,
                    context_details=ContextDetails(
                        replay_children=bool(u.context_options and u.context_options.replay_children),
                        result=u.payload,
                    ),
                    **base,
                )
            else:
                op = Operation(status=OperationStatus.FAILED, context_details=ContextDetails(replay_children=False, result=None, error=u.error), **base)
            self.log.append((f"CTX_{u.action.value}", u.operation_id, u.name, None))
        elif t is OperationType.WAIT:
            secs = u.wait_options.wait_seconds if u.wait_options else 0
            op = Operation(
                status=OperationStatus.STARTED,
                wait_details=WaitDetails(scheduled_end_timestamp=self.now() + datetime.timedelta(seconds=secs)),
                **base,
            )
            self.log.append(("WAIT", u.operation_id, u.name, secs))
        elif t is OperationType.CALLBACK:
            op = Operation(status=OperationStatus.STARTED, callback_details=CallbackDetails(callback_id=f"cb-{u.operation_id[:8]}"), **base)
            self.log.append(("CALLBACK", u.operation_id, u.name, None))
        elif t is OperationType.EXECUTION:
            self.log.append((f"EXEC_{u.action.value}", u.operation_id, None, None))
            return
        else:
            op = Operation(status=OperationStatus.STARTED, **base)
        self.ops[u.operation_id] = op

    # -- DurableServiceClient
    def checkpoint(self, durable_execution_arn, checkpoint_token, updates, client_token=None):
        with self.lock:
            self.calls += 1
            for u in updates:
                n = self.updates_seen
                if self.crash_before_update is not None and n >= self.crash_before_update:
                    self.crash_before_update = None
                    raise Crash(f"crash before update {n}")
                self.updates_seen += 1
                self._apply(u)
                if self.crash_after_update is not None and n >= self.crash_after_update:
                    self.crash_after_update = None
                    raise Crash(f"crash after update {n}")
            if self.auto_ready:
                self._flip_due()
            self.token += 1
            return CheckpointOutput(
                checkpoint_token=f"t{self.token}",
                new_execution_state=CheckpointUpdatedExecutionState(operations=list(self.ops.values()), next_marker=None),
            )

    def get_execution_state(self, durable_execution_arn, checkpoint_token, next_marker, max_items=1000):
        with self.lock:
            ops = list(self.ops.values())
            start = int(next_marker)
            size = self.page_size or 1000
            page = ops[start : start + size]
            nxt = str(start + size) if start + size < len(ops) else None
            return StateOutput(operations=page, next_marker=nxt)

    # -- driver
    def make_input(self):
        with self.lock:
            if self.auto_ready:
                self._flip_due()
            ops = list(self.ops.values())
            if self.page_size and len(ops) > self.page_size:
                first, marker = ops[: self.page_size], str(self.page_size)
            else:
                first, marker = ops, ""
            self.token += 1
            return DurableExecutionInvocationInputWithClient(
                durable_execution_arn="arn:test",
                checkpoint_token=f"t{self.token}",
                initial_execution_state=InitialExecutionState(operations=first, next_marker=marker),
                service_client=self,
            )


def lambda_ctx():
    c = Mock()
    c.aws_request_id = "req"
    c.client_context = None
    c.identity = None
    c._epoch_deadline_time_in_ms = 0  # noqa: SLF001
    c.invoked_function_arn = "arn"
    c.tenant_id = None
    return c


def drive(handler, backend: Backend, max_invocations: int = 50, fire_timers: bool = True, on_invocation=None):
    """Invoke until SUCCEEDED/FAILED. Returns (final_result_dict, number_of_invocations, outcomes)."""
    outcomes = []
    for i in range(max_invocations):
        if on_invocation:
            on_invocation(i, backend)
        try:
            res = handler(backend.make_input(), lambda_ctx())
        except Crash as e:
            outcomes.append(f"CRASH:{e}")
            if fire_timers:
                backend.fire_all_timers()
            continue
        except Exception as e:  # noqa: BLE001
            outcomes.append(f"RAISED:{type(e).__name__}:{e}")
            if fire_timers:
                backend.fire_all_timers()
            continue
        outcomes.append(res["Status"])
        if res["Status"] != "PENDING":
            return res, i + 1, outcomes
        if fire_timers:
            backend.fire_all_timers()
    return None, max_invocations, outcomes
