"""C12 finding 1 - packaged retry strategy stops following the configured backoff once `rate ** (attempts - 1)` overflows
and the initial delay is 0 (regression of the repair "cap the backoff when the power of the rate overflows").

Configured backoff:  delay(n) = min(initial_delay * backoff_rate ** (n - 1), max_delay), clamped to >= 1 s.
With initial_delay = 0 the product is 0 for EVERY n, so every retry must be scheduled after the minimum of 1 second.
create_retry_strategy() returns 1 s for the attempts whose power still fits a float and then jumps to max_delay
(5 minutes by default) from the first attempt whose power overflows (attempt 1025 with the default rate 2.0, attempt 310 with
rate 10.0, attempt 5 with rate 1e100 ...), because the `except OverflowError` branch assumes that an overflowing power means
an overflowing product.

Run:  PYTHONPATH=/tmp/wt/h2_C12/src /venv/bin/python /tmp/wt/h2_C12/finding_1.py      (exits non-zero on the current code)
"""

from __future__ import annotations

import datetime
import sys
from unittest.mock import Mock

from aws_durable_execution_sdk_python.config import Duration, JitterStrategy, StepConfig
from aws_durable_execution_sdk_python.context import DurableContext
from aws_durable_execution_sdk_python.execution import (
    DurableExecutionInvocationInputWithClient,
    InitialExecutionState,
    durable_execution,
)
from aws_durable_execution_sdk_python.lambda_service import (
    CheckpointOutput,
    CheckpointUpdatedExecutionState,
    ErrorObject,
    ExecutionDetails,
    Operation,
    OperationAction,
    OperationStatus,
    OperationType,
    StateOutput,
    StepDetails,
)
from aws_durable_execution_sdk_python.retries import RetryStrategyConfig, create_retry_strategy

failures: list[str] = []

# ---------------------------------------------------------------------------------------------------------------------
# 1. the strategy alone
# ---------------------------------------------------------------------------------------------------------------------
config = RetryStrategyConfig(
    max_attempts=2000,
    initial_delay=Duration.from_seconds(0),  # "retry as soon as possible"; Duration.from_seconds(0.5) truncates to this too
    # max_delay: default 5 minutes, backoff_rate: default 2.0
    jitter_strategy=JitterStrategy.NONE,
)
strategy = create_retry_strategy(config)
delays = {n: strategy(ValueError("boom"), n).delay_seconds for n in (1, 2, 500, 1024, 1025, 1026, 1999)}
print("delay by attempts_made:", delays)
for n, d in delays.items():
    # 0 * 2.0 ** (n - 1) == 0 for every n  ->  clamped to the 1 s minimum
    if d != 1:
        failures.append(
            f"strategy: attempts_made={n}: delay {d} s, but the configured backoff 0 * 2.0**{n - 1} = 0 gives the 1 s minimum"
        )

# also with jitter: FULL jitter of a base delay of 0 is 0 -> 1 s, never something in (1, max_delay]
full = create_retry_strategy(RetryStrategyConfig(max_attempts=50, initial_delay=Duration(0), backoff_rate=1e10))
worst = max(full(ValueError("boom"), 40).delay_seconds for _ in range(200))
print("FULL jitter, rate 1e10, attempts_made=40: largest of 200 delays:", worst)
if worst != 1:
    failures.append(f"strategy (FULL jitter, rate 1e10, attempt 40): delay up to {worst} s instead of 1 s")


# ---------------------------------------------------------------------------------------------------------------------
# 2. end to end: a re-invocation whose history holds the step READY after 1100 recorded retries
# ---------------------------------------------------------------------------------------------------------------------
class Client:
    def __init__(self):
        self.updates = []

    def checkpoint(self, durable_execution_arn, checkpoint_token, updates, client_token=None):
        self.updates.extend(updates)
        ops = []
        for u in updates:
            if u.action is OperationAction.RETRY:
                ops.append(
                    Operation(
                        operation_id=u.operation_id,
                        operation_type=OperationType.STEP,
                        status=OperationStatus.PENDING,
                        name=u.name,
                        step_details=StepDetails(
                            attempt=1101,
                            next_attempt_timestamp=datetime.datetime.now(tz=datetime.UTC)
                            + datetime.timedelta(seconds=u.step_options.next_attempt_delay_seconds),
                        ),
                    )
                )
        return CheckpointOutput(checkpoint_token="t", new_execution_state=CheckpointUpdatedExecutionState(operations=ops))  # noqa: S106

    def get_execution_state(self, *a, **k):
        return StateOutput(operations=[], next_marker=None)


def always_fails(_step_context):
    msg = "still failing"
    raise ValueError(msg)


@durable_execution
def handler(event, ctx: DurableContext):
    return ctx.step(always_fails, name="poll", config=StepConfig(retry_strategy=strategy))


# the operation id of the first top-level operation
step_id = DurableContext(state=Mock(), execution_context=Mock())._create_step_id_for_logical_step(1)  # noqa: SLF001
client = Client()
history = [
    Operation(
        operation_id="exec",
        operation_type=OperationType.EXECUTION,
        status=OperationStatus.STARTED,
        execution_details=ExecutionDetails(input_payload="{}"),
    ),
    Operation(
        operation_id=step_id,
        operation_type=OperationType.STEP,
        status=OperationStatus.READY,
        name="poll",
        step_details=StepDetails(attempt=1100, error=ErrorObject("still failing", "ValueError", None, None)),
    ),
]
lambda_context = Mock()
lambda_context.aws_request_id = "r"
lambda_context.invoked_function_arn = "arn"
lambda_context.tenant_id = None
lambda_context.client_context = None
lambda_context.identity = None
lambda_context._epoch_deadline_time_in_ms = 0  # noqa: SLF001
result = handler(
    DurableExecutionInvocationInputWithClient(
        durable_execution_arn="arn:test",
        checkpoint_token="t0",  # noqa: S106
        initial_execution_state=InitialExecutionState(operations=history, next_marker=""),
        service_client=client,
    ),
    lambda_context,
)
retry = [u for u in client.updates if u.action is OperationAction.RETRY]
print("invocation:", result, "| RETRY delays:", [u.step_options.next_attempt_delay_seconds for u in retry])
if len(retry) != 1:
    failures.append(f"end to end: expected one RETRY record, got {client.updates}")
elif retry[0].step_options.next_attempt_delay_seconds != 1:
    failures.append(
        "end to end: attempt 1101 of a step with initial_delay=0 was scheduled after "
        f"{retry[0].step_options.next_attempt_delay_seconds} s (max_delay) instead of the 1 s its backoff gives"
    )

if failures:
    print("\nVIOLATION of C12 (packaged strategies must follow the configured backoff):")
    for f in failures:
        print(" -", f)
    assert not failures, failures[0]
print("ok")
sys.exit(0)
