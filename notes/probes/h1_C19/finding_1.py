"""C19 finding 1 (literal violation, LOW severity, needs an unusual causing exception).

Clause: "if a holder leaves its critical section with an exception ... every current and future
acquirer gets an ordered-lock error instead of blocking".

OrderedLock.acquire() builds the error for the other callers with
    OrderedLockError(msg, self._exception)
and OrderedLockError.__init__ (exceptions.py) eagerly evaluates `if source_exception` (bool()) and
f"{source_exception}" (str()) of the *user's* exception.  If that exception's __str__ (or
__bool__/__len__) raises, the queued waiter and every future acquirer get that secondary error
(here a TypeError) instead of an OrderedLockError, so `except OrderedLockError` does not catch it.
Nobody blocks; the holder still sees its own exception.

Run: PYTHONPATH=/tmp/wt/h1_C19/src /venv/bin/python /tmp/wt/h1_C19/finding_1.py
"""

import threading
import time

from aws_durable_execution_sdk_python.exceptions import OrderedLockError
from aws_durable_execution_sdk_python.threading import OrderedLock


class ErrorWithCode(Exception):
    """A user exception with an ordinary bug in __str__ (int concatenated to str)."""

    def __init__(self, code):
        super().__init__()
        self.code = code

    def __str__(self):
        return "failed with code " + self.code


lock = OrderedLock()
hold = threading.Event()
seen = {}


def holder():
    try:
        with lock:
            assert hold.wait(10)
            raise ErrorWithCode(7)
    except BaseException as e:  # noqa: BLE001
        seen["holder"] = e


def acquirer(key):
    try:
        lock.acquire()
        seen[key] = "acquired"
    except BaseException as e:  # noqa: BLE001
        seen[key] = e


th = threading.Thread(target=holder)
th.start()
while len(lock._waiters) != 1:  # noqa: SLF001
    time.sleep(0.001)
tw = threading.Thread(target=acquirer, args=("current",))
tw.start()
while len(lock._waiters) != 2:  # noqa: SLF001
    time.sleep(0.001)
hold.set()
th.join(10)
tw.join(10)
tf = threading.Thread(target=acquirer, args=("future",))
tf.start()
tf.join(10)
assert not (th.is_alive() or tw.is_alive() or tf.is_alive()), "hang"

print({k: repr(v) if k != "holder" else type(v).__name__ for k, v in seen.items()})
assert isinstance(seen["holder"], ErrorWithCode), "holder must see its own exception"
assert isinstance(seen["current"], OrderedLockError), (
    f"queued (current) acquirer got {type(seen['current']).__name__} instead of OrderedLockError"
)
assert isinstance(seen["future"], OrderedLockError), (
    f"future acquirer got {type(seen['future']).__name__} instead of OrderedLockError"
)
print("property held")
