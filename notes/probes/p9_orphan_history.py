"""C10/R3+R4: orphan guard for (a) an operation first started after its ancestor completed and
(b) an operation recorded by an earlier invocation whose ancestor completes now."""
import threading
from aws_durable_execution_sdk_python.state import ExecutionState, CheckpointBatcherConfig
from aws_durable_execution_sdk_python.lambda_service import *
from aws_durable_execution_sdk_python.exceptions import OrphanedChildException

class B:
    def __init__(s): s.sent=[]
    def checkpoint(s, durable_execution_arn, checkpoint_token, updates, client_token):
        s.sent += [(u.operation_id, u.action.value) for u in updates]
        return CheckpointOutput("t", CheckpointUpdatedExecutionState([], None))
    def get_execution_state(s,*a,**k): return StateOutput([],None)
hist = {"M": Operation("M", OperationType.CONTEXT, OperationStatus.STARTED),
        "Br": Operation("Br", OperationType.CONTEXT, OperationStatus.STARTED, parent_id="M"),
        "S": Operation("S", OperationType.STEP, OperationStatus.STARTED, parent_id="Br")}
b = B(); st = ExecutionState("arn", "t0", dict(hist), b, CheckpointBatcherConfig(max_batch_time_seconds=0.01))
threading.Thread(target=st.checkpoint_batches_forever, daemon=True).start()
st.create_checkpoint(OperationUpdate("M", OperationType.CONTEXT, OperationAction.SUCCEED, payload="x"))
res = {}
for name, upd in (("recorded-earlier", OperationUpdate("S", OperationType.STEP, OperationAction.SUCCEED, parent_id="Br", payload="1")),
                  ("first-seen-now", OperationUpdate("N", OperationType.STEP, OperationAction.START, parent_id="Br"))):
    try:
        st.create_checkpoint(upd); res[name] = "ACCEPTED"
    except OrphanedChildException:
        res[name] = "rejected"
st.stop_checkpointing()
print(res, "sent:", b.sent)
assert all(v == "rejected" for v in res.values()), res
