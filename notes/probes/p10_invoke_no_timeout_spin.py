"""Demonstration for property C07 (suspension is sound and live).

Drives the real `durable_execution` wrapper against a small in-memory backend that
behaves like the durable-functions service: it records checkpoints, owns the timers
(wait end, step retry) and the external events (callbacks, chained invokes), returns the
up-to-date operation list in every checkpoint response, and re-invokes the function after
a PENDING result once something it was parked on has been delivered.

Programs used (all legal, nothing exotic):

  A. parallel([ invoke("fn") with the default InvokeConfig (= no timeout),
                wait(1 hour),
                create_callback().result() ])
  B. the same invoke nested one level deeper: parallel([ parallel([invoke]), callback ])
  C. control: like A but the invoke has a 30 s timeout.

Expected (C07): every branch is parked on something registered with the backend, so the
first invocation must return PENDING promptly; after the backend delivers the invoke
result / callback / timer, a later invocation must return SUCCEEDED.  No single invocation
may run forever, whether blocked or polling.

Run:  PYTHONPATH=/tmp/wt/r4_C07/src /venv/bin/python /tmp/wt/r4_C07/demo_C07.py
Exit code 0 = property held, 1 = violated.
"""

from __future__ import annotations

import dataclasses
import datetime
import logging
import os
import sys
import threading
import time
import traceback

from aws_durable_execution_sdk_python.config import Duration, InvokeConfig
from aws_durable_execution_sdk_python.execution import (
    DurableExecutionInvocationInputWithClient,
    InitialExecutionState,
    durable_execution,
)
from aws_durable_execution_sdk_python.lambda_service import (
    CallbackDetails,
    ChainedInvokeDetails,
    CheckpointOutput,
    CheckpointUpdatedExecutionState,
    ContextDetails,
    ExecutionDetails,
    Operation,
    OperationAction,
    OperationStatus,
    OperationType,
    StateOutput,
    StepDetails,
    WaitDetails,
)

logging.disable(logging.CRITICAL)

UTC = datetime.UTC
INVOCATION_DEADLINE_S = 12.0  # an invocation whose branches are all parked returns in ~0.3 s
MAX_INVOCATIONS = 5


def _now() -> datetime.datetime:
    return datetime.datetime.now(tz=UTC)


class FakeBackend:
    """In-memory stand-in for the durable execution service (implements DurableServiceClient)."""

    def __init__(self) -> None:
        self.lock = threading.RLock()
        self.ops: dict[str, Operation] = {
            "exec": Operation(
                operation_id="exec",
                operation_type=OperationType.EXECUTION,
                status=OperationStatus.STARTED,
                execution_details=ExecutionDetails(input_payload="{}"),
            )
        }
        self.calls = 0

    # ---------------------------------------------------------------- client protocol
    def checkpoint(self, durable_execution_arn, checkpoint_token, updates, client_token):
        with self.lock:
            self.calls += 1
            for update in updates:
                self._apply(update)
            self._fire_due_timers()
            return CheckpointOutput(
                checkpoint_token=f"token-{self.calls}",
                new_execution_state=CheckpointUpdatedExecutionState(
                    operations=list(self.ops.values())
                ),
            )

    def get_execution_state(
        self, durable_execution_arn, checkpoint_token, next_marker, max_items=1000
    ):
        return StateOutput(operations=[], next_marker=None)

    # ---------------------------------------------------------------- service semantics
    def _apply(self, u) -> None:
        old = self.ops.get(u.operation_id)
        kind, action = u.operation_type, u.action
        base = {
            "operation_id": u.operation_id,
            "operation_type": kind,
            "parent_id": u.parent_id,
            "name": u.name,
            "sub_type": u.sub_type,
        }
        if kind is OperationType.STEP:
            attempt = old.step_details.attempt if old and old.step_details else 0
            if action is OperationAction.START:
                op = Operation(
                    **base,
                    status=OperationStatus.STARTED,
                    step_details=StepDetails(attempt=attempt),
                )
            elif action is OperationAction.SUCCEED:
                op = Operation(
                    **base,
                    status=OperationStatus.SUCCEEDED,
                    step_details=StepDetails(attempt=attempt + 1, result=u.payload),
                )
            elif action is OperationAction.FAIL:
                op = Operation(
                    **base,
                    status=OperationStatus.FAILED,
                    step_details=StepDetails(attempt=attempt + 1, error=u.error),
                )
            else:  # RETRY: the service owns the retry timer
                delay = u.step_options.next_attempt_delay_seconds
                op = Operation(
                    **base,
                    status=OperationStatus.PENDING,
                    step_details=StepDetails(
                        attempt=attempt + 1,
                        next_attempt_timestamp=_now()
                        + datetime.timedelta(seconds=delay),
                        error=u.error,
                    ),
                )
        elif kind is OperationType.WAIT:
            op = Operation(
                **base,
                status=OperationStatus.STARTED,
                wait_details=WaitDetails(
                    scheduled_end_timestamp=_now()
                    + datetime.timedelta(seconds=u.wait_options.wait_seconds)
                ),
            )
        elif kind is OperationType.CALLBACK:
            op = Operation(
                **base,
                status=OperationStatus.STARTED,
                callback_details=CallbackDetails(callback_id=f"cb-{u.operation_id}"),
            )
        elif kind is OperationType.CHAINED_INVOKE:
            op = Operation(
                **base,
                status=OperationStatus.STARTED,
                chained_invoke_details=ChainedInvokeDetails(),
            )
        elif kind is OperationType.CONTEXT:
            if action is OperationAction.START:
                op = Operation(**base, status=OperationStatus.STARTED)
            elif action is OperationAction.SUCCEED:
                replay = bool(u.context_options and u.context_options.replay_children)
                op = Operation(
                    **base,
                    status=OperationStatus.SUCCEEDED,
                    context_details=ContextDetails(
                        replay_children=replay, result=u.payload
                    ),
                )
            else:
                op = Operation(
                    **base,
                    status=OperationStatus.FAILED,
                    context_details=ContextDetails(error=u.error),
                )
        else:  # EXECUTION updates are not needed here
            return
        self.ops[u.operation_id] = op

    def _fire_due_timers(self, force: bool = False) -> None:
        now = _now()
        for key, op in list(self.ops.items()):
            if (
                op.operation_type is OperationType.WAIT
                and op.status is OperationStatus.STARTED
                and (force or op.wait_details.scheduled_end_timestamp <= now)
            ):
                self.ops[key] = dataclasses.replace(op, status=OperationStatus.SUCCEEDED)
            if (
                op.operation_type is OperationType.STEP
                and op.status is OperationStatus.PENDING
                and (force or op.step_details.next_attempt_timestamp <= now)
            ):
                self.ops[key] = dataclasses.replace(op, status=OperationStatus.READY)

    # ---------------------------------------------------------------- used by the driver
    def parked_on(self) -> list[str]:
        """What the execution is durably parked on: open timers and external events."""
        with self.lock:
            out = []
            for op in self.ops.values():
                if op.operation_type in (
                    OperationType.CALLBACK,
                    OperationType.CHAINED_INVOKE,
                    OperationType.WAIT,
                ) and op.status is OperationStatus.STARTED:
                    out.append(f"{op.operation_type.value}:{op.operation_id[:8]}")
                if (
                    op.operation_type is OperationType.STEP
                    and op.status is OperationStatus.PENDING
                ):
                    out.append(f"STEP-RETRY:{op.operation_id[:8]}")
            return out

    def deliver_everything(self) -> None:
        """Fire all timers and deliver all awaited callbacks / invoke results."""
        with self.lock:
            self._fire_due_timers(force=True)
            for key, op in list(self.ops.items()):
                if op.status is not OperationStatus.STARTED:
                    continue
                if op.operation_type is OperationType.CALLBACK:
                    self.ops[key] = dataclasses.replace(
                        op,
                        status=OperationStatus.SUCCEEDED,
                        callback_details=CallbackDetails(
                            callback_id=op.callback_details.callback_id,
                            result="callback-result",
                        ),
                    )
                elif op.operation_type is OperationType.CHAINED_INVOKE:
                    self.ops[key] = dataclasses.replace(
                        op,
                        status=OperationStatus.SUCCEEDED,
                        chained_invoke_details=ChainedInvokeDetails(
                            result='"invoke-result"'
                        ),
                    )

    def invocation_input(self) -> DurableExecutionInvocationInputWithClient:
        with self.lock:
            self._fire_due_timers()
            ops = list(self.ops.values())
        return DurableExecutionInvocationInputWithClient(
            durable_execution_arn="arn:demo",
            checkpoint_token="token-0",
            initial_execution_state=InitialExecutionState(
                operations=ops, next_marker=""
            ),
            service_client=self,
        )


def run_one_invocation(handler, backend: FakeBackend):
    """Run one invocation; returns (output dict | None if it did not return in time, seconds, calls)."""
    box: dict = {}
    calls_before = backend.calls

    def target() -> None:
        try:
            box["out"] = handler(backend.invocation_input(), None)
        except BaseException as e:  # noqa: BLE001
            box["exc"] = e

    thread = threading.Thread(target=target, daemon=True)
    started = time.time()
    thread.start()
    thread.join(INVOCATION_DEADLINE_S)
    elapsed = time.time() - started
    calls = backend.calls - calls_before
    if thread.is_alive():
        return None, elapsed, calls
    if "exc" in box:
        raise box["exc"]
    return box["out"], elapsed, calls


def drive(label: str, handler) -> None:
    """Play the backend's role until the execution finishes; assert C07 on the way."""
    backend = FakeBackend()
    for n in range(1, MAX_INVOCATIONS + 1):
        out, elapsed, calls = run_one_invocation(handler, backend)
        assert out is not None, (
            f"[{label}] C07 violated: invocation #{n} did not return within "
            f"{INVOCATION_DEADLINE_S:.0f} s although every branch is parked on "
            f"{backend.parked_on()}; it kept polling the backend ({calls} checkpoint "
            f"calls so far) instead of returning PENDING"
        )
        status = out["Status"]
        print(
            f"[{label}] invocation #{n}: {status} after {elapsed:.2f} s, "
            f"{calls} checkpoint call(s)"
        )
        if status == "SUCCEEDED":
            print(f"[{label}] result: {out.get('Result')}")
            return
        assert status == "PENDING", f"[{label}] unexpected outcome {out}"
        parked = backend.parked_on()
        assert parked, f"[{label}] C07 violated: PENDING but parked on nothing"
        print(f"[{label}]   parked on {parked}; backend now delivers all of it")
        backend.deliver_everything()
    raise AssertionError(
        f"[{label}] C07 violated: not finished after {MAX_INVOCATIONS} invocations"
    )



def _invoke_branch(name):
    def branch(ctx):
        return ctx.invoke("other-function", {"k": 1}, name=name)
    return branch

@durable_execution
def two_invokes(event, ctx):
    r = ctx.parallel([_invoke_branch("a"), _invoke_branch("b")], name="two")
    return [i.result for i in r.all]

@durable_execution
def invoke_and_slow_step(event, ctx):
    def slow(c):
        def f(sc):
            time.sleep(3); return "done"
        return c.step(f, name="slow")
    r = ctx.parallel([_invoke_branch("a"), slow], name="mix")
    return [i.result for i in r.all]

@durable_execution
def staggered(event, ctx):
    def later(c):
        def f(sc):
            time.sleep(0.5); return "prep"
        c.step(f, name="prep")
        return c.invoke("other-function", {"k": 2}, name="b")
    r = ctx.parallel([_invoke_branch("a"), later], name="stag")
    return [i.result for i in r.all]

if __name__ == "__main__":
    import sys
    which = sys.argv[1]
    backend = FakeBackend()
    out, elapsed, calls = run_one_invocation({"two": two_invokes, "mix": invoke_and_slow_step, "stag": staggered}[which], backend)
    print(which, "->", out, f"after {elapsed:.2f}s with {calls} checkpoint API calls; parked on", backend.parked_on())
    os._exit(0)
