"""C05 finding 1 - a synchronous checkpoint caller blocks forever once the batcher has been stopped.

Property clause violated:
    "Every synchronous caller is eventually released - with success after its update was applied,
     or with the failure - and never blocks forever."

Part A (end to end, public API only, no internals touched):
    handler:  ctx.parallel([fast, slow_outer], first_successful)
        fast        : one quick step
        slow_outer  : ctx.parallel([waiter, busy])
            waiter  : ctx.wait(2 s)            -> TimedSuspendExecution, the inner executor's timer thread will resume it
            busy    : one step that takes 5 s  -> keeps the inner parallel from suspending
    `fast` succeeds, the outer parallel completes early (min_successful=1), the handler returns SUCCEEDED and
    durable_execution() calls ExecutionState.close() -> stop_checkpointing(): the batcher thread exits.
    Two seconds later the inner executor's timer thread resumes `waiter` and calls
    ExecutionState.create_checkpoint() (an empty *synchronous* checkpoint, executor.py:resubmitter).
    Nothing consumes the queue any more, nothing rejects the call, nothing ever sets its completion event:
    the caller is blocked in CompletionEvent.wait() for good.

Part B (ExecutionState only): the same hole seen from the pipeline itself - a synchronous caller that is
    queued while stop_checkpointing() is signalled is never released either (the batcher finishes the batch
    in flight and exits, leaving the queue as it is).

Run: PYTHONPATH=/tmp/wt/h1_C05/src /venv/bin/python /tmp/wt/h1_C05/finding_1.py
"""

from __future__ import annotations

import datetime
import sys
import threading
import time
import traceback

from aws_durable_execution_sdk_python.config import (
    CompletionConfig,
    Duration,
    ParallelConfig,
)
from aws_durable_execution_sdk_python.context import DurableContext
from aws_durable_execution_sdk_python.execution import (
    DurableExecutionInvocationInputWithClient,
    InitialExecutionState,
    durable_execution,
)
from aws_durable_execution_sdk_python.lambda_service import (
    CheckpointOutput,
    CheckpointUpdatedExecutionState,
    ContextDetails,
    ExecutionDetails,
    Operation,
    OperationAction,
    OperationStatus,
    OperationType,
    OperationUpdate,
    StepDetails,
    WaitDetails,
)
from aws_durable_execution_sdk_python.state import ExecutionState

UTC = datetime.UTC


class FakeBackend:
    """In-memory durable-execution backend: applies updates, returns the changed operations."""

    def __init__(self):
        self.ops: dict[str, Operation] = {}
        self.calls: list[tuple[str, list[OperationUpdate]]] = []
        self.lock = threading.Lock()
        self.n = 0

    def _apply(self, u: OperationUpdate) -> Operation:
        now = datetime.datetime.now(tz=UTC)
        status = {
            OperationAction.START: OperationStatus.STARTED,
            OperationAction.SUCCEED: OperationStatus.SUCCEEDED,
            OperationAction.FAIL: OperationStatus.FAILED,
            OperationAction.RETRY: OperationStatus.PENDING,
            OperationAction.CANCEL: OperationStatus.CANCELLED,
        }[u.action]
        kw = {}
        if u.operation_type is OperationType.STEP:
            kw["step_details"] = StepDetails(result=u.payload, error=u.error)
        elif u.operation_type is OperationType.CONTEXT:
            kw["context_details"] = ContextDetails(
                replay_children=bool(u.context_options and u.context_options.replay_children),
                result=u.payload,
                error=u.error,
            )
        elif u.operation_type is OperationType.WAIT:
            kw["wait_details"] = WaitDetails(
                scheduled_end_timestamp=now + datetime.timedelta(seconds=u.wait_options.wait_seconds)
            )
        op = Operation(
            operation_id=u.operation_id,
            operation_type=u.operation_type,
            status=status,
            parent_id=u.parent_id,
            name=u.name,
            sub_type=u.sub_type,
            start_timestamp=now,
            **kw,
        )
        self.ops[u.operation_id] = op
        return op

    def checkpoint(self, durable_execution_arn, checkpoint_token, updates, client_token):
        with self.lock:
            self.n += 1
            self.calls.append((checkpoint_token, list(updates)))
            changed = [self._apply(u) for u in updates]
            # timers that have fired
            now = datetime.datetime.now(tz=UTC)
            for op in list(self.ops.values()):
                if (
                    op.operation_type is OperationType.WAIT
                    and op.status is OperationStatus.STARTED
                    and op.wait_details.scheduled_end_timestamp <= now
                ):
                    done = Operation(
                        operation_id=op.operation_id,
                        operation_type=op.operation_type,
                        status=OperationStatus.SUCCEEDED,
                        parent_id=op.parent_id,
                        name=op.name,
                        wait_details=op.wait_details,
                    )
                    self.ops[op.operation_id] = done
                    changed.append(done)
            return CheckpointOutput(
                checkpoint_token=f"tok-{self.n}",
                new_execution_state=CheckpointUpdatedExecutionState(operations=changed),
            )

    def get_execution_state(self, durable_execution_arn, checkpoint_token, next_marker, max_items=1000):
        raise AssertionError("no pagination in this scenario")


def blocked_sync_callers() -> list[tuple[str, str]]:
    """Threads currently inside ExecutionState.create_checkpoint waiting on their completion event."""
    import sys as _sys

    found = []
    names = {t.ident: t.name for t in threading.enumerate()}
    for ident, frame in _sys._current_frames().items():  # noqa: SLF001
        stack = traceback.extract_stack(frame)
        in_create = any(
            fs.name == "create_checkpoint" and fs.filename.endswith("state.py") for fs in stack
        )
        in_wait = any(fs.name == "wait" and fs.filename.endswith("threading.py") for fs in stack)
        if in_create and in_wait:
            found.append((names.get(ident, str(ident)), "".join(traceback.format_list(stack[-6:]))))
    return found


# --------------------------------------------------------------------------------------------- part A
def part_a() -> list[str]:
    backend = FakeBackend()

    def fast(c: DurableContext) -> str:
        return c.step(lambda _s: "fast", name="fast-step")

    def waiter(c: DurableContext) -> str:
        c.wait(Duration.from_seconds(2), name="inner-wait")
        return "waited"

    def busy(c: DurableContext) -> str:
        def body(_s):
            time.sleep(5)
            return "busy"

        return c.step(body, name="busy-step")

    def slow_outer(c: DurableContext):
        return c.parallel([waiter, busy], name="inner").get_results()

    @durable_execution
    def handler(event, ctx: DurableContext):
        ctx.parallel(
            [fast, slow_outer],
            name="outer",
            config=ParallelConfig(completion_config=CompletionConfig.first_successful()),
        )
        return "done"

    event = DurableExecutionInvocationInputWithClient(
        durable_execution_arn="arn:finding-1",
        checkpoint_token="tok-0",
        initial_execution_state=InitialExecutionState(
            operations=[
                Operation(
                    operation_id="exec",
                    operation_type=OperationType.EXECUTION,
                    status=OperationStatus.STARTED,
                    execution_details=ExecutionDetails(input_payload="{}"),
                )
            ],
            next_marker="",
        ),
        service_client=backend,
    )

    t0 = time.time()
    out = handler(event, None)
    t_ret = time.time() - t0
    print(f"[A] handler returned {out} after {t_ret:.2f}s, {backend.n} checkpoint calls")
    assert out["Status"] == "SUCCEEDED", out
    alive = [t.name for t in threading.enumerate() if t.name.startswith("dex-handler")]
    print(f"[A] dex-handler threads alive after return (batcher): {alive}")

    # The inner wait resumes 2 s after its START; the busy step ends after 5 s. Give everything plenty of time.
    time.sleep(9.0 - t_ret)
    blocked = blocked_sync_callers()
    problems = []
    for name, stack in blocked:
        problems.append(
            f"thread {name!r} is still blocked in a synchronous create_checkpoint() "
            f"{time.time() - t0:.1f}s after start ({time.time() - t0 - t_ret:.1f}s after the handler returned):\n{stack}"
        )
    return problems


# --------------------------------------------------------------------------------------------- part B
def part_b() -> list[str]:
    in_call = threading.Event()
    release = threading.Event()

    class SlowBackend:
        n = 0

        def checkpoint(self, durable_execution_arn, checkpoint_token, updates, client_token):
            self.n += 1
            in_call.set()
            release.wait(10)
            return CheckpointOutput(
                checkpoint_token=f"tok-{self.n}",
                new_execution_state=CheckpointUpdatedExecutionState(),
            )

        def get_execution_state(self, *a, **k):
            raise AssertionError

    st = ExecutionState("arn", "tok-0", {}, SlowBackend())
    bg = threading.Thread(target=st.checkpoint_batches_forever, daemon=True, name="batcher-B")
    bg.start()

    def upd(i):
        return OperationUpdate(
            operation_id=f"op{i}", operation_type=OperationType.STEP, action=OperationAction.SUCCEED, payload="x"
        )

    outcome = {}

    def caller(i):
        try:
            st.create_checkpoint(upd(i), is_sync=True)
            outcome[i] = "ok"
        except BaseException as e:  # noqa: BLE001
            outcome[i] = repr(e)

    t1 = threading.Thread(target=caller, args=(1,), daemon=True, name="caller-1")
    t1.start()
    # batch_time 1 s default: first call happens once the window closes (~0.1 s idle)
    assert in_call.wait(5)
    t2 = threading.Thread(target=caller, args=(2,), daemon=True, name="caller-2")
    t2.start()  # queued while call 1 is in flight
    time.sleep(0.2)
    st.stop_checkpointing()  # e.g. close() at the end of the invocation
    release.set()
    t1.join(5)
    t2.join(5)
    bg.join(5)
    print(f"[B] outcomes {outcome}; batcher alive: {bg.is_alive()}; caller-2 alive: {t2.is_alive()}")
    problems = []
    if t2.is_alive():
        problems.append(
            "caller-2 handed its update to create_checkpoint(is_sync=True) before stop_checkpointing(); the "
            "batcher exited without delivering it and without releasing the caller (neither success nor failure)"
        )
    return problems


if __name__ == "__main__":
    import os

    problems = part_a() + part_b()
    for p in problems:
        print("VIOLATION:", p)
    try:
        assert not problems, (
            f"C05 'every synchronous caller is eventually released': {len(problems)} synchronous caller(s) "
            "blocked forever after stop_checkpointing()"
        )
    except AssertionError:
        traceback.print_exc()
        sys.stdout.flush()
        sys.stderr.flush()
        # the leaked (non-daemon) pool threads of the scenario would keep the interpreter from exiting
        os._exit(1)
    print("no violation observed")
    sys.stdout.flush()
    os._exit(0)
