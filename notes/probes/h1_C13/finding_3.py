"""C13 finding 3 (borderline - see report.md): the SDK's only ready-made strategy factory cannot drive
wait_for_condition: every call FAILS on its first poll, whatever the strategy decided.

waits.create_wait_strategy(WaitStrategyConfig(should_continue_polling=...)) is the polling strategy the
SDK ships (state predicate + max_attempts + backoff + jitter; AGENTS.md / docs/core/wait.md advertise
ready-made strategies for wait_for_condition). It returns WaitDecision(should_wait, delay), whereas
operation/wait_for_condition.py: execute() reads `decision.should_continue`. The AttributeError is caught
by execute()'s `except Exception`, a FAIL checkpoint is written and the call raises - so polling neither
continues when the strategy says "wait" nor ends with the last state when it says "no_wait".

Run:  PYTHONPATH=/tmp/wt/h1_C13/src /venv/bin/python finding_3.py
"""
# ---------------------------------------------------------------------------------------------
# Minimal in-memory backend. It consumes exactly what LambdaClient would put on the wire
# (OperationUpdate.to_dict()) and hands back Operation.from_dict(...) objects. STEP model (the
# convention tests/operation/wait_for_condition_test.py uses: Attempt == completed attempts):
#   START -> STARTED (keeps Attempt/Result); RETRY -> PENDING, Attempt+1, Result=Payload,
#   NextAttemptTimestamp=now+delay; SUCCEED -> SUCCEEDED, Result=Payload; FAIL -> FAILED, Error.
# advance() lets the delay pass: PENDING -> READY (the service would now re-invoke the function).
# ---------------------------------------------------------------------------------------------
import datetime
import functools
import logging
import threading
from unittest.mock import Mock

import aws_durable_execution_sdk_python.state as state_mod
from aws_durable_execution_sdk_python.execution import (
    DurableExecutionInvocationInputWithClient,
    InitialExecutionState,
    durable_execution,
)
from aws_durable_execution_sdk_python.lambda_service import (
    CheckpointOutput,
    CheckpointUpdatedExecutionState,
    Operation,
    StateOutput,
)

logging.disable(logging.CRITICAL)
# only speeds the run up (do not wait 1 s to fill every batch); no change of semantics
state_mod.CheckpointBatcherConfig = functools.partial(
    state_mod.CheckpointBatcherConfig, max_batch_time_seconds=0.02
)


class FakeBackend:
    def __init__(self):
        self.lock = threading.Lock()
        self.ops = {
            "exec": {
                "Id": "exec",
                "Type": "EXECUTION",
                "Status": "STARTED",
                "ExecutionDetails": {"InputPayload": "{}"},
            }
        }
        self.order = ["exec"]
        self.log = []

    def checkpoint(self, durable_execution_arn, checkpoint_token, updates, client_token):
        with self.lock:
            for d in [u.to_dict() for u in updates]:
                self._apply(d)
            return CheckpointOutput(
                checkpoint_token="tok",
                new_execution_state=CheckpointUpdatedExecutionState(
                    operations=[Operation.from_dict(self.ops[i]) for i in self.order]
                ),
            )

    def get_execution_state(self, durable_execution_arn, checkpoint_token, next_marker, max_items=1000):
        return StateOutput(operations=[], next_marker=None)

    def _apply(self, d):
        self.log.append(d)
        cur = self.ops.get(d["Id"])
        if cur is None:
            cur = {"Id": d["Id"], "Type": d["Type"], "Status": "STARTED"}
            for k in ("ParentId", "Name", "SubType"):
                if k in d:
                    cur[k] = d[k]
            self.ops[d["Id"]] = cur
            self.order.append(d["Id"])
        assert cur["Status"] not in ("SUCCEEDED", "FAILED"), f"update for a completed operation: {d}"
        if d["Type"] != "STEP":
            return
        sd = cur.setdefault("StepDetails", {"Attempt": 0})
        action = d["Action"]
        if action == "START":
            cur["Status"] = "STARTED"
        elif action == "RETRY":
            cur["Status"] = "PENDING"
            sd["Attempt"] += 1
            sd.pop("Result", None)
            if "Payload" in d:
                sd["Result"] = d["Payload"]
            delay = d["StepOptions"]["NextAttemptDelaySeconds"]
            sd["NextAttemptTimestamp"] = datetime.datetime.now(tz=datetime.UTC) + datetime.timedelta(seconds=delay)
        elif action == "SUCCEED":
            cur["Status"] = "SUCCEEDED"
            sd.pop("Result", None)
            if "Payload" in d:
                sd["Result"] = d["Payload"]
        elif action == "FAIL":
            cur["Status"] = "FAILED"
            sd["Error"] = d.get("Error", {})

    def advance(self):
        with self.lock:
            for op in self.ops.values():
                if op["Type"] == "STEP" and op["Status"] == "PENDING":
                    op["Status"] = "READY"


def invoke(handler, backend, timeout=60.0):
    """One invocation of the durable handler with the backend's current history."""
    ctx = Mock()
    ctx.aws_request_id = "req"
    ctx.client_context = None
    ctx.identity = None
    ctx._epoch_deadline_time_in_ms = 0
    ctx.invoked_function_arn = "arn"
    ctx.tenant_id = None
    event = DurableExecutionInvocationInputWithClient(
        durable_execution_arn="arn:exec",
        checkpoint_token="tok0",
        initial_execution_state=InitialExecutionState(
            operations=[Operation.from_dict(backend.ops[i]) for i in backend.order], next_marker=""
        ),
        service_client=backend,
    )
    out = {}

    def run():
        try:
            out["result"] = durable_execution(handler)(event, ctx)
        except BaseException as e:  # noqa: BLE001
            out["raised"] = e

    t = threading.Thread(target=run, daemon=True)
    t.start()
    t.join(timeout)
    assert not t.is_alive(), "HANG: invocation did not finish"
    return out


def run_to_completion(handler, backend, max_invocations=20):
    outs = []
    for _ in range(max_invocations):
        out = invoke(handler, backend)
        outs.append(out)
        if "raised" in out or out["result"]["Status"] != "PENDING":
            return outs
        backend.advance()
    raise AssertionError("execution did not complete")


# ---------------------------------------------------------------------------------------------
from aws_durable_execution_sdk_python.config import Duration, JitterStrategy
from aws_durable_execution_sdk_python.waits import (
    WaitForConditionConfig,
    WaitStrategyConfig,
    create_wait_strategy,
)

received = []
outcome = []


def check(state, check_context):
    received.append(state)
    return state + 1


def handler(event, context):
    strategy = create_wait_strategy(
        WaitStrategyConfig(
            should_continue_polling=lambda state: state < 3,  # stop once three polls have been made
            initial_delay=Duration.from_seconds(2),
            jitter_strategy=JitterStrategy.NONE,
        )
    )
    outcome.append(
        context.wait_for_condition(
            check, WaitForConditionConfig(wait_strategy=strategy, initial_state=0), name="poll"
        )
    )
    return outcome[-1]


backend = FakeBackend()
outs = run_to_completion(handler, backend)
print("states received by check:", received)
print("updates sent            :", [(d["Action"], (d.get("Error") or {}).get("ErrorType")) for d in backend.log])
print("final                   :", outs[-1].get("result") or repr(outs[-1].get("raised")))

assert received == [0, 1, 2] and outcome == [3], (
    "C13 violated: the strategy says continue after polls 1 and 2 and stop after poll 3 (state 3), so check "
    f"must receive [0, 1, 2] and the call must return 3; check received {received!r}, the call returned "
    f"{outcome!r}, the execution ended with {outs[-1].get('result')!r}"
)
print("no violation")
