"""C13 finding 1: a state whose serialized form is the empty string is not threaded to the next poll.

wait_for_condition with the SDK's own PassThroughSerDes (state type: str). The check function returns
"" on poll 2. Poll 3 must receive "" (the state poll 2 returned); instead it receives the configured
initial state, because
  * operation/wait_for_condition.py: execute() tests `checkpointed_result.result` for truthiness, and
  * lambda_service.py: OperationUpdate.to_dict() drops a falsy Payload (`if self.payload:`).
The same root cause makes a final state "" come back as None when the completed operation is replayed.

Run:  PYTHONPATH=/tmp/wt/h1_C13/src /venv/bin/python finding_1.py
"""
# ---------------------------------------------------------------------------------------------
# Minimal in-memory backend. It consumes exactly what LambdaClient would put on the wire
# (OperationUpdate.to_dict()) and hands back Operation.from_dict(...) objects. STEP model (the
# convention tests/operation/wait_for_condition_test.py uses: Attempt == completed attempts):
#   START -> STARTED (keeps Attempt/Result); RETRY -> PENDING, Attempt+1, Result=Payload,
#   NextAttemptTimestamp=now+delay; SUCCEED -> SUCCEEDED, Result=Payload; FAIL -> FAILED, Error.
# advance() lets the delay pass: PENDING -> READY (the service would now re-invoke the function).
# ---------------------------------------------------------------------------------------------
import datetime
import functools
import logging
import threading
from unittest.mock import Mock

import aws_durable_execution_sdk_python.state as state_mod
from aws_durable_execution_sdk_python.execution import (
    DurableExecutionInvocationInputWithClient,
    InitialExecutionState,
    durable_execution,
)
from aws_durable_execution_sdk_python.lambda_service import (
    CheckpointOutput,
    CheckpointUpdatedExecutionState,
    Operation,
    StateOutput,
)

logging.disable(logging.CRITICAL)
# only speeds the run up (do not wait 1 s to fill every batch); no change of semantics
state_mod.CheckpointBatcherConfig = functools.partial(
    state_mod.CheckpointBatcherConfig, max_batch_time_seconds=0.02
)


class FakeBackend:
    def __init__(self):
        self.lock = threading.Lock()
        self.ops = {
            "exec": {
                "Id": "exec",
                "Type": "EXECUTION",
                "Status": "STARTED",
                "ExecutionDetails": {"InputPayload": "{}"},
            }
        }
        self.order = ["exec"]
        self.log = []

    def checkpoint(self, durable_execution_arn, checkpoint_token, updates, client_token):
        with self.lock:
            for d in [u.to_dict() for u in updates]:
                self._apply(d)
            return CheckpointOutput(
                checkpoint_token="tok",
                new_execution_state=CheckpointUpdatedExecutionState(
                    operations=[Operation.from_dict(self.ops[i]) for i in self.order]
                ),
            )

    def get_execution_state(self, durable_execution_arn, checkpoint_token, next_marker, max_items=1000):
        return StateOutput(operations=[], next_marker=None)

    def _apply(self, d):
        self.log.append(d)
        cur = self.ops.get(d["Id"])
        if cur is None:
            cur = {"Id": d["Id"], "Type": d["Type"], "Status": "STARTED"}
            for k in ("ParentId", "Name", "SubType"):
                if k in d:
                    cur[k] = d[k]
            self.ops[d["Id"]] = cur
            self.order.append(d["Id"])
        assert cur["Status"] not in ("SUCCEEDED", "FAILED"), f"update for a completed operation: {d}"
        if d["Type"] != "STEP":
            return
        sd = cur.setdefault("StepDetails", {"Attempt": 0})
        action = d["Action"]
        if action == "START":
            cur["Status"] = "STARTED"
        elif action == "RETRY":
            cur["Status"] = "PENDING"
            sd["Attempt"] += 1
            sd.pop("Result", None)
            if "Payload" in d:
                sd["Result"] = d["Payload"]
            delay = d["StepOptions"]["NextAttemptDelaySeconds"]
            sd["NextAttemptTimestamp"] = datetime.datetime.now(tz=datetime.UTC) + datetime.timedelta(seconds=delay)
        elif action == "SUCCEED":
            cur["Status"] = "SUCCEEDED"
            sd.pop("Result", None)
            if "Payload" in d:
                sd["Result"] = d["Payload"]
        elif action == "FAIL":
            cur["Status"] = "FAILED"
            sd["Error"] = d.get("Error", {})

    def advance(self):
        with self.lock:
            for op in self.ops.values():
                if op["Type"] == "STEP" and op["Status"] == "PENDING":
                    op["Status"] = "READY"


def invoke(handler, backend, timeout=60.0):
    """One invocation of the durable handler with the backend's current history."""
    ctx = Mock()
    ctx.aws_request_id = "req"
    ctx.client_context = None
    ctx.identity = None
    ctx._epoch_deadline_time_in_ms = 0
    ctx.invoked_function_arn = "arn"
    ctx.tenant_id = None
    event = DurableExecutionInvocationInputWithClient(
        durable_execution_arn="arn:exec",
        checkpoint_token="tok0",
        initial_execution_state=InitialExecutionState(
            operations=[Operation.from_dict(backend.ops[i]) for i in backend.order], next_marker=""
        ),
        service_client=backend,
    )
    out = {}

    def run():
        try:
            out["result"] = durable_execution(handler)(event, ctx)
        except BaseException as e:  # noqa: BLE001
            out["raised"] = e

    t = threading.Thread(target=run, daemon=True)
    t.start()
    t.join(timeout)
    assert not t.is_alive(), "HANG: invocation did not finish"
    return out


def run_to_completion(handler, backend, max_invocations=20):
    outs = []
    for _ in range(max_invocations):
        out = invoke(handler, backend)
        outs.append(out)
        if "raised" in out or out["result"]["Status"] != "PENDING":
            return outs
        backend.advance()
    raise AssertionError("execution did not complete")


# ---------------------------------------------------------------------------------------------
from aws_durable_execution_sdk_python.config import Duration
from aws_durable_execution_sdk_python.serdes import PassThroughSerDes
from aws_durable_execution_sdk_python.waits import WaitForConditionConfig, WaitForConditionDecision

INITIAL = "initial"
RETURNS = ["a", "", "c", ""]  # what the check function returns on poll 1, 2, 3, 4; poll 4 is the last

received = []  # (poll number seen by the strategy, state received by check)
results = []


def check(state, check_context):
    received.append(state)
    return RETURNS[len(received) - 1]


def strategy(state, attempt):
    if attempt >= len(RETURNS):
        return WaitForConditionDecision.stop_polling()
    return WaitForConditionDecision.continue_waiting(Duration.from_seconds(5))


def handler(event, context):
    result = context.wait_for_condition(
        check,
        WaitForConditionConfig(wait_strategy=strategy, initial_state=INITIAL, serdes=PassThroughSerDes()),
        name="poll",
    )
    results.append(result)
    return None


backend = FakeBackend()
outs = run_to_completion(handler, backend)
assert outs[-1].get("result", {}).get("Status") == "SUCCEEDED", outs[-1]

# replay of the completed operation in one more invocation (e.g. a later operation suspended)
polls_before_replay = len(received)
invoke(handler, backend)

print("states received by check :", received)
print("results of the call      :", results)
print("updates sent             :", [(d["Action"], d.get("Payload", "<no Payload key>")) for d in backend.log])


# Independent of what the wire / backend does with an empty payload: hand the executor a history in
# which the recorded state IS "" (READY after one completed poll) and look at what check receives.
from aws_durable_execution_sdk_python.identifier import OperationIdentifier
from aws_durable_execution_sdk_python.lambda_service import OperationStatus, OperationType, StepDetails
from aws_durable_execution_sdk_python.operation.wait_for_condition import WaitForConditionOperationExecutor
from aws_durable_execution_sdk_python.state import ExecutionState

direct = []
st = ExecutionState(
    durable_execution_arn="arn:exec",
    initial_checkpoint_token="t",
    operations={
        "op1": Operation(
            operation_id="op1",
            operation_type=OperationType.STEP,
            status=OperationStatus.READY,
            step_details=StepDetails(attempt=1, result=""),
        )
    },
    service_client=FakeBackend(),
)
bg = threading.Thread(target=st.checkpoint_batches_forever, daemon=True)
bg.start()
WaitForConditionOperationExecutor(
    check=lambda s, c: (direct.append(s), "done")[1],
    config=WaitForConditionConfig(
        wait_strategy=lambda s, a: WaitForConditionDecision.stop_polling(),
        initial_state=INITIAL,
        serdes=PassThroughSerDes(),
    ),
    state=st,
    operation_identifier=OperationIdentifier("op1", None, "poll"),
    context_logger=Mock(),
).process()
st.stop_checkpointing()
print("direct: recorded state '' ->  check received", direct)

expected = [INITIAL] + RETURNS[:-1]
problems = []
if received[:polls_before_replay] != expected:
    problems.append(
        f"check received {received[:polls_before_replay]!r}, expected {expected!r}: after poll 2 returned '' "
        f"poll 3 was handed the initial state instead of ''"
    )
if len(received) != polls_before_replay:
    problems.append("a completed condition was polled again on replay")
if results != [RETURNS[-1], RETURNS[-1]]:
    problems.append(
        f"the call returned {results!r} (first run, replay); the last returned state is {RETURNS[-1]!r} both times"
    )
if direct != [""]:
    problems.append(f"history records state '' for a READY operation, check received {direct!r}")
assert not problems, "C13 violated:\n - " + "\n - ".join(problems)
print("no violation")
