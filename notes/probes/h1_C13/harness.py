"""In-memory fake backend + driver used by the C13 probes (not part of the SDK).

The backend is wire-faithful: it consumes OperationUpdate.to_dict() (what LambdaClient sends)
and hands back Operation.from_dict(...) objects (what LambdaClient returns).

Model of the service for STEP operations (the same convention tests/operation/wait_for_condition_test.py
relies on: StepDetails.Attempt == number of completed attempts):
  START   -> STARTED, keeps Attempt / Result
  RETRY   -> PENDING, Attempt += 1, Result = Payload, NextAttemptTimestamp = now + delay
  SUCCEED -> SUCCEEDED, Result = Payload
  FAIL    -> FAILED, Error
PENDING -> READY when time passes (advance()).
"""

from __future__ import annotations

import datetime
import functools
import threading
from unittest.mock import Mock

import aws_durable_execution_sdk_python.state as state_mod
from aws_durable_execution_sdk_python.execution import (
    DurableExecutionInvocationInputWithClient,
    InitialExecutionState,
    durable_execution,
)
from aws_durable_execution_sdk_python.lambda_service import (
    CheckpointOutput,
    CheckpointUpdatedExecutionState,
    Operation,
    StateOutput,
)

# speed: do not wait a full second to fill each batch (semantics unchanged)
state_mod.CheckpointBatcherConfig = functools.partial(  # type: ignore[misc]
    state_mod.CheckpointBatcherConfig, max_batch_time_seconds=0.02
)


class CrashNow(Exception):
    """Raised by the fake backend to emulate a lost checkpoint call."""


class FakeBackend:
    def __init__(self, page_size: int | None = None, wire_faithful: bool = True):
        self.lock = threading.Lock()
        self.ops: dict[str, dict] = {
            "exec": {
                "Id": "exec",
                "Type": "EXECUTION",
                "Status": "STARTED",
                "ExecutionDetails": {"InputPayload": "{}"},
            }
        }
        self.order: list[str] = ["exec"]
        self.log: list[dict] = []  # every update dict, in order
        self.calls = 0
        self.fail_on_call: set[int] = set()  # call numbers (1-based) that fail without persisting
        self.fail_when = None  # callable(update_dicts) -> bool
        self.now = datetime.datetime.now(tz=datetime.UTC)
        self.page_size = page_size
        self.auto_ready = False  # turn PENDING->READY on every checkpoint call when due in real time

    # --- service client protocol -------------------------------------------------
    def checkpoint(self, durable_execution_arn, checkpoint_token, updates, client_token):
        with self.lock:
            self.calls += 1
            dicts = [u.to_dict() for u in updates]
            if self.calls in self.fail_on_call or (self.fail_when and self.fail_when(dicts)):
                raise CrashNow(f"backend call {self.calls} lost")
            for d in dicts:
                self._apply(d)
            if self.auto_ready:
                self._tick(datetime.datetime.now(tz=datetime.UTC))
            ops = [Operation.from_dict(self.ops[i]) for i in self.order]
            return CheckpointOutput(
                checkpoint_token=f"tok{self.calls}",
                new_execution_state=CheckpointUpdatedExecutionState(operations=ops),
            )

    def get_execution_state(self, durable_execution_arn, checkpoint_token, next_marker, max_items=1000):
        with self.lock:
            start = int(next_marker)
            ids = self.order[start : start + (self.page_size or 1000)]
            nxt = start + len(ids)
            return StateOutput(
                operations=[Operation.from_dict(self.ops[i]) for i in ids],
                next_marker=str(nxt) if nxt < len(self.order) else None,
            )

    # --- model ---------------------------------------------------------------------
    def _apply(self, d: dict) -> None:
        self.log.append(d)
        oid = d["Id"]
        cur = self.ops.get(oid)
        if cur is None:
            cur = {"Id": oid, "Type": d["Type"], "Status": "STARTED"}
            for k in ("ParentId", "Name", "SubType"):
                if k in d:
                    cur[k] = d[k]
            self.ops[oid] = cur
            self.order.append(oid)
        if cur["Status"] in ("SUCCEEDED", "FAILED"):
            raise AssertionError(f"update for completed operation {oid}: {d}")
        action = d["Action"]
        typ = d["Type"]
        if typ == "STEP":
            sd = cur.setdefault("StepDetails", {"Attempt": 0})
            if action == "START":
                cur["Status"] = "STARTED"
            elif action == "RETRY":
                cur["Status"] = "PENDING"
                sd["Attempt"] = sd.get("Attempt", 0) + 1
                if "Payload" in d:
                    sd["Result"] = d["Payload"]
                else:
                    sd.pop("Result", None)
                delay = d.get("StepOptions", {}).get("NextAttemptDelaySeconds", 0)
                base = datetime.datetime.now(tz=datetime.UTC) if self.auto_ready else self.now
                sd["NextAttemptTimestamp"] = base + datetime.timedelta(seconds=delay)
                sd["_real_due"] = datetime.datetime.now(tz=datetime.UTC) + datetime.timedelta(seconds=delay)
            elif action == "SUCCEED":
                cur["Status"] = "SUCCEEDED"
                if "Payload" in d:
                    sd["Result"] = d["Payload"]
                else:
                    sd.pop("Result", None)
            elif action == "FAIL":
                cur["Status"] = "FAILED"
                sd["Error"] = d.get("Error", {})
        elif typ == "CONTEXT":
            cd = cur.setdefault("ContextDetails", {})
            if action == "SUCCEED":
                cur["Status"] = "SUCCEEDED"
                if "Payload" in d:
                    cd["Result"] = d["Payload"]
                if d.get("ContextOptions", {}).get("ReplayChildren"):
                    cd["ReplayChildren"] = True
            elif action == "FAIL":
                cur["Status"] = "FAILED"
                cd["Error"] = d.get("Error", {})
        elif typ == "WAIT":
            if action == "START":
                cur["Status"] = "STARTED"
                cur["WaitDetails"] = {}
        elif typ == "EXECUTION":
            pass

    def _tick(self, real_now) -> None:
        for op in self.ops.values():
            if op["Type"] == "STEP" and op["Status"] == "PENDING":
                if op["StepDetails"].get("_real_due") <= real_now:
                    op["Status"] = "READY"

    def advance(self) -> None:
        """Time passes: every PENDING step becomes READY (the backend would now re-invoke)."""
        with self.lock:
            for op in self.ops.values():
                if op["Type"] == "STEP" and op["Status"] == "PENDING":
                    op["Status"] = "READY"

    # --- helpers -------------------------------------------------------------------
    def history(self) -> list[Operation]:
        return [Operation.from_dict(self.ops[i]) for i in self.order]

    def updates_for(self, sub_type: str = "WaitForCondition") -> list[dict]:
        return [d for d in self.log if d.get("SubType") == sub_type]


def lambda_ctx():
    c = Mock()
    c.aws_request_id = "req"
    c.client_context = None
    c.identity = None
    c._epoch_deadline_time_in_ms = 0  # noqa: SLF001
    c.invoked_function_arn = "arn"
    c.tenant_id = None
    return c


def invoke(handler, backend: FakeBackend, timeout: float = 60.0):
    """One invocation of the durable handler against the backend's current history."""
    wrapped = durable_execution(handler)
    hist = backend.history()
    if backend.page_size:
        first, marker = hist[: backend.page_size], (
            str(backend.page_size) if len(hist) > backend.page_size else ""
        )
    else:
        first, marker = hist, ""
    event = DurableExecutionInvocationInputWithClient(
        durable_execution_arn="arn:exec",
        checkpoint_token="tok0",  # noqa: S106
        initial_execution_state=InitialExecutionState(operations=first, next_marker=marker),
        service_client=backend,
    )
    out: dict = {}

    def run():
        try:
            out["result"] = wrapped(event, lambda_ctx())
        except BaseException as e:  # noqa: BLE001
            out["raised"] = e

    t = threading.Thread(target=run, daemon=True)
    t.start()
    t.join(timeout)
    if t.is_alive():
        raise AssertionError("HANG: invocation did not finish")
    return out


def run_to_completion(handler, backend: FakeBackend, max_invocations: int = 30):
    """Invoke, let time pass, re-invoke ... until the handler stops returning PENDING."""
    outs = []
    for _ in range(max_invocations):
        out = invoke(handler, backend)
        outs.append(out)
        if "raised" in out or out["result"]["Status"] != "PENDING":
            return outs
        backend.advance()
    raise AssertionError("did not complete")
