"""C13 finding 2: when the configured serialization cannot restore the recorded state, the poll runs
anyway - with the configured INITIAL state - and its outcome durably replaces the real polling state.

A custom SerDes (docs/advanced/serialization.md recommends e.g. a KMS-backed one) whose deserialize
fails ONCE (a throttled decrypt call, say) while restoring the state for poll 3. The value itself is
in the serializer's domain: it was serialized fine and deserializes fine a moment later.
operation/wait_for_condition.py: execute() swallows the exception (`except Exception: ... current_state =
self.config.initial_state`), so check is called with the initial state and poll number 3, the strategy is
consulted on the bogus outcome, and the RETRY checkpoint overwrites the recorded state: two polls' worth
of threaded state is lost silently and for good. (Everywhere else - including the replay of a SUCCEEDED
wait_for_condition - a deserialization error is raised as ExecutionError, as the docs promise.)

Run:  PYTHONPATH=/tmp/wt/h1_C13/src /venv/bin/python finding_2.py
"""
# ---------------------------------------------------------------------------------------------
# Minimal in-memory backend. It consumes exactly what LambdaClient would put on the wire
# (OperationUpdate.to_dict()) and hands back Operation.from_dict(...) objects. STEP model (the
# convention tests/operation/wait_for_condition_test.py uses: Attempt == completed attempts):
#   START -> STARTED (keeps Attempt/Result); RETRY -> PENDING, Attempt+1, Result=Payload,
#   NextAttemptTimestamp=now+delay; SUCCEED -> SUCCEEDED, Result=Payload; FAIL -> FAILED, Error.
# advance() lets the delay pass: PENDING -> READY (the service would now re-invoke the function).
# ---------------------------------------------------------------------------------------------
import datetime
import functools
import logging
import threading
from unittest.mock import Mock

import aws_durable_execution_sdk_python.state as state_mod
from aws_durable_execution_sdk_python.execution import (
    DurableExecutionInvocationInputWithClient,
    InitialExecutionState,
    durable_execution,
)
from aws_durable_execution_sdk_python.lambda_service import (
    CheckpointOutput,
    CheckpointUpdatedExecutionState,
    Operation,
    StateOutput,
)

logging.disable(logging.CRITICAL)
# only speeds the run up (do not wait 1 s to fill every batch); no change of semantics
state_mod.CheckpointBatcherConfig = functools.partial(
    state_mod.CheckpointBatcherConfig, max_batch_time_seconds=0.02
)


class FakeBackend:
    def __init__(self):
        self.lock = threading.Lock()
        self.ops = {
            "exec": {
                "Id": "exec",
                "Type": "EXECUTION",
                "Status": "STARTED",
                "ExecutionDetails": {"InputPayload": "{}"},
            }
        }
        self.order = ["exec"]
        self.log = []

    def checkpoint(self, durable_execution_arn, checkpoint_token, updates, client_token):
        with self.lock:
            for d in [u.to_dict() for u in updates]:
                self._apply(d)
            return CheckpointOutput(
                checkpoint_token="tok",
                new_execution_state=CheckpointUpdatedExecutionState(
                    operations=[Operation.from_dict(self.ops[i]) for i in self.order]
                ),
            )

    def get_execution_state(self, durable_execution_arn, checkpoint_token, next_marker, max_items=1000):
        return StateOutput(operations=[], next_marker=None)

    def _apply(self, d):
        self.log.append(d)
        cur = self.ops.get(d["Id"])
        if cur is None:
            cur = {"Id": d["Id"], "Type": d["Type"], "Status": "STARTED"}
            for k in ("ParentId", "Name", "SubType"):
                if k in d:
                    cur[k] = d[k]
            self.ops[d["Id"]] = cur
            self.order.append(d["Id"])
        assert cur["Status"] not in ("SUCCEEDED", "FAILED"), f"update for a completed operation: {d}"
        if d["Type"] != "STEP":
            return
        sd = cur.setdefault("StepDetails", {"Attempt": 0})
        action = d["Action"]
        if action == "START":
            cur["Status"] = "STARTED"
        elif action == "RETRY":
            cur["Status"] = "PENDING"
            sd["Attempt"] += 1
            sd.pop("Result", None)
            if "Payload" in d:
                sd["Result"] = d["Payload"]
            delay = d["StepOptions"]["NextAttemptDelaySeconds"]
            sd["NextAttemptTimestamp"] = datetime.datetime.now(tz=datetime.UTC) + datetime.timedelta(seconds=delay)
        elif action == "SUCCEED":
            cur["Status"] = "SUCCEEDED"
            sd.pop("Result", None)
            if "Payload" in d:
                sd["Result"] = d["Payload"]
        elif action == "FAIL":
            cur["Status"] = "FAILED"
            sd["Error"] = d.get("Error", {})

    def advance(self):
        with self.lock:
            for op in self.ops.values():
                if op["Type"] == "STEP" and op["Status"] == "PENDING":
                    op["Status"] = "READY"


def invoke(handler, backend, timeout=60.0):
    """One invocation of the durable handler with the backend's current history."""
    ctx = Mock()
    ctx.aws_request_id = "req"
    ctx.client_context = None
    ctx.identity = None
    ctx._epoch_deadline_time_in_ms = 0
    ctx.invoked_function_arn = "arn"
    ctx.tenant_id = None
    event = DurableExecutionInvocationInputWithClient(
        durable_execution_arn="arn:exec",
        checkpoint_token="tok0",
        initial_execution_state=InitialExecutionState(
            operations=[Operation.from_dict(backend.ops[i]) for i in backend.order], next_marker=""
        ),
        service_client=backend,
    )
    out = {}

    def run():
        try:
            out["result"] = durable_execution(handler)(event, ctx)
        except BaseException as e:  # noqa: BLE001
            out["raised"] = e

    t = threading.Thread(target=run, daemon=True)
    t.start()
    t.join(timeout)
    assert not t.is_alive(), "HANG: invocation did not finish"
    return out


def run_to_completion(handler, backend, max_invocations=20):
    outs = []
    for _ in range(max_invocations):
        out = invoke(handler, backend)
        outs.append(out)
        if "raised" in out or out["result"]["Status"] != "PENDING":
            return outs
        backend.advance()
    raise AssertionError("execution did not complete")


# ---------------------------------------------------------------------------------------------
import json

from aws_durable_execution_sdk_python.config import Duration
from aws_durable_execution_sdk_python.serdes import SerDes
from aws_durable_execution_sdk_python.waits import WaitForConditionConfig, WaitForConditionDecision


class FlakySerDes(SerDes):
    """JSON, but the N-th deserialize call fails (transient failure of whatever backs the serdes)."""

    def __init__(self, fail_on_call):
        self.calls = 0
        self.fail_on_call = fail_on_call

    def serialize(self, value, serdes_context):
        return json.dumps(value)

    def deserialize(self, data, serdes_context):
        self.calls += 1
        if self.calls == self.fail_on_call:
            msg = "ThrottlingException: decrypt rate exceeded"
            raise RuntimeError(msg)
        return json.loads(data)


INITIAL = {"seen": [], "cursor": 0}
TARGET = 5
serdes = FlakySerDes(fail_on_call=2)  # 1st deserialize = restore for poll 2, 2nd = restore for poll 3
polls = []  # (poll number, state received)
returned = []  # state returned by each poll


def check(state, check_context):
    polls.append(json.loads(json.dumps(state)))
    new_state = {"seen": [*state["seen"], f"page-{state['cursor']}"], "cursor": state["cursor"] + 1}
    returned.append(new_state)
    return new_state


attempts = []


def strategy(state, attempt):
    attempts.append(attempt)
    if state["cursor"] >= TARGET:
        return WaitForConditionDecision.stop_polling()
    return WaitForConditionDecision.continue_waiting(Duration.from_seconds(5))


outcome = []


def handler(event, context):
    outcome.append(
        context.wait_for_condition(
            check,
            WaitForConditionConfig(wait_strategy=strategy, initial_state=INITIAL, serdes=serdes),
            name="poll",
        )
    )
    return None


backend = FakeBackend()
outs = run_to_completion(handler, backend)

print("poll numbers            :", attempts)
for n, (got, ret) in enumerate(zip(polls, returned), start=1):
    print(f"poll {n}: received {got}  returned {ret}")
print("final outcome           :", outs[-1].get("result") or repr(outs[-1].get("raised")), outcome)

problems = []
for i in range(1, len(polls)):
    if polls[i] != returned[i - 1]:
        problems.append(
            f"poll {attempts[i]} received {polls[i]!r} but the previous poll returned {returned[i - 1]!r}"
        )
assert not problems, (
    "C13 violated (the state could not be restored, yet the poll ran - with the initial state - and its "
    "result was recorded over the real state):\n - " + "\n - ".join(problems)
)
print("no violation")
