"""C14 finding 1: wait_for_callback cannot deliver a payload through a typed callback SerDes.

WaitForCallbackConfig.serdes is documented as "custom serialization/deserialization for the callback
result".  wait_for_callback_handler (operation/callback.py) hands the same serdes to the *submitter
step* (whose result is the submitter's return value, normally None), and DurableContext.wait_for_callback
(context.py) runs everything in a child context that serialises the already-deserialised callback result
with the default serdes.  Consequences shown here:

  A. a typed serdes (serialize() expects the type it was written for) makes the submitter step fail with
     "Serialization failed" - the execution is FAILED before the callback is ever awaited, although the
     callback is still open at the backend;
  B. a typed serdes that tolerates None gets past the submitter, the payload is delivered, result() inside
     the child context returns the right object - and the execution is FAILED anyway, because the child
     context cannot serialise that object with the default serdes.

Control: the very same serdes with create_callback() + result() returns the delivered payload.

Run:  PYTHONPATH=/tmp/wt/h3_C14/src /venv/bin/python finding_1.py      (exits non-zero on the current code)
"""

from __future__ import annotations

import dataclasses
import json
import logging
import sys

from aws_durable_execution_sdk_python.config import CallbackConfig, WaitForCallbackConfig
from aws_durable_execution_sdk_python.execution import (
    DurableExecutionInvocationInputWithClient,
    InitialExecutionState,
    durable_execution,
)
from aws_durable_execution_sdk_python.lambda_service import (
    CallbackDetails,
    CheckpointOutput,
    CheckpointUpdatedExecutionState,
    ContextDetails,
    ExecutionDetails,
    Operation,
    OperationAction,
    OperationStatus,
    OperationType,
    StateOutput,
    StepDetails,
)
from aws_durable_execution_sdk_python.serdes import SerDes

logging.disable(logging.CRITICAL)


# ---------------------------------------------------------------- minimal in-memory backend
class Backend:
    def __init__(self):
        self.ops: dict[str, Operation] = {}
        self.n = 0

    def checkpoint(self, durable_execution_arn, checkpoint_token, updates, client_token):
        touched = []
        for u in updates:
            old = self.ops.get(u.operation_id)
            base = old or Operation(
                operation_id=u.operation_id,
                operation_type=u.operation_type,
                status=OperationStatus.STARTED,
                parent_id=u.parent_id,
                name=u.name,
                sub_type=u.sub_type,
            )
            if u.operation_type is OperationType.CALLBACK:
                self.n += 1
                op = dataclasses.replace(base, callback_details=CallbackDetails(callback_id=f"cb-{self.n}"))
            elif u.operation_type is OperationType.CONTEXT:
                if u.action is OperationAction.SUCCEED:
                    op = dataclasses.replace(base, status=OperationStatus.SUCCEEDED,
                                             context_details=ContextDetails(result=u.payload))
                elif u.action is OperationAction.FAIL:
                    op = dataclasses.replace(base, status=OperationStatus.FAILED,
                                             context_details=ContextDetails(error=u.error))
                else:
                    op = base
            elif u.operation_type is OperationType.STEP:
                if u.action is OperationAction.SUCCEED:
                    op = dataclasses.replace(base, status=OperationStatus.SUCCEEDED,
                                             step_details=StepDetails(attempt=1, result=u.payload))
                elif u.action is OperationAction.FAIL:
                    op = dataclasses.replace(base, status=OperationStatus.FAILED,
                                             step_details=StepDetails(attempt=1, error=u.error))
                else:
                    op = dataclasses.replace(base, step_details=StepDetails(attempt=0))
            else:
                op = base
            self.ops[u.operation_id] = op
            touched.append(op)
        return CheckpointOutput("tok", CheckpointUpdatedExecutionState(operations=touched))

    def get_execution_state(self, durable_execution_arn, checkpoint_token, next_marker, max_items=1000):
        return StateOutput()

    def deliver(self, callback_id: str, payload: str):
        for op in self.ops.values():
            if op.callback_details and op.callback_details.callback_id == callback_id:
                self.ops[op.operation_id] = dataclasses.replace(
                    op, status=OperationStatus.SUCCEEDED,
                    callback_details=CallbackDetails(callback_id=callback_id, result=payload))
                return
        raise KeyError(callback_id)

    def open_callbacks(self):
        return [o.callback_details.callback_id for o in self.ops.values()
                if o.operation_type is OperationType.CALLBACK and o.status is OperationStatus.STARTED]

    def invoke(self, handler):
        execution = Operation("exec", OperationType.EXECUTION, OperationStatus.STARTED,
                              execution_details=ExecutionDetails(input_payload="{}"))
        event = DurableExecutionInvocationInputWithClient(
            durable_execution_arn="arn", checkpoint_token="tok",
            initial_execution_state=InitialExecutionState([execution, *self.ops.values()], ""),
            service_client=self)
        return handler(event, None)


# ---------------------------------------------------------------- the user's types
@dataclasses.dataclass
class Approval:
    approved: bool
    approver: str


class ApprovalSerDes(SerDes[Approval]):
    """What the docs ask for: (de)serialises the callback result."""

    def serialize(self, value: Approval, serdes_context) -> str:
        return json.dumps(dataclasses.asdict(value))

    def deserialize(self, data: str, serdes_context) -> Approval:
        return Approval(**json.loads(data))


class NoneTolerantApprovalSerDes(ApprovalSerDes):
    def serialize(self, value, serdes_context) -> str:
        return "null" if value is None else super().serialize(value, serdes_context)

    def deserialize(self, data: str, serdes_context):
        return None if data == "null" else super().deserialize(data, serdes_context)


PAYLOAD = json.dumps({"approved": True, "approver": "alice"})
EXPECTED = {"approved": True, "approver": "alice"}


def run(handler) -> tuple[dict, Backend]:
    backend = Backend()
    out = backend.invoke(handler)
    for _ in range(3):
        if out["Status"] != "PENDING":
            break
        for cid in backend.open_callbacks():
            backend.deliver(cid, PAYLOAD)
        out = backend.invoke(handler)
    return out, backend


def make_wait_for_callback_handler(serdes):
    @durable_execution
    def handler(event, context):
        approval = context.wait_for_callback(
            lambda callback_id, wfc_context: None,  # hands the id to the external system
            name="approval",
            config=WaitForCallbackConfig(serdes=serdes),
        )
        return dataclasses.asdict(approval)

    return handler


def make_create_callback_handler(serdes):
    @durable_execution
    def handler(event, context):
        callback = context.create_callback(name="approval", config=CallbackConfig(serdes=serdes))
        context.step(lambda step_context: None, name="submitter")
        return dataclasses.asdict(callback.result())

    return handler


failures = []

# control: create_callback + result() with the typed serdes
out, _ = run(make_create_callback_handler(ApprovalSerDes()))
print("control  create_callback/result(), ApprovalSerDes             ->", out)
assert out["Status"] == "SUCCEEDED" and json.loads(out["Result"]) == EXPECTED, out

# A: the documented kind of serdes
out, backend = run(make_wait_for_callback_handler(ApprovalSerDes()))
print("case A   wait_for_callback, ApprovalSerDes                     ->", str(out)[:230])
print("         callbacks still open at the backend:", backend.open_callbacks())
if not (out["Status"] == "SUCCEEDED" and json.loads(out["Result"]) == EXPECTED):
    failures.append(
        "A: wait_for_callback(config=WaitForCallbackConfig(serdes=ApprovalSerDes())) ended "
        f"{out['Status']} ({(out.get('Error') or {}).get('ErrorMessage', '')[:120]}) before the callback was "
        f"awaited; callback(s) {backend.open_callbacks()} are still open"
    )

# B: a serdes that lets the submitter's None through
out, backend = run(make_wait_for_callback_handler(NoneTolerantApprovalSerDes()))
print("case B   wait_for_callback, NoneTolerantApprovalSerDes          ->", str(out)[:230])
if not (out["Status"] == "SUCCEEDED" and json.loads(out["Result"]) == EXPECTED):
    failures.append(
        "B: the payload was delivered and deserialised, but wait_for_callback ended "
        f"{out['Status']}: {(out.get('Error') or {}).get('ErrorMessage', '')[:160]}"
    )

if failures:
    print()
    for f in failures:
        print("VIOLATION", f)
    sys.exit("C14 violated: wait_for_callback does not return the delivered payload when the callback serdes is typed")
print("no violation")
