"""Scratch harness: in-memory fake backend for the durable execution SDK (exploration only)."""

from __future__ import annotations

import dataclasses
import os
import threading
from typing import Any

from aws_durable_execution_sdk_python import state as state_mod
from aws_durable_execution_sdk_python.execution import (
    DurableExecutionInvocationInputWithClient,
    InitialExecutionState,
)
from aws_durable_execution_sdk_python.lambda_service import (
    CallbackDetails,
    ChainedInvokeDetails,
    CheckpointOutput,
    CheckpointUpdatedExecutionState,
    ContextDetails,
    ErrorObject,
    ExecutionDetails,
    Operation,
    OperationAction,
    OperationStatus,
    OperationType,
    StateOutput,
    StepDetails,
    WaitDetails,
)

if os.environ.get("FAST", "1") == "1":
    _orig_init = state_mod.ExecutionState.__init__

    def _fast_init(self, *a, **kw):
        if kw.get("batcher_config") is None:
            kw["batcher_config"] = state_mod.CheckpointBatcherConfig(
                max_batch_time_seconds=0.02
            )
        _orig_init(self, *a, **kw)

    state_mod.ExecutionState.__init__ = _fast_init


class FakeBackend:
    def __init__(self, input_payload: str = "{}", page_size: int | None = None):
        self.lock = threading.Lock()
        self.ops: dict[str, Operation] = {}
        self.exec_op = Operation(
            operation_id="exec-0",
            operation_type=OperationType.EXECUTION,
            status=OperationStatus.STARTED,
            execution_details=ExecutionDetails(input_payload=input_payload),
        )
        self.updates_log: list[Any] = []
        self.calls: list[list[Any]] = []
        self.dirty: set[str] = set()
        self.cb_counter = 0
        self.page_size = page_size
        self.on_update = None  # hook(update, backend) called after applying an update
        self.token_n = 0

    # --- service client protocol
    def checkpoint(self, durable_execution_arn, checkpoint_token, updates, client_token):
        with self.lock:
            self.calls.append(list(updates))
            for u in updates:
                self.updates_log.append(u)
                self._apply(u)
                if self.on_update:
                    self.on_update(u, self)
            changed = [self.ops[i] for i in self.ops if i in self.dirty]
            self.dirty.clear()
            self.token_n += 1
            return CheckpointOutput(
                checkpoint_token=f"tok-{self.token_n}",
                new_execution_state=CheckpointUpdatedExecutionState(
                    operations=changed, next_marker=None
                ),
            )

    def get_execution_state(self, durable_execution_arn, checkpoint_token, next_marker, max_items=1000):
        with self.lock:
            all_ops = [self.exec_op, *self.ops.values()]
            start = int(next_marker)
            end = start + (self.page_size or 1000)
            return StateOutput(
                operations=all_ops[start:end],
                next_marker=str(end) if end < len(all_ops) else None,
            )

    # --- apply
    def _apply(self, u):
        existing = self.ops.get(u.operation_id)
        t = u.operation_type
        a = u.action
        if t is OperationType.EXECUTION:
            return
        if existing is not None and existing.status in {
            OperationStatus.SUCCEEDED,
            OperationStatus.FAILED,
            OperationStatus.CANCELLED,
            OperationStatus.TIMED_OUT,
            OperationStatus.STOPPED,
        }:
            raise RuntimeError(f"update {a} for terminal operation {u.operation_id} ({u.name})")
        base = existing or Operation(
            operation_id=u.operation_id,
            operation_type=t,
            status=OperationStatus.STARTED,
            parent_id=u.parent_id,
            name=u.name,
            sub_type=u.sub_type,
        )
        if t is OperationType.CALLBACK:
            assert a is OperationAction.START
            if existing is not None:
                raise RuntimeError("callback START twice")
            self.cb_counter += 1
            op = dataclasses.replace(
                base, callback_details=CallbackDetails(callback_id=f"cb-{self.cb_counter}")
            )
        elif t is OperationType.CHAINED_INVOKE:
            assert a is OperationAction.START
            if existing is not None:
                raise RuntimeError("invoke START twice")
            op = dataclasses.replace(base, chained_invoke_details=ChainedInvokeDetails())
        elif t is OperationType.CONTEXT:
            if a is OperationAction.START:
                op = base
            elif a is OperationAction.SUCCEED:
                op = dataclasses.replace(
                    base,
                    status=OperationStatus.SUCCEEDED,
                    context_details=ContextDetails(
                        replay_children=bool(u.context_options and u.context_options.replay_children),
                        result=u.payload,
                    ),
                )
            else:
                op = dataclasses.replace(
                    base, status=OperationStatus.FAILED, context_details=ContextDetails(error=u.error)
                )
        elif t is OperationType.STEP:
            attempt = existing.step_details.attempt if existing and existing.step_details else 0
            if a is OperationAction.START:
                op = dataclasses.replace(base, status=OperationStatus.STARTED,
                                         step_details=StepDetails(attempt=attempt))
            elif a is OperationAction.SUCCEED:
                op = dataclasses.replace(base, status=OperationStatus.SUCCEEDED,
                                         step_details=StepDetails(attempt=attempt + 1, result=u.payload))
            elif a is OperationAction.FAIL:
                op = dataclasses.replace(base, status=OperationStatus.FAILED,
                                         step_details=StepDetails(attempt=attempt + 1, error=u.error))
            else:  # RETRY
                op = dataclasses.replace(base, status=OperationStatus.PENDING,
                                         step_details=StepDetails(attempt=attempt + 1, error=u.error, result=u.payload))
        elif t is OperationType.WAIT:
            op = dataclasses.replace(base, wait_details=WaitDetails())
        else:
            raise RuntimeError(t)
        self.ops[u.operation_id] = op
        self.dirty.add(u.operation_id)

    # --- external events (call with or without lock held)
    def _set(self, op_id, **kw):
        self.ops[op_id] = dataclasses.replace(self.ops[op_id], **kw)
        self.dirty.add(op_id)

    def find(self, type_, name=None):
        return [o for o in self.ops.values() if o.operation_type is type_ and (name is None or o.name == name)]

    def complete_callback(self, callback_id, status=OperationStatus.SUCCEEDED, result=None, error=None):
        for o in self.ops.values():
            if o.callback_details and o.callback_details.callback_id == callback_id:
                self._set(o.operation_id, status=status,
                          callback_details=CallbackDetails(callback_id=callback_id, result=result, error=error))
                return
        raise KeyError(callback_id)

    def complete_invoke(self, op_id, status=OperationStatus.SUCCEEDED, result=None, error=None):
        self._set(op_id, status=status, chained_invoke_details=ChainedInvokeDetails(result=result, error=error))

    # --- invocation
    def invoke(self, handler, page_size=None):
        with self.lock:
            all_ops = [self.exec_op, *self.ops.values()]
            self.dirty.clear()
        ps = page_size or self.page_size
        if ps:
            first = all_ops[:ps]
            marker = str(ps) if ps < len(all_ops) else ""
        else:
            first, marker = all_ops, ""
        self.token_n += 1
        event = DurableExecutionInvocationInputWithClient(
            durable_execution_arn="arn:test",
            checkpoint_token=f"tok-{self.token_n}",
            initial_execution_state=InitialExecutionState(operations=first, next_marker=marker),
            service_client=self,
        )
        return handler(event, None)


def err(msg="boom", type_="ExtError", data=None):
    return ErrorObject(message=msg, type=type_, data=data, stack_trace=None)
