"""C14 finding 2: an empty-string callback payload does not survive the SDK's own history encoding.

An external system completes a callback with the empty payload "" (a legal Result for
SendDurableExecutionCallbackSuccess).  The history of the re-invocation is handed to the handler as the
JSON event that DurableExecutionInvocationInput.to_json_dict() produces (the documented inverse of
from_json_dict(), which durable_execution applies to every event that is a dict).

Operation.to_dict() writes CallbackDetails.Result only if it is truthy, so "" is dropped, the handler's
history holds result=None, and Callback.result() returns None instead of the delivered "".
The same history in hand-written wire form ("Result": "") gives "" - the loss is in to_dict().
(The same truthiness test drops an empty ChainedInvokeDetails.Result and StepDetails.Result; commit e0052d3
repaired this pair of functions for context / wait / invoke *details* but not for empty results.)

Run:  PYTHONPATH=/tmp/wt/h3_C14/src /venv/bin/python finding_2.py      (exits non-zero on the current code)
"""

from __future__ import annotations

import json
import logging
import sys

from aws_durable_execution_sdk_python.execution import (
    DurableExecutionInvocationInput,
    InitialExecutionState,
    durable_execution,
)
from aws_durable_execution_sdk_python.lambda_service import (
    CallbackDetails,
    ExecutionDetails,
    Operation,
    OperationStatus,
    OperationSubType,
    OperationType,
)

logging.disable(logging.CRITICAL)


class FakeBoto3Lambda:
    """Stands in for the boto3 Lambda client that durable_execution(boto3_client=...) accepts."""

    def __init__(self):
        self.operations: dict[str, dict] = {}

    def checkpoint_durable_execution(self, DurableExecutionArn, CheckpointToken, Updates, **kwargs):  # noqa: N803
        changed = []
        for update in Updates:
            wire = {"Id": update["Id"], "Type": update["Type"], "Status": "STARTED", "Name": update.get("Name")}
            if update["Type"] == "CALLBACK":
                wire["SubType"] = "Callback"
                wire["CallbackDetails"] = {"CallbackId": "callback-1"}
            self.operations[update["Id"]] = wire
            changed.append(wire)
        return {"CheckpointToken": "token-2", "NewExecutionState": {"Operations": changed}}

    def get_durable_execution_state(self, **kwargs):
        return {"Operations": []}


observed: list = []
boto = FakeBoto3Lambda()


@durable_execution(boto3_client=boto)
def handler(event, context):
    callback = context.create_callback(name="ack")
    observed.append(callback.callback_id)
    payload = callback.result()
    return {"payload": payload, "type": type(payload).__name__}


EXECUTION = Operation(
    operation_id="execution",
    operation_type=OperationType.EXECUTION,
    status=OperationStatus.STARTED,
    execution_details=ExecutionDetails(input_payload="{}"),
)

# ---- invocation 1: the callback is created, the handler suspends
first_event = DurableExecutionInvocationInput(
    durable_execution_arn="arn", checkpoint_token="token-1",
    initial_execution_state=InitialExecutionState(operations=[EXECUTION], next_marker=""),
).to_json_dict()
first = handler(first_event, None)
print("invocation 1:", first)
assert first == {"Status": "PENDING"}, first
(callback_operation_id,) = boto.operations

# ---- the external system answers with the empty payload ""
DELIVERED = ""

# (a) control: history in hand-written wire form
wire_event = {
    "DurableExecutionArn": "arn",
    "CheckpointToken": "token-3",
    "InitialExecutionState": {
        "Operations": [
            {"Id": "execution", "Type": "EXECUTION", "Status": "STARTED", "ExecutionDetails": {"InputPayload": "{}"}},
            {"Id": callback_operation_id, "Type": "CALLBACK", "SubType": "Callback", "Status": "SUCCEEDED",
             "Name": "ack", "CallbackDetails": {"CallbackId": "callback-1", "Result": DELIVERED}},
        ],
        "NextMarker": "",
    },
}
control = handler(wire_event, None)
print("invocation 2, wire-form history      :", control)
assert json.loads(control["Result"]) == {"payload": "", "type": "str"}, control

# (b) the same history as the SDK's model objects, encoded with the SDK's own to_json_dict()
history = [
    EXECUTION,
    Operation(
        operation_id=callback_operation_id,
        operation_type=OperationType.CALLBACK,
        sub_type=OperationSubType.CALLBACK,
        status=OperationStatus.SUCCEEDED,
        name="ack",
        callback_details=CallbackDetails(callback_id="callback-1", result=DELIVERED),
    ),
]
sdk_event = DurableExecutionInvocationInput(
    durable_execution_arn="arn", checkpoint_token="token-3",
    initial_execution_state=InitialExecutionState(operations=history, next_marker=""),
).to_json_dict()
second = handler(sdk_event, None)
print("invocation 2, to_json_dict() history :", second)
print("callback ids seen:", observed)

round_trip = Operation.from_json_dict(history[1].to_json_dict())
print("Operation round trip keeps the payload:", round_trip == history[1],
      "| result", repr(history[1].callback_details.result), "->", repr(round_trip.callback_details.result))

result = json.loads(second["Result"])
if result != {"payload": DELIVERED, "type": "str"}:
    sys.exit(
        f"C14 violated: the callback was completed with payload {DELIVERED!r} but result() returned "
        f"{result['payload']!r} ({result['type']}) once the history had passed through Operation.to_dict()"
    )
print("no violation")
