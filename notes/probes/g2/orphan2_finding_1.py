"""finding_1: a134671 narrows, but does not close, "a decided map/parallel answers with a sibling's suspension".

Commit a134671 lets ConcurrentExecutor.execute() look at the counters again before it honours a
recorded suspension.  But the finishing branch still publishes its state (exe_state.complete) and
is counted (counters.complete_task) in two separate steps of _on_task_complete, and nothing orders
the second step against the check in execute().  When the thread of the finishing branch is
preempted between the two steps for as long as it takes the sibling to record its suspension AND
the woken execute() to evaluate `not self.counters.should_complete()`, the suspension still wins:

    parallel([waits_for_callback, quick], min_successful=1)  ->  PENDING

although `quick` has succeeded (its SUCCEED record is even at the backend already) and the
completion policy needs nothing else.  The invocation stays parked on a callback its policy no
longer needs (C09: "returns exactly when its completion policy is decided"; C07 liveness then
depends on a callback nobody may ever send).

The interleaving is forced with two wrappers that only *delay* threads (no behaviour is changed):
  * ExecutionCounters.complete_task  waits until execute() has evaluated should_complete()
  * the callback branch parks only after `quick` has published its COMPLETED state

Run:  PYTHONPATH=/tmp/wt/g2_orphan2/src /venv/bin/python finding_1.py     (exits non-zero on the defect)
"""

from __future__ import annotations

import logging
import sys
import threading
from dataclasses import replace
from unittest.mock import Mock

from aws_durable_execution_sdk_python.concurrency import models
from aws_durable_execution_sdk_python.config import CompletionConfig, ParallelConfig
from aws_durable_execution_sdk_python.execution import (
    DurableExecutionInvocationInputWithClient,
    InitialExecutionState,
    durable_execution,
)
from aws_durable_execution_sdk_python.lambda_service import (
    CallbackDetails,
    CheckpointOutput,
    CheckpointUpdatedExecutionState,
    ContextDetails,
    ExecutionDetails,
    Operation,
    OperationAction,
    OperationStatus,
    OperationType,
    StateOutput,
    StepDetails,
)

logging.disable(logging.CRITICAL)


# --------------------------------------------------------------------------- fake backend
class Backend:
    """Keeps the operations, applies updates, answers every checkpoint with the changed operations."""

    def __init__(self):
        self.lock = threading.RLock()
        self.ops: dict[str, Operation] = {}
        self.order: list[str] = []
        self.names: dict[str, str] = {}
        self.log: list[tuple[str, str]] = []
        self.callbacks = 0
        self._put(
            Operation(
                operation_id="exec",
                operation_type=OperationType.EXECUTION,
                status=OperationStatus.STARTED,
                execution_details=ExecutionDetails(input_payload="{}"),
            )
        )

    def _put(self, op):
        if op.operation_id not in self.ops:
            self.order.append(op.operation_id)
        self.ops[op.operation_id] = op

    def checkpoint(self, durable_execution_arn, checkpoint_token, updates, client_token):
        changed = []
        with self.lock:
            for u in updates:
                if u.operation_type is OperationType.EXECUTION:
                    continue
                self.names[u.operation_id] = u.name or u.operation_id[:8]
                self.log.append((u.action.value, self.names[u.operation_id]))
                base = dict(
                    operation_id=u.operation_id,
                    operation_type=u.operation_type,
                    parent_id=u.parent_id,
                    name=u.name,
                    sub_type=u.sub_type,
                )
                if u.operation_type is OperationType.CONTEXT:
                    if u.action is OperationAction.START:
                        op = Operation(status=OperationStatus.STARTED, **base)
                    elif u.action is OperationAction.SUCCEED:
                        op = Operation(
                            status=OperationStatus.SUCCEEDED,
                            context_details=ContextDetails(
                                replay_children=bool(u.context_options and u.context_options.replay_children),
                                result=u.payload,
                            ),
                            **base,
                        )
                    else:
                        op = Operation(
                            status=OperationStatus.FAILED, context_details=ContextDetails(error=u.error), **base
                        )
                elif u.operation_type is OperationType.STEP:
                    if u.action is OperationAction.START:
                        op = Operation(status=OperationStatus.STARTED, step_details=StepDetails(), **base)
                    elif u.action is OperationAction.SUCCEED:
                        op = Operation(
                            status=OperationStatus.SUCCEEDED,
                            step_details=StepDetails(attempt=1, result=u.payload),
                            **base,
                        )
                    else:
                        op = Operation(
                            status=OperationStatus.FAILED, step_details=StepDetails(attempt=1, error=u.error), **base
                        )
                elif u.operation_type is OperationType.CALLBACK:
                    self.callbacks += 1
                    op = Operation(
                        status=OperationStatus.STARTED,
                        callback_details=CallbackDetails(callback_id=f"cb-{self.callbacks}"),
                        **base,
                    )
                else:
                    raise AssertionError(u.operation_type)
                self._put(op)
                changed.append(u.operation_id)
            ops = [self.ops[i] for i in dict.fromkeys(changed)]
        return CheckpointOutput(
            checkpoint_token="tok", new_execution_state=CheckpointUpdatedExecutionState(operations=ops)
        )

    def get_execution_state(self, durable_execution_arn, checkpoint_token, next_marker, max_items=1000):
        return StateOutput(operations=[], next_marker="")

    def invoke(self, handler):
        with self.lock:
            ops = [self.ops[i] for i in self.order]
        event = DurableExecutionInvocationInputWithClient(
            durable_execution_arn="arn",
            checkpoint_token="t0",
            initial_execution_state=InitialExecutionState(operations=ops, next_marker=""),
            service_client=self,
        )
        lambda_context = Mock()
        lambda_context.aws_request_id = "r"
        lambda_context.client_context = None
        lambda_context.identity = None
        lambda_context._epoch_deadline_time_in_ms = 0  # noqa: SLF001
        lambda_context.invoked_function_arn = "arn"
        lambda_context.tenant_id = None
        return handler(event, lambda_context)

    def status_of(self, name):
        with self.lock:
            for oid, op in self.ops.items():
                if self.names.get(oid) == name:
                    return op.status
        return None


# --------------------------------------------------------------------------- forced interleaving
quick_published = threading.Event()  # `quick` is COMPLETED (exe_state.complete ran) but not yet counted
execute_checked = threading.Event()  # execute() has evaluated counters.should_complete()

_orig_complete_task = models.ExecutionCounters.complete_task
_orig_should_complete = models.ExecutionCounters.should_complete


def delayed_complete_task(self):
    # _on_task_complete: exe_state.complete(result) has run, the branch is about to be counted.
    # The thread is "preempted" here until execute() has looked at the counters.
    quick_published.set()
    execute_checked.wait(3)
    _orig_complete_task(self)


def observed_should_complete(self):
    answer = _orig_should_complete(self)
    if threading.current_thread().name.startswith("dex-handler"):
        # called by execute() (the handler thread), not by a done-callback (a pool thread)
        execute_checked.set()
    return answer


models.ExecutionCounters.complete_task = delayed_complete_task
models.ExecutionCounters.should_complete = observed_should_complete


# --------------------------------------------------------------------------- the workflow
@durable_execution
def handler(event, ctx):
    def waits_for_callback(c):
        def submit(callback_id, _):
            # the sibling parks only after `quick` has published its state
            quick_published.wait(10)

        return c.wait_for_callback(submit, name="wfc")

    def quick(c):
        return c.step(lambda _: "quick-result", name="quick")

    result = ctx.parallel(
        [waits_for_callback, quick],
        name="P",
        config=ParallelConfig(completion_config=CompletionConfig(min_successful=1)),
    )
    return [(item.status.value, item.result) for item in result.all]


def main() -> int:
    backend = Backend()
    box = {}

    def run():
        try:
            box["out"] = backend.invoke(handler)
        except BaseException as e:  # noqa: BLE001
            box["err"] = e

    t = threading.Thread(target=run, daemon=True)
    t.start()
    t.join(30)
    assert not t.is_alive(), "invocation hangs"
    assert "err" not in box, f"invocation raised {box.get('err')!r}"
    out = box["out"]
    print("invocation answered:", out)
    print("records at the backend:", backend.log)

    quick_branch = backend.status_of("parallel-branch-1")
    assert quick_branch is OperationStatus.SUCCEEDED, f"test setup: branch 'quick' is {quick_branch}"
    assert out["Status"] != "PENDING", (
        "parallel([waits_for_callback, quick], min_successful=1) answered PENDING although branch "
        "'quick' has SUCCEEDED (recorded at the backend) and min_successful=1 is reached: execute() "
        "honoured the sibling's suspension because the finished branch was published but not yet "
        "counted when execute() looked at the counters (a134671 only re-reads the counters)."
    )
    assert out["Status"] == "SUCCEEDED", out
    print("OK: the decided parallel returned its result")
    return 0


if __name__ == "__main__":
    sys.exit(main())
