"""finding_2: e857dee is incomplete - acquirers of a broken OrderedLock get the failure of the stored
exception's __str__ instead of the promised OrderedLockError.

e857dee moved the construction of OrderedLockError(msg, stored_exception) out of the internal mutex because
"the constructor formats the stored exception, i.e. runs user code (__str__, __bool__, __len__)".  That user
code can also simply FAIL (the very class of exception eb35b39 / 276483a had to guard against elsewhere: an
Exception whose __str__ returns None or raises).  OrderedLockError.__init__ (exceptions.py) formats it
unguarded, so OrderedLock.acquire() (threading.py) - both the "already broken" path and the "woken because
the lock broke" path - raises TypeError / the __str__'s own error.  C19: "every current and future acquirer
gets an ordered-lock error instead of blocking".  A caller that handles OrderedLockError (the documented
contract) does not handle this; OrderedCounter.increment() leaks the TypeError the same way.

Run:  PYTHONPATH=/tmp/wt/g2_serdes2/src /venv/bin/python finding_2.py
"""
from __future__ import annotations

import sys
import threading
import time

from aws_durable_execution_sdk_python.exceptions import OrderedLockError
from aws_durable_execution_sdk_python.threading import OrderedLock


class StrReturnsNone(Exception):
    def __str__(self):
        return None  # type: ignore[return-value]


class StrRaises(Exception):
    def __str__(self):
        raise RuntimeError("boom in __str__")


def outcome(fn, timeout=10):
    box = {}

    def run():
        try:
            box["r"] = ("returned", fn())
        except BaseException as e:  # noqa: BLE001
            box["r"] = ("raised", e)

    t = threading.Thread(target=run, daemon=True)
    t.start()
    t.join(timeout)
    return ("blocked", None) if t.is_alive() else box["r"]


def run_case(exc_class):
    lock = OrderedLock()
    inside = threading.Event()
    leave = threading.Event()
    results = {}

    def holder():
        with lock:
            inside.set()
            leave.wait()
            raise exc_class("holder failed")

    holder_thread = threading.Thread(target=lambda: results.__setitem__("holder", outcome(holder)))
    holder_thread.start()
    inside.wait()

    # a current acquirer: queued behind the holder when the lock breaks
    waiter_thread = threading.Thread(target=lambda: results.__setitem__("current", outcome(lock.acquire)))
    waiter_thread.start()
    deadline = time.time() + 10
    while len(lock._waiters) < 2 and time.time() < deadline:  # noqa: SLF001
        time.sleep(0.001)

    leave.set()
    holder_thread.join()
    waiter_thread.join()
    # a future acquirer: arrives after the lock broke
    results["future"] = outcome(lock.acquire)
    return results


def main() -> int:
    problems = []
    for exc_class in (StrReturnsNone, StrRaises):
        results = run_case(exc_class)
        kind, exc = results["holder"]
        assert kind == "raised" and isinstance(exc, exc_class), f"holder must see its own exception, got {results['holder']}"
        for who in ("current", "future"):
            kind, exc = results[who]
            print(f"{exc_class.__name__}: {who} acquirer -> {kind} {exc!r:.100}")
            if not (kind == "raised" and isinstance(exc, OrderedLockError)):
                problems.append((exc_class.__name__, who, kind, type(exc).__name__))
    assert not problems, (
        "acquirers of a broken OrderedLock must get OrderedLockError; with a stored exception whose __str__ "
        f"fails they got: {problems}"
    )
    print("every acquirer got OrderedLockError")
    return 0


if __name__ == "__main__":
    sys.exit(main())
