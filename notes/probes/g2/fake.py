"""In-memory fake backend for experiments."""
from __future__ import annotations
import datetime, threading, json
from aws_durable_execution_sdk_python.lambda_service import (
    CheckpointOutput, CheckpointUpdatedExecutionState, Operation, OperationAction,
    OperationStatus, OperationType, StepDetails, ContextDetails, WaitDetails, ExecutionDetails, StateOutput,
)
from aws_durable_execution_sdk_python.execution import (
    DurableExecutionInvocationInputWithClient, InitialExecutionState, durable_execution,
)

UTC = datetime.timezone.utc

class Backend:
    def __init__(self, payload="{}"):
        self.ops: dict[str, Operation] = {}
        self.order: list[str] = []
        self.log: list = []          # (op_id, type, action, name)
        self.lock = threading.Lock()
        self.fail_on = None          # callable(update)->Exception|None
        self.now_offset = 0.0
        self._put(Operation(operation_id="exec", operation_type=OperationType.EXECUTION,
                            status=OperationStatus.STARTED,
                            execution_details=ExecutionDetails(input_payload=payload)))
        self.token = 0

    def now(self):
        return datetime.datetime.now(UTC) + datetime.timedelta(seconds=self.now_offset)

    def _put(self, op):
        if op.operation_id not in self.ops:
            self.order.append(op.operation_id)
        self.ops[op.operation_id] = op

    def advance(self, seconds):
        self.now_offset += seconds
        self._tick()

    def _tick(self):
        for oid, op in list(self.ops.items()):
            if op.operation_type is OperationType.STEP and op.status is OperationStatus.PENDING:
                ts = op.step_details.next_attempt_timestamp
                if ts and ts <= self.now():
                    self._put(_replace(op, status=OperationStatus.READY))
            if op.operation_type is OperationType.WAIT and op.status is OperationStatus.STARTED:
                ts = op.wait_details.scheduled_end_timestamp
                if ts and ts <= self.now():
                    self._put(_replace(op, status=OperationStatus.SUCCEEDED))

    def checkpoint(self, durable_execution_arn, checkpoint_token, updates, client_token=None):
        with self.lock:
            self._tick()
            for u in updates:
                if self.fail_on:
                    e = self.fail_on(u)
                    if e:
                        raise e
            changed = []
            for u in updates:
                self.log.append((u.operation_id, u.operation_type.value, u.action.value, u.name))
                old = self.ops.get(u.operation_id)
                if old is not None and old.status in (OperationStatus.SUCCEEDED, OperationStatus.FAILED):
                    raise RuntimeError(f"update {u.action} for terminal op {u.operation_id} {u.name}")
                if u.operation_type is OperationType.STEP:
                    sd = old.step_details if old and old.step_details else StepDetails()
                    if u.action is OperationAction.START:
                        st = OperationStatus.STARTED
                        sd = StepDetails(attempt=sd.attempt, result=sd.result, error=sd.error)
                    elif u.action is OperationAction.RETRY:
                        st = OperationStatus.PENDING
                        delay = u.step_options.next_attempt_delay_seconds
                        sd = StepDetails(attempt=sd.attempt + 1,
                                         next_attempt_timestamp=self.now() + datetime.timedelta(seconds=delay),
                                         result=u.payload, error=u.error)
                    elif u.action is OperationAction.SUCCEED:
                        st = OperationStatus.SUCCEEDED
                        sd = StepDetails(attempt=sd.attempt + 1, result=u.payload)
                    elif u.action is OperationAction.FAIL:
                        st = OperationStatus.FAILED
                        sd = StepDetails(attempt=sd.attempt + 1, error=u.error)
                    op = Operation(operation_id=u.operation_id, operation_type=u.operation_type, status=st,
                                   parent_id=u.parent_id, name=u.name, sub_type=u.sub_type, step_details=sd)
                elif u.operation_type is OperationType.CONTEXT:
                    if u.action is OperationAction.START:
                        st = OperationStatus.STARTED; cd = ContextDetails()
                    elif u.action is OperationAction.SUCCEED:
                        st = OperationStatus.SUCCEEDED
                        cd = ContextDetails(replay_children=bool(u.context_options and u.context_options.replay_children), result=u.payload)
                    else:
                        st = OperationStatus.FAILED; cd = ContextDetails(error=u.error)
                    op = Operation(operation_id=u.operation_id, operation_type=u.operation_type, status=st,
                                   parent_id=u.parent_id, name=u.name, sub_type=u.sub_type, context_details=cd)
                elif u.operation_type is OperationType.WAIT:
                    op = Operation(operation_id=u.operation_id, operation_type=u.operation_type, status=OperationStatus.STARTED,
                                   parent_id=u.parent_id, name=u.name, sub_type=u.sub_type,
                                   wait_details=WaitDetails(scheduled_end_timestamp=self.now() + datetime.timedelta(seconds=u.wait_options.wait_seconds)))
                elif u.operation_type is OperationType.EXECUTION:
                    op = _replace(self.ops["exec"], status=OperationStatus.SUCCEEDED if u.action is OperationAction.SUCCEED else OperationStatus.FAILED)
                else:
                    raise NotImplementedError(u.operation_type)
                self._put(op)
                changed.append(op.operation_id)
            self._tick()
            self.token += 1
            # an empty checkpoint returns everything (refresh)
            ids = changed if updates else list(self.order)
            # also return whatever ticked
            ids = list(dict.fromkeys(ids + [i for i in self.order if self.ops[i].status in (OperationStatus.READY,)]))
            return CheckpointOutput(checkpoint_token=f"t{self.token}",
                                    new_execution_state=CheckpointUpdatedExecutionState(operations=[self.ops[i] for i in ids]))

    def get_execution_state(self, durable_execution_arn, checkpoint_token, next_marker, max_items=1000):
        idx = int(next_marker)
        ids = self.order[idx: idx + self.page]
        nm = str(idx + self.page) if idx + self.page < len(self.order) else None
        return StateOutput(operations=[self.ops[i] for i in ids], next_marker=nm)

    page = 1000

    def invoke(self, handler, page=None):
        with self.lock:
            self._tick()
        if page:
            self.page = page
            first = [self.ops[i] for i in self.order[:page]]
            nm = str(page) if page < len(self.order) else ""
        else:
            first = [self.ops[i] for i in self.order]; nm = ""
        ev = DurableExecutionInvocationInputWithClient(
            durable_execution_arn="arn", checkpoint_token=f"t{self.token}",
            initial_execution_state=InitialExecutionState(operations=first, next_marker=nm),
            service_client=self)
        return handler(ev, None)

    def by_name(self, name):
        return [op for op in self.ops.values() if op.name == name]


def _replace(op, **kw):
    import dataclasses
    return dataclasses.replace(op, **kw)
